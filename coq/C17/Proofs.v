(* C17 - proofs about the model of the restructuring tools (any tables, any rows, any sequences). *)
From Coq Require Import String List Bool ZArith Lia.
From PP Require Import C17.Model.
Import ListNotations.
Open Scope string_scope.

(* ------------------------------------------------------------------ basic plumbing *)
Lemma memz_In x l : memz x l = true <-> In x l.
Proof.
  unfold memz. rewrite existsb_exists. split.
  - intros [y [H E]]. apply Z.eqb_eq in E. now subst.
  - intros H. exists x. split; auto. apply Z.eqb_refl.
Qed.

Lemma memz_false x l : memz x l = false <-> ~ In x l.
Proof. rewrite <- memz_In. destruct (memz x l); split; intros; try discriminate; auto. now exfalso; apply H. Qed.

Lemma rows_of_filter_rows k tn n : rows_of tn (filter_rows k n) = filter (k tn) (rows_of tn n).
Proof.
  induction n as [|t n IH]; simpl; auto.
  rewrite filter_app, <- IH. f_equal.
  destruct (String.eqb (t_name t) tn) eqn:E; simpl; auto.
  apply String.eqb_eq in E. now subst.
Qed.

Lemma rows_of_map_rows f tn n : rows_of tn (map_rows f n) = map (f tn) (rows_of tn n).
Proof.
  induction n as [|t n IH]; simpl; auto.
  rewrite map_app, <- IH. f_equal.
  destruct (String.eqb (t_name t) tn) eqn:E; simpl; auto.
  apply String.eqb_eq in E. now subst.
Qed.

Lemma labels_of_rows_of e n : labels_of e n = map r_label (rows_of e n).
Proof.
  induction n as [|t n IH]; simpl; auto.
  rewrite map_app, <- IH. f_equal. now destruct (String.eqb (t_name t) e).
Qed.

Lemma In_rows_of tn r n : In r (rows_of tn n) <-> exists t, In t n /\ t_name t = tn /\ In r (t_rows t).
Proof.
  unfold rows_of. rewrite in_flat_map. split.
  - intros [t [Ht Hr]]. destruct (String.eqb (t_name t) tn) eqn:E; [|contradiction].
    apply String.eqb_eq in E. eauto.
  - intros [t [Ht [En Hr]]]. exists t. split; auto. subst. now rewrite String.eqb_refl.
Qed.

(* a statement about every cell of the net that looks at (table, column, kind) only *)
Definition allcells (Q : string -> string -> kind -> Prop) (n : net) : Prop :=
  forall tn r c, In r (rows_of tn n) -> In c (r_cells r) -> Q tn (c_col c) (c_kind c).

Lemma allcells_filter_rows Q k n : allcells Q n -> allcells Q (filter_rows k n).
Proof.
  intros H tn r c Hr Hc. rewrite rows_of_filter_rows in Hr. apply filter_In in Hr. eapply H; eauto. tauto.
Qed.

Definition keeps_shape (f : string -> row -> row) : Prop :=
  forall tn r c', In c' (r_cells (f tn r)) ->
    exists c, In c (r_cells r) /\ c_col c' = c_col c /\ c_kind c' = c_kind c.

Lemma allcells_map_rows Q f n : keeps_shape f -> allcells Q n -> allcells Q (map_rows f n).
Proof.
  intros Hf H tn r' c' Hr Hc. rewrite rows_of_map_rows in Hr. apply in_map_iff in Hr.
  destruct Hr as [r [<- Hr]]. destruct (Hf _ _ _ Hc) as [c [Hc0 [E1 E2]]]. rewrite E1, E2. eapply H; eauto.
Qed.

Lemma relabel_keeps_shape e rho (sel : string -> cell -> bool) :
  keeps_shape (fun tn r => mkRow (if fam e tn then rho (r_label r) else r_label r)
     (map (fun c => if sel tn c then set_val c (rho (c_val c)) else c) (r_cells r))).
Proof.
  intros tn r c' Hc. simpl in Hc. apply in_map_iff in Hc. destruct Hc as [c [<- Hc]].
  exists c. split; auto. destruct (sel tn c); auto.
Qed.

Lemma allcells_relabel Q e rho sel n : allcells Q n -> allcells Q (relabel e rho sel n).
Proof. apply allcells_map_rows, relabel_keeps_shape. Qed.

Lemma redirect_keeps_shape (sel : string -> cell -> bool) j1 js :
  keeps_shape (fun tn r => mkRow (r_label r)
    (map (fun c => if sel tn c && memz (c_val c) js then set_val c j1 else c) (r_cells r))).
Proof.
  intros tn r c' Hc. simpl in Hc. apply in_map_iff in Hc. destruct Hc as [c [<- Hc]].
  exists c. split; auto. destruct (sel tn c && memz (c_val c) js); auto.
Qed.

Lemma allcells_redirect Q sel j1 js n : allcells Q n -> allcells Q (redirect sel j1 js n).
Proof. apply allcells_map_rows, redirect_keeps_shape. Qed.

Lemma allcells_cont_all Q s cs order start n : allcells Q n -> allcells Q (cont_all s cs order start n).
Proof.
  revert n. induction order as [|e r IH]; intros n H; simpl; auto.
  apply IH. now apply allcells_relabel.
Qed.

Lemma allcells_step Q s o n : allcells Q n -> allcells Q (step s o n).
Proof.
  intros H. destruct o; simpl.
  - now apply allcells_relabel.
  - now apply allcells_relabel.
  - now apply allcells_cont_all.
  - now apply allcells_filter_rows, allcells_redirect.
  - now apply allcells_filter_rows.
  - unfold drop_elems_full, drop_pipe_refs, drop_elems, drop_labels.
    destruct cascade; repeat apply allcells_filter_rows; auto.
  - unfold drop_elems_full, drop_pipe_refs, drop_elems. repeat apply allcells_filter_rows; auto.
  - unfold drop_pipe_refs, drop_elems, drop_labels. repeat apply allcells_filter_rows; auto.
  - now apply allcells_redirect.
  - unfold select_res. now apply allcells_filter_rows.
Qed.

Lemma allcells_exec Q s ops n : allcells Q n -> allcells Q (exec s ops n).
Proof.
  revert n. induction ops as [|o r IH]; intros n H; simpl; auto. apply IH. now apply allcells_step.
Qed.

(* ------------------------------------------------------------------ model = specification when the
   selectors agree on the cells of the net *)
Definition agree (f g : selector) (n : net) : Prop := allcells (fun tn col k => f tn col k = g tn col k) n.

Definition agree_in (sel1 sel2 : string -> cell -> bool) (n : net) : Prop :=
  forall t r c, In t n -> In r (t_rows t) -> In c (r_cells r) -> sel1 (t_name t) c = sel2 (t_name t) c.

Lemma agree_agree_in f g n : agree f g n -> agree_in (on_cell f) (on_cell g) n.
Proof.
  intros H t r c Ht Hr Hc. unfold on_cell. apply (H (t_name t) r c); auto.
  apply In_rows_of. eauto.
Qed.

Lemma map_rows_ext_in f g n :
  (forall t r, In t n -> In r (t_rows t) -> f (t_name t) r = g (t_name t) r) -> map_rows f n = map_rows g n.
Proof.
  intros H. unfold map_rows. apply map_ext_in. intros t Ht. f_equal. apply map_ext_in. intros r Hr. now apply H.
Qed.

Lemma filter_ext_in {A} (f g : A -> bool) l : (forall x, In x l -> f x = g x) -> filter f l = filter g l.
Proof.
  induction l as [|x l IH]; simpl; auto. intros H. rewrite (H x) by auto. rewrite IH; auto.
Qed.

Lemma filter_rows_ext_in f g n :
  (forall t r, In t n -> In r (t_rows t) -> f (t_name t) r = g (t_name t) r) -> filter_rows f n = filter_rows g n.
Proof.
  intros H. unfold filter_rows. apply map_ext_in. intros t Ht. f_equal. apply filter_ext_in. intros r Hr. now apply H.
Qed.

Lemma existsb_ext_in {A} (f g : A -> bool) l : (forall x, In x l -> f x = g x) -> existsb f l = existsb g l.
Proof. induction l as [|x l IH]; simpl; auto. intros H. rewrite (H x) by auto. rewrite IH; auto. Qed.

Lemma forallb_ext_in {A} (f g : A -> bool) l : (forall x, In x l -> f x = g x) -> forallb f l = forallb g l.
Proof. induction l as [|x l IH]; simpl; auto. intros H. rewrite (H x) by auto. rewrite IH; auto. Qed.

Lemma relabel_agree e rho sel1 sel2 n : agree_in sel1 sel2 n -> relabel e rho sel1 n = relabel e rho sel2 n.
Proof.
  intros H. apply map_rows_ext_in. intros t r Ht Hr. f_equal. apply map_ext_in. intros c Hc.
  now rewrite (H t r c).
Qed.

Lemma redirect_agree sel1 sel2 j1 js n : agree_in sel1 sel2 n -> redirect sel1 j1 js n = redirect sel2 j1 js n.
Proof.
  intros H. apply map_rows_ext_in. intros t r Ht Hr. f_equal. apply map_ext_in. intros c Hc.
  now rewrite (H t r c).
Qed.

Lemma hit_agree sel1 sel2 js n t r : agree_in sel1 sel2 n -> In t n -> In r (t_rows t) ->
  hit sel1 js (t_name t) r = hit sel2 js (t_name t) r.
Proof. intros H Ht Hr. apply existsb_ext_in. intros c Hc. now rewrite (H t r c). Qed.

Lemma flat_map_ext_in {A B} (f g : A -> list B) l : (forall x, In x l -> f x = g x) -> flat_map f l = flat_map g l.
Proof. induction l as [|x l IH]; simpl; auto. intros H. rewrite (H x) by auto. rewrite IH; auto. Qed.

Lemma hit_labels_agree sel1 sel2 js n e : agree_in sel1 sel2 n -> hit_labels sel1 js n e = hit_labels sel2 js n e.
Proof.
  intros H. apply flat_map_ext_in. intros t Ht. destruct (String.eqb (t_name t) e); auto.
  f_equal. apply filter_ext_in. intros r Hr. now apply (hit_agree _ _ _ n).
Qed.

Lemma drop_elems_agree sel1 sel2 js n : agree_in sel1 sel2 n -> drop_elems sel1 js n = drop_elems sel2 js n.
Proof.
  intros H. apply filter_rows_ext_in. intros t r Ht Hr.
  rewrite (hit_agree _ _ _ n t r H Ht Hr). f_equal.
  destruct (parent (t_name t)); auto. now rewrite (hit_labels_agree _ _ _ _ _ H).
Qed.

Lemma keep_row_agree sel1 sel2 js n t r : agree_in sel1 sel2 n -> In t n -> In r (t_rows t) ->
  keep_row sel1 js (t_name t) r = keep_row sel2 js (t_name t) r.
Proof.
  intros H Ht Hr. unfold keep_row. f_equal.
  - apply existsb_ext_in. intros c Hc. now apply (H t r c).
  - apply forallb_ext_in. intros c Hc. now rewrite (H t r c).
Qed.

Lemma select_agree sel1 sel2 selp1 selp2 js n : agree_in sel1 sel2 n -> agree_in selp1 selp2 n ->
  select sel1 selp1 js n = select sel2 selp2 js n.
Proof.
  intros H HP. apply filter_rows_ext_in. intros t r Ht Hr.
  assert (K : kept_labels sel1 js n "pipe" = kept_labels sel2 js n "pipe").
  { apply flat_map_ext_in. intros t0 Ht0. destruct (String.eqb (t_name t0) "pipe"); auto.
    f_equal. apply filter_ext_in. intros r0 Hr0. now apply (keep_row_agree _ _ _ n). }
  rewrite K, (keep_row_agree _ _ _ n t r H Ht Hr).
  assert (F : forallb (fun c => negb (selp1 (t_name t) c) || memz (c_val c) (kept_labels sel2 js n "pipe")) (r_cells r) =
              forallb (fun c => negb (selp2 (t_name t) c) || memz (c_val c) (kept_labels sel2 js n "pipe")) (r_cells r)).
  { apply forallb_ext_in. intros c Hc. now rewrite (HP t r c). }
  rewrite F. reflexivity.
Qed.

Lemma agree_in_filter_rows sel1 sel2 k n : agree_in sel1 sel2 n -> agree_in sel1 sel2 (filter_rows k n).
Proof.
  intros H t' r c Ht Hr Hc. unfold filter_rows in Ht. apply in_map_iff in Ht. destruct Ht as [t [<- Ht]].
  simpl in *. apply filter_In in Hr. apply (H t r c); tauto.
Qed.

Lemma drop_elems_full_agree sel1 sel2 selp1 selp2 js n : agree_in sel1 sel2 n -> agree_in selp1 selp2 n ->
  drop_elems_full sel1 selp1 js n = drop_elems_full sel2 selp2 js n.
Proof.
  intros H HP. unfold drop_elems_full, drop_pipe_refs.
  rewrite (hit_labels_agree _ _ js n "pipe" H), (drop_elems_agree _ _ js n H).
  apply drop_elems_agree. unfold drop_elems. now apply agree_in_filter_rows.
Qed.

Lemma sel_pred_agree sel1 sel2 selp1 selp2 js n t r : agree_in sel1 sel2 n -> agree_in selp1 selp2 n ->
  In t n -> In r (t_rows t) -> sel_pred sel1 selp1 js n (t_name t) r = sel_pred sel2 selp2 js n (t_name t) r.
Proof.
  intros H HP Ht Hr. unfold sel_pred.
  assert (K : kept_labels sel1 js n "pipe" = kept_labels sel2 js n "pipe").
  { apply flat_map_ext_in. intros t0 Ht0. destruct (String.eqb (t_name t0) "pipe"); auto.
    f_equal. apply filter_ext_in. intros r0 Hr0. now apply (keep_row_agree _ _ _ n). }
  rewrite K, (keep_row_agree _ _ _ n t r H Ht Hr).
  assert (F : forallb (fun c => negb (selp1 (t_name t) c) || memz (c_val c) (kept_labels sel2 js n "pipe")) (r_cells r) =
              forallb (fun c => negb (selp2 (t_name t) c) || memz (c_val c) (kept_labels sel2 js n "pipe")) (r_cells r)).
  { apply forallb_ext_in. intros c Hc. now rewrite (HP t r c). }
  rewrite F. reflexivity.
Qed.

Lemma select_res_agree sel1 sel2 selp1 selp2 js n : agree_in sel1 sel2 n -> agree_in selp1 selp2 n ->
  select_res sel1 selp1 js n = select_res sel2 selp2 js n.
Proof.
  intros H HP. apply filter_rows_ext_in. intros t r Ht Hr.
  rewrite (sel_pred_agree _ _ _ _ js n t r H HP Ht Hr).
  destruct (prefix "res_" (t_name t)); auto. destruct (parent (t_name t)) as [e|]; auto.
  f_equal. f_equal. apply filter_ext_in. intros r0 Hr0. apply In_rows_of in Hr0. destruct Hr0 as [t0 [Ht0 [<- Hr0]]].
  now apply sel_pred_agree.
Qed.

Definition sems_agree (s1 s2 : sem) (cs : colset) (n : net) : Prop :=
  agree (selJ s1 cs) (selJ s2 cs) n /\ agree (selP s1) (selP s2) n.

Lemma sel_for_agree s1 s2 cs e n : sems_agree s1 s2 cs n -> agree_in (sel_for s1 cs e) (sel_for s2 cs e) n.
Proof.
  intros [HJ HP]. unfold sel_for. destruct (String.eqb e "junction"); [now apply agree_agree_in|].
  destruct (String.eqb e "pipe"); [now apply agree_agree_in|]. intros t r c _ _ _. reflexivity.
Qed.

Lemma cont_all_agree s1 s2 cs order start n : sems_agree s1 s2 cs n ->
  cont_all s1 cs order start n = cont_all s2 cs order start n.
Proof.
  revert n. induction order as [|e r IH]; intros n H; simpl; auto.
  assert (E : cont_elem s1 cs e start n = cont_elem s2 cs e start n).
  { unfold cont_elem. apply relabel_agree. now apply sel_for_agree. }
  rewrite E. apply IH. destruct H as [HJ HP]. split; unfold agree, cont_elem; now apply allcells_relabel.
Qed.

Lemma step_agree s1 s2 o n : sems_agree s1 s2 (cs_of o) n -> step s1 o n = step s2 o n.
Proof.
  intros H. pose proof H as [HJ HP]. destruct o; simpl in *.
  - apply relabel_agree. now apply sel_for_agree.
  - apply relabel_agree. now apply sel_for_agree.
  - now apply cont_all_agree.
  - f_equal. apply redirect_agree. now apply agree_agree_in.
  - apply select_agree; now apply agree_agree_in.
  - destruct cascade; auto. apply drop_elems_full_agree; apply agree_in_filter_rows; now apply agree_agree_in.
  - apply drop_elems_full_agree; now apply agree_agree_in.
  - f_equal. unfold drop_pipe_refs. apply drop_elems_agree. now apply agree_agree_in.
  - apply redirect_agree. now apply agree_agree_in.
  - apply select_res_agree; now apply agree_agree_in.
Qed.

(* the hypotheses under which today's code meets the specification: the tuple set is exactly the set
   of junction-reference columns of the net, and pipe references live in valve.element *)
Definition exact (cs : colset) (n : net) : Prop :=
  allcells (fun tn col k => selJ model_sem cs tn col k = kind_is_kj k) n.
Definition pexact (n : net) : Prop :=
  allcells (fun tn col k => kind_is_kp k = true -> tn = "valve" /\ col = "element") n.

Lemma exact_sems_agree cs n : exact cs n -> pexact n -> sems_agree model_sem spec_sem cs n.
Proof.
  intros HE HP. split; intros tn r c Hr Hc; simpl.
  - apply (HE tn r c Hr Hc).
  - specialize (HP tn r c Hr Hc). simpl in HP. destruct (kind_is_kp (c_kind c)) eqn:K.
    + destruct (HP eq_refl) as [-> ->]. reflexivity.
    + now rewrite andb_false_r.
Qed.

Lemma step_model_eq_spec o n : exact (cs_of o) n -> pexact n -> step model_sem o n = step spec_sem o n.
Proof. intros. apply step_agree. now apply exact_sems_agree. Qed.

(* over sequences: exactness is about (table, column, kind) and is kept by every operation *)
Lemma exec_model_eq_spec ops n :
  (forall o, In o ops -> exact (cs_of o) n) -> pexact n -> exec model_sem ops n = exec spec_sem ops n.
Proof.
  revert n. induction ops as [|o r IH]; intros n HE HP; simpl; auto.
  rewrite (step_model_eq_spec o n) by (auto; apply HE; now left).
  apply IH.
  - intros o' Ho'. unfold exact. apply allcells_step. apply HE. now right.
  - unfold pexact. now apply allcells_step.
Qed.

(* ------------------------------------------------------------------ renaming *)
Definition rename (e : string) (rho : Z -> Z) (k : kind -> bool) : net -> net :=
  relabel e rho (fun _ c => k (c_kind c)).

Lemma reindex_junction_is_rename cs lk n : exact cs n ->
  reindex_elem model_sem cs "junction" lk n = rename "junction" (app_lk lk) kind_is_kj n.
Proof.
  intros H. unfold reindex_elem, rename. apply relabel_agree.
  intros t r c Ht Hr Hc. simpl. unfold on_cell. simpl. apply (H (t_name t) r c); auto. apply In_rows_of; eauto.
Qed.

Lemma reindex_pipe_is_rename cs lk n : pexact n ->
  reindex_elem model_sem cs "pipe" lk n = rename "pipe" (app_lk lk) kind_is_kp n.
Proof.
  intros H. unfold reindex_elem, rename. apply relabel_agree.
  intros t r c Ht Hr Hc.
  assert (Hr' : In r (rows_of (t_name t) n)) by (apply In_rows_of; eauto).
  specialize (H _ _ _ Hr' Hc). cbv beta in H.
  change (sel_for model_sem cs "pipe" (t_name t) c)
    with (String.eqb (t_name t) "valve" && String.eqb (c_col c) "element" && kind_is_kp (c_kind c)).
  destruct (kind_is_kp (c_kind c)) eqn:K.
  - destruct (H eq_refl) as [E1 E2]. rewrite E1, E2. reflexivity.
  - now rewrite andb_false_r.
Qed.

Lemma relabel_relabel_id e rho rho' sel n :
  (forall x, rho' (rho x) = x) ->
  (forall tn c v, sel tn (set_val c v) = sel tn c) ->
  relabel e rho' sel (relabel e rho sel n) = n.
Proof.
  intros Hinv Hsel. unfold relabel, map_rows. rewrite map_map.
  rewrite <- (map_id n) at 2. apply map_ext. intros [tn rows]. simpl. f_equal.
  rewrite map_map. rewrite <- (map_id rows) at 2. apply map_ext. intros [l cells]. simpl. f_equal.
  - destruct (fam e tn); auto.
  - rewrite map_map. rewrite <- (map_id cells) at 2. apply map_ext. intros c.
    destruct (sel tn c) eqn:S.
    + rewrite Hsel, S. destruct c; unfold set_val; simpl. now rewrite Hinv.
    + now rewrite S.
Qed.

Lemma rename_roundtrip e rho rho' k n : (forall x, rho' (rho x) = x) -> rename e rho' k (rename e rho k n) = n.
Proof. intros H. unfold rename. apply relabel_relabel_id; auto. Qed.

(* ------------------------------------------------------------------ referential integrity *)
Definition RI_J (n : net) : Prop :=
  forall tn r c, In r (rows_of tn n) -> In c (r_cells r) -> c_kind c = KJ -> In (c_val c) (labels_of "junction" n).
Definition RI_P (n : net) : Prop :=
  forall tn r c, In r (rows_of tn n) -> In c (r_cells r) -> c_kind c = KP -> In (c_val c) (labels_of "pipe" n).
Definition RI (n : net) : Prop := RI_J n /\ RI_P n.

Lemma labels_of_relabel x e rho sel n :
  labels_of x (relabel e rho sel n) = if fam e x then map rho (labels_of x n) else labels_of x n.
Proof.
  rewrite !labels_of_rows_of. unfold relabel. rewrite rows_of_map_rows, map_map. simpl.
  destruct (fam e x); [now rewrite map_map|]. reflexivity.
Qed.

(* renaming keeps integrity: the reference columns of kind k follow the labels of e *)
Lemma rename_RI_gen e rho (kd : kind) (k : kind -> bool) x n :
  (forall k0, k k0 = true <-> k0 = kd) -> fam e x = true ->
  (forall tn r c, In r (rows_of tn n) -> In c (r_cells r) -> c_kind c = kd -> In (c_val c) (labels_of x n)) ->
  (forall tn r c, In r (rows_of tn (rename e rho k n)) -> In c (r_cells r) -> c_kind c = kd ->
      In (c_val c) (labels_of x (rename e rho k n))).
Proof.
  intros Hk Hf H tn r' c' Hr Hc Hkd. unfold rename in *. rewrite labels_of_relabel, Hf.
  unfold relabel in Hr. rewrite rows_of_map_rows in Hr. apply in_map_iff in Hr. destruct Hr as [r [<- Hr]].
  simpl in Hc. apply in_map_iff in Hc. destruct Hc as [c [<- Hc]].
  destruct (k (c_kind c)) eqn:K.
  - simpl in *. apply in_map. apply Hk in K. eapply H; eauto.
  - exfalso. assert (k (c_kind c) = true) by (apply Hk; exact Hkd). congruence.
Qed.

Lemma rename_other_RI_gen e rho (kd : kind) (k : kind -> bool) x n :
  (forall k0, k k0 = true -> k0 <> kd) -> fam e x = false ->
  (forall tn r c, In r (rows_of tn n) -> In c (r_cells r) -> c_kind c = kd -> In (c_val c) (labels_of x n)) ->
  (forall tn r c, In r (rows_of tn (rename e rho k n)) -> In c (r_cells r) -> c_kind c = kd ->
      In (c_val c) (labels_of x (rename e rho k n))).
Proof.
  intros Hk Hf H tn r' c' Hr Hc Hkd. unfold rename in *. rewrite labels_of_relabel, Hf.
  unfold relabel in Hr. rewrite rows_of_map_rows in Hr. apply in_map_iff in Hr. destruct Hr as [r [<- Hr]].
  simpl in Hc. apply in_map_iff in Hc. destruct Hc as [c [<- Hc]].
  destruct (k (c_kind c)) eqn:K.
  - simpl in Hkd. exfalso. eapply Hk; eauto.
  - eapply H; eauto.
Qed.

Lemma kj_iff k0 : kind_is_kj k0 = true <-> k0 = KJ. Proof. destruct k0; simpl; split; congruence. Qed.
Lemma kp_iff k0 : kind_is_kp k0 = true <-> k0 = KP. Proof. destruct k0; simpl; split; congruence. Qed.

Lemma rename_junction_RI rho n : RI n -> RI (rename "junction" rho kind_is_kj n).
Proof.
  intros [HJ HP]. split.
  - unfold RI_J. apply (rename_RI_gen "junction" rho KJ kind_is_kj "junction");
      [apply kj_iff | reflexivity | exact HJ].
  - unfold RI_P. apply (rename_other_RI_gen "junction" rho KP kind_is_kj "pipe"); [| reflexivity | exact HP].
    intros k0 Hk0. apply kj_iff in Hk0. congruence.
Qed.

Lemma rename_pipe_RI rho n : RI n -> RI (rename "pipe" rho kind_is_kp n).
Proof.
  intros [HJ HP]. split.
  - unfold RI_J. apply (rename_other_RI_gen "pipe" rho KJ kind_is_kp "junction"); [| reflexivity | exact HJ].
    intros k0 Hk0. apply kp_iff in Hk0. congruence.
  - unfold RI_P. apply (rename_RI_gen "pipe" rho KP kind_is_kp "pipe");
      [apply kp_iff | reflexivity | exact HP].
Qed.

(* unique labels stay unique under an injective renaming *)
Lemma NoDup_map_inj {A B} (f : A -> B) l : (forall x y, In x l -> In y l -> f x = f y -> x = y) -> NoDup l -> NoDup (map f l).
Proof.
  induction l as [|a l IH]; intros Hinj Hnd; simpl; constructor.
  - inversion Hnd; subst. intros Hin. apply in_map_iff in Hin. destruct Hin as [y [E Hy]].
    assert (y = a) by (apply Hinj; simpl; auto). subst. contradiction.
  - inversion Hnd; subst. apply IH; auto. intros. apply Hinj; simpl; auto.
Qed.

Lemma rename_labels_nodup e rho k n :
  (forall x y, In x (labels_of e n) -> In y (labels_of e n) -> rho x = rho y -> x = y) ->
  NoDup (labels_of e n) -> NoDup (labels_of e (rename e rho k n)).
Proof.
  intros Hinj Hnd. unfold rename. rewrite labels_of_relabel.
  assert (F : fam e e = true) by (unfold fam; now rewrite String.eqb_refl).
  rewrite F. now apply NoDup_map_inj.
Qed.

(* ------------------------------------------------------------------ continuous index = renaming by rank *)
Local Open Scope Z_scope.
Lemma count_lt_mono a b l : a <= b -> count_lt a l <= count_lt b l.
Proof.
  intros H. unfold count_lt. apply Nat2Z.inj_le. induction l as [|x l IH]; simpl; auto.
  destruct (Z.ltb x a) eqn:E1; destruct (Z.ltb x b) eqn:E2; simpl; try lia.
  all: try (apply Z.ltb_lt in E1; apply Z.ltb_ge in E2; lia).
Qed.

Lemma count_lt_strict a b l : a < b -> In a l -> count_lt a l < count_lt b l.
Proof.
  intros H Hin. unfold count_lt. apply Nat2Z.inj_lt. induction l as [|x l IH]; simpl; [contradiction|].
  assert (M : (length (filter (fun y => Z.ltb y a) l) <= length (filter (fun y => Z.ltb y b) l))%nat).
  { pose proof (count_lt_mono a b l ltac:(lia)) as C. unfold count_lt in C. lia. }
  destruct Hin as [-> | Hin].
  - rewrite Z.ltb_irrefl. assert (E : Z.ltb a b = true) by (apply Z.ltb_lt; lia). rewrite E. simpl. lia.
  - specialize (IH Hin).
    destruct (Z.ltb x a) eqn:E1; destruct (Z.ltb x b) eqn:E2; simpl; try lia.
    all: try (apply Z.ltb_lt in E1; apply Z.ltb_ge in E2; lia).
Qed.

Lemma filter_length_le {A} (f : A -> bool) l : (length (filter f l) <= length l)%nat.
Proof. induction l as [|x l IH]; simpl; auto. destruct (f x); simpl; lia. Qed.

Lemma rank_injective labs start a b : In a labs -> In b labs -> rank_fn labs start a = rank_fn labs start b -> a = b.
Proof.
  intros Ha Hb E. unfold rank_fn in E.
  destruct (Z.lt_trichotomy a b) as [L | [L | L]]; auto.
  - pose proof (count_lt_strict a b labs L Ha). lia.
  - pose proof (count_lt_strict b a labs L Hb). lia.
Qed.

Lemma rank_range labs start a : start <= rank_fn labs start a <= start + Z.of_nat (length labs).
Proof.
  unfold rank_fn, count_lt. pose proof (filter_length_le (fun y => Z.ltb y a) labs). lia.
Qed.

Lemma rank_range_strict labs start a : In a labs -> rank_fn labs start a < start + Z.of_nat (length labs).
Proof.
  intros Hin. unfold rank_fn, count_lt.
  enough (length (filter (fun y => Z.ltb y a) labs) < length labs)%nat by lia.
  induction labs as [|x l IH]; [contradiction|]. simpl.
  pose proof (filter_length_le (fun y => Z.ltb y a) l).
  destruct Hin as [-> | Hin].
  - rewrite Z.ltb_irrefl. lia.
  - specialize (IH Hin). destruct (Z.ltb x a); simpl; lia.
Qed.

Lemma cont_elem_is_rename_junction cs start n : exact cs n ->
  cont_elem model_sem cs "junction" start n = rename "junction" (rank_fn (labels_of "junction" n) start) kind_is_kj n.
Proof.
  intros H. unfold cont_elem, rename. apply relabel_agree.
  intros t r c Ht Hr Hc. simpl. unfold on_cell. simpl. apply (H (t_name t) r c); auto. apply In_rows_of; eauto.
Qed.

(* ------------------------------------------------------------------ no dangling junction reference *)
Local Close Scope Z_scope.

Definition special (tn : string) : bool :=
  String.eqb tn "junction" || String.eqb tn "junction_geodata" || String.eqb tn "pipe_geodata" || prefix "res_" tn.
(* label-only tables carry no reference cells *)
Definition plain (n : net) : Prop := forall tn r, special tn = true -> In r (rows_of tn n) -> r_cells r = [].
(* every junction reference of the net is a column the operation knows *)
Definition covers (f : selector) (n : net) : Prop := allcells (fun tn col k => k = KJ -> f tn col k = true) n.

Lemma plain_filter_rows k n : plain n -> plain (filter_rows k n).
Proof. intros H tn r Hs Hr. rewrite rows_of_filter_rows in Hr. apply filter_In in Hr. apply (H tn); tauto. Qed.

Lemma plain_map_cells (lab : string -> row -> Z) (g : string -> cell -> cell) n :
  plain n -> plain (map_rows (fun tn r => mkRow (lab tn r) (map (g tn) (r_cells r))) n).
Proof.
  intros H tn r' Hs Hr. rewrite rows_of_map_rows in Hr. apply in_map_iff in Hr. destruct Hr as [r [<- Hr]].
  simpl. now rewrite (H tn r Hs Hr).
Qed.

Lemma plain_relabel e rho sel n : plain n -> plain (relabel e rho sel n).
Proof. apply (plain_map_cells (fun tn r => if fam e tn then rho (r_label r) else r_label r)
                (fun tn c => if sel tn c then set_val c (rho (c_val c)) else c)). Qed.

Lemma plain_redirect sel j1 js n : plain n -> plain (redirect sel j1 js n).
Proof. apply (plain_map_cells (fun _ r => r_label r)
                (fun tn c => if sel tn c && memz (c_val c) js then set_val c j1 else c)). Qed.

Lemma plain_cont_all s cs order start n : plain n -> plain (cont_all s cs order start n).
Proof. revert n. induction order as [|e r IH]; intros n H; simpl; auto. apply IH. now apply plain_relabel. Qed.

Lemma plain_step s o n : plain n -> plain (step s o n).
Proof.
  intros H. destruct o; simpl.
  - now apply plain_relabel.
  - now apply plain_relabel.
  - now apply plain_cont_all.
  - now apply plain_filter_rows, plain_redirect.
  - now apply plain_filter_rows.
  - unfold drop_elems_full, drop_pipe_refs, drop_elems, drop_labels.
    destruct cascade; repeat apply plain_filter_rows; auto.
  - unfold drop_elems_full, drop_pipe_refs, drop_elems. repeat apply plain_filter_rows; auto.
  - unfold drop_pipe_refs, drop_elems, drop_labels. repeat apply plain_filter_rows; auto.
  - now apply plain_redirect.
  - unfold select_res. now apply plain_filter_rows.
Qed.

Lemma junction_special : special "junction" = true. Proof. reflexivity. Qed.

(* filtering rows keeps integrity when the junction rows still referenced are kept *)
Lemma filter_RI_J k n : RI_J n ->
  (forall tn r c r0, In r (rows_of tn n) -> k tn r = true -> In c (r_cells r) -> c_kind c = KJ ->
      In r0 (rows_of "junction" n) -> r_label r0 = c_val c -> k "junction" r0 = true) ->
  RI_J (filter_rows k n).
Proof.
  intros H Hk tn r c Hr Hc Hkd. rewrite rows_of_filter_rows in Hr. apply filter_In in Hr. destruct Hr as [Hr Hkr].
  pose proof (H tn r c Hr Hc Hkd) as Hin. rewrite labels_of_rows_of in *. apply in_map_iff in Hin.
  destruct Hin as [r0 [E Hr0]]. rewrite rows_of_filter_rows. apply in_map_iff. exists r0. split; [exact E|].
  apply filter_In. split; [exact Hr0|]. exact (Hk tn r c r0 Hr Hkr Hc Hkd Hr0 E).
Qed.

Lemma hit_plain sel js tn r n : plain n -> special tn = true -> In r (rows_of tn n) -> hit sel js tn r = false.
Proof. intros H Hs Hr. unfold hit. now rewrite (H tn r Hs Hr). Qed.

Lemma drop_elems_RI_J sel js n : plain n -> RI_J n -> RI_J (drop_elems sel js n).
Proof.
  intros Hp H. apply filter_RI_J; auto. intros tn r c r0 Hr Hk Hc Hkd Hr0 E.
  rewrite (hit_plain sel js "junction" r0 n Hp junction_special Hr0). reflexivity.
Qed.

Lemma drop_pipes_RI_J ps n : RI_J n -> RI_J (drop_labels (fam "pipe") ps n).
Proof. intros H. apply filter_RI_J; auto. Qed.

Lemma hit_false_cell sel js tn r c : hit sel js tn r = false -> In c (r_cells r) -> sel tn c = true ->
  memz (c_val c) js = false.
Proof.
  intros Hh Hc Hs. unfold hit in Hh. destruct (memz (c_val c) js) eqn:M; auto.
  assert (existsb (fun c0 => sel tn c0 && memz (c_val c0) js) (r_cells r) = true).
  { apply existsb_exists. exists c. split; auto. now rewrite Hs, M. }
  congruence.
Qed.

Lemma drop_junctions_RI_J f js n : plain n -> covers f n -> RI_J n ->
  RI_J (drop_elems (on_cell f) js (drop_labels (fam "junction") js n)).
Proof.
  intros Hp Hc H tn r c Hr Hcc Hkd.
  unfold drop_elems, drop_labels in *. rewrite rows_of_filter_rows in Hr. apply filter_In in Hr.
  destruct Hr as [Hr Hk2]. rewrite rows_of_filter_rows in Hr. apply filter_In in Hr. destruct Hr as [Hr Hk1].
  apply andb_true_iff in Hk2. destruct Hk2 as [Hnh _]. apply negb_true_iff in Hnh.
  assert (Hsel : on_cell f tn c = true) by (unfold on_cell; apply (Hc tn r c Hr Hcc Hkd)).
  pose proof (hit_false_cell _ _ _ _ _ Hnh Hcc Hsel) as Hnot.
  pose proof (H tn r c Hr Hcc Hkd) as Hin. rewrite labels_of_rows_of in *. apply in_map_iff in Hin.
  destruct Hin as [r0 [E Hr0]]. rewrite !rows_of_filter_rows. apply in_map_iff. exists r0. split; auto.
  apply filter_In. split.
  - apply filter_In. split; auto. rewrite E, Hnot. now rewrite andb_false_r.
  - unfold hit. rewrite (Hp "junction" r0 junction_special Hr0). reflexivity.
Qed.

Lemma select_RI_J f selp js n : plain n -> covers f n -> RI_J n -> RI_J (select (on_cell f) selp js n).
Proof.
  intros Hp Hc H. apply filter_RI_J; auto. intros tn r c r0 Hr Hk Hcc Hkd Hr0 E.
  change (memz (r_label r0) js = true). rewrite E.
  destruct (special tn) eqn:S.
  { rewrite (Hp tn r S Hr) in Hcc. contradiction. }
  unfold special in S. repeat (apply orb_false_iff in S; destruct S as [S ?]).
  rewrite S, H1, H0 in Hk. simpl in Hk. rewrite H2 in Hk.
  apply andb_true_iff in Hk. destruct Hk as [Hk _].
  unfold keep_row in Hk. apply andb_true_iff in Hk. destruct Hk as [_ Hall].
  rewrite forallb_forall in Hall. specialize (Hall c Hcc).
  assert (Hsel : on_cell f tn c = true) by (unfold on_cell; apply (Hc tn r c Hr Hcc Hkd)).
  rewrite Hsel in Hall. exact Hall.
Qed.

Lemma others_spec j1 js x : In x (others j1 js) <-> In x js /\ x <> j1.
Proof.
  unfold others. rewrite filter_In. split; intros [A B]; split; auto.
  - intros ->. rewrite Z.eqb_refl in B. discriminate.
  - apply negb_true_iff. now apply Z.eqb_neq.
Qed.

Lemma fuse_RI_J f j1 js n : covers f n -> RI_J n -> In j1 (labels_of "junction" n) ->
  RI_J (drop_labels (fam "junction") (others j1 js) (redirect (on_cell f) j1 (others j1 js) n)).
Proof.
  intros Hc H Hj1 tn r' c' Hr Hcc Hkd.
  unfold drop_labels, redirect in *. rewrite rows_of_filter_rows, rows_of_map_rows in Hr.
  apply filter_In in Hr. destruct Hr as [Hr _]. apply in_map_iff in Hr. destruct Hr as [r [<- Hr]].
  simpl in Hcc. apply in_map_iff in Hcc. destruct Hcc as [c [<- Hcc]].
  assert (Surv : forall v, In v (labels_of "junction" n) -> memz v (others j1 js) = false ->
     In v (labels_of "junction" (filter_rows (fun tn0 r0 => negb (fam "junction" tn0 && memz (r_label r0) (others j1 js)))
        (map_rows (fun tn0 r0 => mkRow (r_label r0)
           (map (fun c0 => if on_cell f tn0 c0 && memz (c_val c0) (others j1 js) then set_val c0 j1 else c0) (r_cells r0))) n)))).
  { intros v Hv Hm. rewrite labels_of_rows_of in *. apply in_map_iff in Hv. destruct Hv as [r0 [E Hr0]].
    rewrite rows_of_filter_rows, rows_of_map_rows. apply in_map_iff.
    exists (mkRow (r_label r0) (map (fun c0 => if on_cell f "junction" c0 && memz (c_val c0) (others j1 js) then set_val c0 j1 else c0) (r_cells r0))).
    split; auto. apply filter_In. split.
    - apply in_map_iff. exists r0. split; auto.
    - simpl. rewrite E, Hm. reflexivity. }
  destruct (on_cell f tn c && memz (c_val c) (others j1 js)) eqn:B.
  - simpl. apply Surv; auto. apply memz_false. intros Hin. apply others_spec in Hin. destruct Hin as [_ Hne]. now apply Hne.
  - assert (Hkc : c_kind c = KJ) by exact Hkd.
    assert (Hsel : on_cell f tn c = true) by (unfold on_cell; apply (Hc tn r c Hr Hcc Hkc)).
    rewrite Hsel in B. simpl in B. apply Surv; auto. eapply H; eauto.
Qed.

Lemma relabel_RI_J_same e rho sel n : fam e "junction" = true ->
  (forall tn r c, In r (rows_of tn n) -> In c (r_cells r) -> c_kind c = KJ -> sel tn c = true) ->
  RI_J n -> RI_J (relabel e rho sel n).
Proof.
  intros Hf Hs H tn r' c' Hr Hcc Hkd. rewrite labels_of_relabel, Hf.
  unfold relabel in Hr. rewrite rows_of_map_rows in Hr. apply in_map_iff in Hr. destruct Hr as [r [<- Hr]].
  simpl in Hcc. apply in_map_iff in Hcc. destruct Hcc as [c [<- Hcc]].
  destruct (sel tn c) eqn:S.
  - simpl in *. apply in_map. eapply H; eauto.
  - rewrite (Hs tn r c Hr Hcc Hkd) in S. discriminate.
Qed.

Lemma relabel_RI_J_other e rho sel n : fam e "junction" = false ->
  (forall tn r c, In r (rows_of tn n) -> In c (r_cells r) -> sel tn c = true -> c_kind c <> KJ) ->
  RI_J n -> RI_J (relabel e rho sel n).
Proof.
  intros Hf Hs H tn r' c' Hr Hcc Hkd. rewrite labels_of_relabel, Hf.
  unfold relabel in Hr. rewrite rows_of_map_rows in Hr. apply in_map_iff in Hr. destruct Hr as [r [<- Hr]].
  simpl in Hcc. apply in_map_iff in Hcc. destruct Hcc as [c [<- Hcc]].
  destruct (sel tn c) eqn:S.
  - simpl in Hkd. exfalso. eapply Hs; eauto.
  - eapply H; eauto.
Qed.

(* a semantics never treats a junction reference as a pipe reference *)
Definition selP_sane (s : sem) : Prop := forall tn col k, selP s tn col k = true -> k <> KJ.
Lemma model_sem_sane : selP_sane model_sem.
Proof. intros tn col k H. simpl in H. destruct k; simpl in H; try congruence. now rewrite andb_false_r in H. Qed.
Lemma spec_sem_sane : selP_sane spec_sem.
Proof. intros tn col k H. simpl in H. destruct k; simpl in H; congruence. Qed.

Definition elem_guard (e : string) : Prop := e = "junction" \/ fam e "junction" = false.

Lemma relabel_sel_for_RI_J s cs e rho n : selP_sane s -> elem_guard e -> covers (selJ s cs) n ->
  RI_J n -> RI_J (relabel e rho (sel_for s cs e) n).
Proof.
  intros Hs [-> | Hf] Hc H.
  - apply relabel_RI_J_same; [reflexivity | | exact H].
    intros tn r c Hr Hcc Hk. simpl. unfold on_cell. now apply (Hc tn r c).
  - apply relabel_RI_J_other; [exact Hf | | exact H]. intros tn r c Hr Hcc Hsel. unfold sel_for in Hsel.
    destruct (String.eqb e "junction") eqn:E.
    + apply String.eqb_eq in E. subst. discriminate.
    + destruct (String.eqb e "pipe"); [|discriminate]. unfold on_cell in Hsel. eapply Hs; eauto.
Qed.

Definition ri_guard (o : op) (n : net) : Prop :=
  match o with
  | Reindex _ e _ | ContElem _ e _ => elem_guard e
  | ContAll _ order _ => Forall elem_guard order
  | Fuse _ j1 _ | FuseKeep _ j1 _ => In j1 (labels_of "junction" n)
  | DropJ _ _ cascade => cascade = true
  | _ => True
  end.
Definition cover_hyp (s : sem) (o : op) (n : net) : Prop :=
  match o with DropElems _ _ | DropP _ => True | _ => covers (selJ s (cs_of o)) n end.

(* fuse_junctions(drop=False): references are redirected, the junctions stay *)
Lemma redirect_RI_J f j1 js n : RI_J n -> In j1 (labels_of "junction" n) -> RI_J (redirect (on_cell f) j1 js n).
Proof.
  intros H Hj1 tn r' c' Hr Hcc Hkd. unfold redirect in *.
  rewrite labels_of_rows_of, rows_of_map_rows, map_map. simpl. rewrite <- labels_of_rows_of.
  rewrite rows_of_map_rows in Hr. apply in_map_iff in Hr. destruct Hr as [r [<- Hr]].
  simpl in Hcc. apply in_map_iff in Hcc. destruct Hcc as [c [<- Hcc]].
  destruct (on_cell f tn c && memz (c_val c) js); simpl in *; auto. eapply H; eauto.
Qed.

Lemma rows_of_select_res_nonres sel selp js n tn : prefix "res_" tn = false ->
  rows_of tn (select_res sel selp js n) = rows_of tn (select sel selp js n).
Proof.
  intros P. unfold select_res, select. rewrite !rows_of_filter_rows. apply filter_ext_in. intros r _.
  rewrite P. unfold sel_pred. rewrite P. reflexivity.
Qed.

Lemma res_is_special tn : prefix "res_" tn = true -> special tn = true.
Proof. intros H. unfold special. rewrite H. now rewrite !orb_true_r. Qed.

Lemma select_res_RI_J f selp js n : plain n -> covers f n -> RI_J n -> RI_J (select_res (on_cell f) selp js n).
Proof.
  intros Hp Hc H tn r c Hr Hcc Hkd. destruct (prefix "res_" tn) eqn:P.
  - assert (Hp' : plain (select_res (on_cell f) selp js n)) by (unfold select_res; now apply plain_filter_rows).
    rewrite (Hp' tn r (res_is_special tn P) Hr) in Hcc. contradiction.
  - rewrite rows_of_select_res_nonres in Hr by exact P.
    rewrite labels_of_rows_of, rows_of_select_res_nonres by reflexivity. rewrite <- labels_of_rows_of.
    exact (select_RI_J f selp js n Hp Hc H tn r c Hr Hcc Hkd).
Qed.

Lemma cont_all_RI_J s cs order start n : selP_sane s -> Forall elem_guard order -> covers (selJ s cs) n ->
  RI_J n -> RI_J (cont_all s cs order start n).
Proof.
  intros Hs. revert n. induction order as [|e r IH]; intros n HF Hc H; simpl; auto.
  inversion HF; subst. apply IH; auto.
  - unfold covers, cont_elem. now apply allcells_relabel.
  - now apply relabel_sel_for_RI_J.
Qed.

Lemma step_RI_J s o n : selP_sane s -> plain n -> cover_hyp s o n -> ri_guard o n -> RI_J n -> RI_J (step s o n).
Proof.
  intros Hs Hp Hc Hg H. destruct o; simpl in *.
  - now apply relabel_sel_for_RI_J.
  - now apply relabel_sel_for_RI_J.
  - now apply cont_all_RI_J.
  - now apply fuse_RI_J.
  - now apply select_RI_J.
  - subst cascade. unfold drop_elems_full, drop_pipe_refs. apply drop_elems_RI_J.
    + unfold drop_elems, drop_labels. now repeat apply plain_filter_rows.
    + now apply drop_junctions_RI_J.
  - unfold drop_elems_full, drop_pipe_refs. apply drop_elems_RI_J.
    + unfold drop_elems. now apply plain_filter_rows.
    + now apply drop_elems_RI_J.
  - apply drop_pipes_RI_J. unfold drop_pipe_refs. now apply drop_elems_RI_J.
  - now apply redirect_RI_J.
  - now apply select_res_RI_J.
Qed.

Fixpoint guards (s : sem) (ops : list op) (n : net) : Prop :=
  match ops with [] => True | o :: r => ri_guard o n /\ guards s r (step s o n) end.

Lemma cover_hyp_step s o o' n : cover_hyp s o n -> cover_hyp s o (step s o' n).
Proof. destruct o; simpl; auto; intros H; unfold covers in *; now apply allcells_step. Qed.

Lemma exec_RI_J s ops n : selP_sane s -> plain n -> (forall o, In o ops -> cover_hyp s o n) -> guards s ops n ->
  RI_J n -> RI_J (exec s ops n).
Proof.
  intros Hs. revert n. induction ops as [|o r IH]; intros n Hp Hc Hg H; simpl; auto.
  destruct Hg as [G1 G2]. apply IH; auto.
  - now apply plain_step.
  - intros o' Ho'. apply cover_hyp_step. apply Hc. now right.
  - apply step_RI_J; auto. apply Hc. now left.
Qed.

(* nets without pipe references: nothing can dangle on the pipe side *)
Definition no_pipe_refs (n : net) : Prop := allcells (fun _ _ k => k <> KP) n.
Lemma no_pipe_refs_RI_P n : no_pipe_refs n -> RI_P n.
Proof. intros H tn r c Hr Hc Hk. exfalso. exact (H tn r c Hr Hc Hk). Qed.

Lemma exec_RI_partial s ops n : selP_sane s -> plain n -> (forall o, In o ops -> cover_hyp s o n) ->
  guards s ops n -> no_pipe_refs n -> RI n -> RI (exec s ops n).
Proof.
  intros Hs Hp Hc Hg Hn [HJ _]. split.
  - now apply exec_RI_J.
  - apply no_pipe_refs_RI_P. unfold no_pipe_refs. now apply allcells_exec.
Qed.

(* ------------------------------------------------------------------ frame *)
(* the dropping / selecting operations only remove rows: every row left is an unchanged row of the net *)
Definition removes_only (o : op) : bool :=
  match o with Select _ _ | SelectRes _ _ | DropJ _ _ _ | DropElems _ _ | DropP _ => true | _ => false end.

Lemma frame_rows_unchanged s o n tn r : removes_only o = true -> In r (rows_of tn (step s o n)) -> In r (rows_of tn n).
Proof.
  intros Hr H. destruct o; try discriminate; simpl in H;
    try destruct cascade;
    unfold select, select_res, drop_elems_full, drop_pipe_refs, drop_elems, drop_labels in H;
    repeat (rewrite rows_of_filter_rows in H; apply filter_In in H; destruct H as [H _]); exact H.
Qed.

(* an element row that references none of the dropped junctions (through a column the operation knows)
   is still there after drop_junctions / drop_elements_at_junctions *)
Lemma hit_true_cell sel js tn r : hit sel js tn r = true ->
  exists c, In c (r_cells r) /\ sel tn c = true /\ In (c_val c) js.
Proof.
  intros H. unfold hit in H. apply existsb_exists in H. destruct H as [c [Hc B]].
  apply andb_true_iff in B. destruct B as [B1 B2]. exists c. repeat split; auto. now apply memz_In.
Qed.

Lemma drop_junctions_keeps_untouched s cs js n tn r :
  parent tn = None -> fam "junction" tn = false ->
  In r (rows_of tn n) ->
  (forall c, In c (r_cells r) -> selJ s cs tn (c_col c) (c_kind c) = true -> ~ In (c_val c) js) ->
  (forall c, In c (r_cells r) -> selP s tn (c_col c) (c_kind c) = false) ->
  In r (rows_of tn (step s (DropJ cs js true) n)).
Proof.
  intros Hpar Hfam Hr Hun HnoP. simpl. unfold drop_elems_full, drop_pipe_refs, drop_elems, drop_labels.
  rewrite !rows_of_filter_rows. apply filter_In. split.
  - apply filter_In. split.
    + apply filter_In. split; auto. now rewrite Hfam.
    + rewrite Hpar. rewrite andb_true_r. apply negb_true_iff.
      destruct (hit (on_cell (selJ s cs)) js tn r) eqn:Hh; auto.
      apply hit_true_cell in Hh. destruct Hh as [c [Hc [Hs Hin]]]. exfalso. exact (Hun c Hc Hs Hin).
  - rewrite Hpar. rewrite andb_true_r. apply negb_true_iff.
    match goal with |- hit ?f ?l tn r = false => destruct (hit f l tn r) eqn:Hh; auto end.
    apply hit_true_cell in Hh. destruct Hh as [c [Hc [Hs _]]]. unfold on_cell in Hs. rewrite (HnoP c Hc) in Hs. discriminate.
Qed.

(* ------------------------------------------------------------------ fuse: what changes, cell by cell *)
Lemma fuse_cells s cs j1 js n tn r' :
  In r' (rows_of tn (step s (Fuse cs j1 js) n)) ->
  exists r, In r (rows_of tn n) /\ r_label r' = r_label r /\
    r_cells r' = map (fun c => if selJ s cs tn (c_col c) (c_kind c) && memz (c_val c) (others j1 js)
                               then set_val c j1 else c) (r_cells r).
Proof.
  simpl. unfold drop_labels, redirect. rewrite rows_of_filter_rows, rows_of_map_rows.
  intros H. apply filter_In in H. destruct H as [H _]. apply in_map_iff in H. destruct H as [r [<- Hr]].
  exists r. repeat split; auto.
Qed.

Lemma fuse_junction_rows s cs j1 js n l :
  In l (labels_of "junction" (step s (Fuse cs j1 js) n)) <->
  In l (labels_of "junction" n) /\ ~ In l (others j1 js).
Proof.
  simpl. unfold drop_labels, redirect. rewrite !labels_of_rows_of, rows_of_filter_rows, rows_of_map_rows.
  rewrite !in_map_iff. split.
  - intros [r' [E H]]. apply filter_In in H. destruct H as [H K]. apply in_map_iff in H.
    destruct H as [r [<- Hr]]. simpl in *. subst l. split; [eauto|].
    apply negb_true_iff in K. apply memz_false. exact K.
  - intros [[r [E Hr]] Hn]. subst l.
    exists (mkRow (r_label r) (map (fun c => if on_cell (selJ s cs) "junction" c && memz (c_val c) (others j1 js)
                                             then set_val c j1 else c) (r_cells r))).
    split; auto. apply filter_In. split.
    + apply in_map_iff. exists r. auto.
    + simpl. apply negb_true_iff. apply memz_false. exact Hn.
Qed.

(* ------------------------------------------------------------------ boolean checkers are sound (for witnesses) *)
Lemma cells_ok_false p n : cells_ok p n = false ->
  exists tn r c, In r (rows_of tn n) /\ In c (r_cells r) /\ p tn c = false.
Proof.
  unfold cells_ok. intros H.
  destruct (forallb (fun t => forallb (fun r => forallb (p (t_name t)) (r_cells r)) (t_rows t)) n) eqn:E; [discriminate|].
  clear H. induction n as [|t n IH]; simpl in E; [discriminate|].
  apply andb_false_iff in E. destruct E as [E | E].
  - assert (exists r, In r (t_rows t) /\ forallb (p (t_name t)) (r_cells r) = false) as [r [Hr Er]].
    { induction (t_rows t) as [|r rs IHr]; simpl in E; [discriminate|].
      apply andb_false_iff in E. destruct E as [E | E]; [exists r; simpl; auto|].
      destruct (IHr E) as [r0 [H0 H1]]. exists r0. simpl; auto. }
    assert (exists c, In c (r_cells r) /\ p (t_name t) c = false) as [c [Hc Ec]].
    { induction (r_cells r) as [|c cs IHc]; simpl in Er; [discriminate|].
      apply andb_false_iff in Er. destruct Er as [Er | Er]; [exists c; simpl; auto|].
      destruct (IHc Er) as [c0 [H0 H1]]. exists c0. simpl; auto. }
    exists (t_name t), r, c. repeat split; auto. apply In_rows_of. exists t. simpl. auto.
  - destruct (IH E) as [tn [r [c [Hr [Hc Ep]]]]]. exists tn, r, c. repeat split; auto.
    apply In_rows_of in Hr. destruct Hr as [t0 [H0 [H1 H2]]]. apply In_rows_of. exists t0. simpl. auto.
Qed.

Lemma ri_pb_false n : ri_pb n = false -> ~ RI_P n.
Proof.
  intros H HR. apply cells_ok_false in H. destruct H as [tn [r [c [Hr [Hc Ep]]]]].
  apply orb_false_iff in Ep. destruct Ep as [E1 E2]. apply negb_false_iff in E1.
  unfold is_kp in E1. destruct (c_kind c) eqn:K; try discriminate.
  apply memz_false in E2. apply E2. eapply HR; eauto.
Qed.

Lemma ri_jb_false n : ri_jb n = false -> ~ RI_J n.
Proof.
  intros H HR. apply cells_ok_false in H. destruct H as [tn [r [c [Hr [Hc Ep]]]]].
  apply orb_false_iff in Ep. destruct Ep as [E1 E2]. apply negb_false_iff in E1.
  unfold is_kj in E1. destruct (c_kind c) eqn:K; try discriminate.
  apply memz_false in E2. apply E2. eapply HR; eauto.
Qed.

Lemma cells_ok_true p n : cells_ok p n = true ->
  forall tn r c, In r (rows_of tn n) -> In c (r_cells r) -> p tn c = true.
Proof.
  unfold cells_ok. intros H tn r c Hr Hc. apply In_rows_of in Hr. destruct Hr as [t [Ht [<- Hr]]].
  rewrite forallb_forall in H. specialize (H t Ht). rewrite forallb_forall in H. specialize (H r Hr).
  rewrite forallb_forall in H. now apply H.
Qed.

Lemma ri_b_RI n : ri_jb n = true -> ri_pb n = true -> RI n.
Proof.
  intros HJ HP. split; intros tn r c Hr Hc Hk.
  - pose proof (cells_ok_true _ _ HJ tn r c Hr Hc) as E. unfold is_kj in E. rewrite Hk in E. simpl in E. now apply memz_In.
  - pose proof (cells_ok_true _ _ HP tn r c Hr Hc) as E. unfold is_kp in E. rewrite Hk in E. simpl in E. now apply memz_In.
Qed.

Lemma exact_b_exact cs n : exact_b cs n = true -> exact cs n.
Proof.
  intros H tn r c Hr Hc. pose proof (cells_ok_true _ _ H tn r c Hr Hc) as E. apply eqb_prop in E.
  unfold on_cell in E. rewrite E. unfold is_kj. now destruct (c_kind c).
Qed.

(* ------------------------------------------------------------------ no dangling pipe reference after the
   dropping operations (since drop_pipes cascades to the attached valves) *)
Definition coversP (f : selector) (n : net) : Prop := allcells (fun tn col k => k = KP -> f tn col k = true) n.
Definition pipe_unhit (f : selector) (n : net) : Prop := allcells (fun tn col k => tn = "pipe" -> f tn col k = false) n.

Lemma hit_labels_rows_of sel js n e : hit_labels sel js n e = map r_label (filter (hit sel js e) (rows_of e n)).
Proof.
  induction n as [|t n IH]; simpl; auto. rewrite filter_app, map_app, <- IH. f_equal.
  destruct (String.eqb (t_name t) e) eqn:E; simpl; auto. apply String.eqb_eq in E. now subst.
Qed.

Lemma hit_in_labels sel js n e r0 : In r0 (rows_of e n) -> hit sel js e r0 = true -> In (r_label r0) (hit_labels sel js n e).
Proof. intros H1 H2. rewrite hit_labels_rows_of. apply in_map. apply filter_In. auto. Qed.

Lemma unhit_row f ps n r0 : pipe_unhit f n -> In r0 (rows_of "pipe" n) -> hit (on_cell f) ps "pipe" r0 = false.
Proof.
  intros H Hr. unfold hit. destruct (existsb _ (r_cells r0)) eqn:E; auto.
  apply existsb_exists in E. destruct E as [c [Hc B]]. apply andb_true_iff in B. destruct B as [B _].
  unfold on_cell in B. rewrite (H "pipe" r0 c Hr Hc eq_refl) in B. discriminate.
Qed.

Lemma filter_RI_P k n : RI_P n ->
  (forall tn r c r0, In r (rows_of tn n) -> k tn r = true -> In c (r_cells r) -> c_kind c = KP ->
      In r0 (rows_of "pipe" n) -> r_label r0 = c_val c -> k "pipe" r0 = true) ->
  RI_P (filter_rows k n).
Proof.
  intros H Hk tn r c Hr Hc Hkd. rewrite rows_of_filter_rows in Hr. apply filter_In in Hr. destruct Hr as [Hr Hkr].
  pose proof (H tn r c Hr Hc Hkd) as Hin. rewrite labels_of_rows_of in *. apply in_map_iff in Hin.
  destruct Hin as [r0 [E Hr0]]. rewrite rows_of_filter_rows. apply in_map_iff. exists r0. split; [exact E|].
  apply filter_In. split; [exact Hr0|]. exact (Hk tn r c r0 Hr Hkr Hc Hkd Hr0 E).
Qed.

(* dropping the rows that reference the pipes ps, then the pipes ps themselves *)
Lemma drop_refs_then_pipes_RI_P f ps n : coversP f n -> pipe_unhit f n -> RI_P n ->
  RI_P (drop_labels (fam "pipe") ps (drop_pipe_refs (on_cell f) ps n)).
Proof.
  intros Hc Hu H tn r c Hr Hcc Hkd. unfold drop_labels, drop_pipe_refs, drop_elems in *.
  rewrite !rows_of_filter_rows in Hr. apply filter_In in Hr. destruct Hr as [Hr _].
  apply filter_In in Hr. destruct Hr as [Hr Hk]. apply andb_true_iff in Hk. destruct Hk as [Hnh _].
  apply negb_true_iff in Hnh.
  assert (Hsel : on_cell f tn c = true) by (unfold on_cell; apply (Hc tn r c Hr Hcc Hkd)).
  pose proof (hit_false_cell _ _ _ _ _ Hnh Hcc Hsel) as Hnot.
  pose proof (H tn r c Hr Hcc Hkd) as Hin. rewrite labels_of_rows_of in *. apply in_map_iff in Hin.
  destruct Hin as [r0 [E Hr0]]. rewrite !rows_of_filter_rows. apply in_map_iff. exists r0. split; auto.
  apply filter_In. split.
  - apply filter_In. split; auto. rewrite (unhit_row f ps n r0 Hu Hr0). reflexivity.
  - rewrite E, Hnot. now rewrite andb_false_r.
Qed.

(* drop_elements_at_junctions: rows at the junctions (pipes among them), then the rows that reference those pipes *)
Lemma drop_elems_full_RI_P sel f js n : coversP f n -> pipe_unhit f n -> RI_P n ->
  RI_P (drop_elems_full sel (on_cell f) js n).
Proof.
  intros Hc Hu H tn r c Hr Hcc Hkd. unfold drop_elems_full, drop_pipe_refs in *.
  set (dp := hit_labels sel js n "pipe") in *. unfold drop_elems in Hr at 1.
  rewrite rows_of_filter_rows in Hr. apply filter_In in Hr. destruct Hr as [Hr Hk2].
  apply andb_true_iff in Hk2. destruct Hk2 as [Hnh2 _]. apply negb_true_iff in Hnh2.
  unfold drop_elems in Hr. rewrite rows_of_filter_rows in Hr. apply filter_In in Hr. destruct Hr as [Hr Hk1].
  assert (Hsel : on_cell f tn c = true) by (unfold on_cell; apply (Hc tn r c Hr Hcc Hkd)).
  pose proof (hit_false_cell _ _ _ _ _ Hnh2 Hcc Hsel) as Hnot.
  pose proof (H tn r c Hr Hcc Hkd) as Hin. rewrite labels_of_rows_of in *. apply in_map_iff in Hin.
  destruct Hin as [r0 [E Hr0]].
  unfold drop_elems. rewrite !rows_of_filter_rows. apply in_map_iff. exists r0. split; auto.
  apply filter_In. split.
  - apply filter_In. split; auto.
    destruct (hit sel js "pipe" r0) eqn:Hh; [|reflexivity].
    exfalso. apply memz_false in Hnot. apply Hnot. rewrite <- E. unfold dp. now apply hit_in_labels.
  - rewrite (unhit_row f dp n r0 Hu Hr0). reflexivity.
Qed.

Lemma drop_junction_rows_RI_P js n : RI_P n -> RI_P (drop_labels (fam "junction") js n).
Proof. intros H. apply filter_RI_P; auto. Qed.

Definition drop_op (o : op) : bool :=
  match o with DropJ _ _ true | DropElems _ _ | DropP _ => true | _ => false end.

Lemma step_drop_RI_P s o n : drop_op o = true -> coversP (selP s) n -> pipe_unhit (selP s) n -> RI_P n -> RI_P (step s o n).
Proof.
  intros Hd Hc Hu H. destruct o; try discriminate; simpl.
  - destruct cascade; [|discriminate]. apply drop_elems_full_RI_P.
    + unfold coversP, drop_labels. now apply allcells_filter_rows.
    + unfold pipe_unhit, drop_labels. now apply allcells_filter_rows.
    + now apply drop_junction_rows_RI_P.
  - now apply drop_elems_full_RI_P.
  - now apply drop_refs_then_pipes_RI_P.
Qed.

Lemma pexact_model_coversP n : pexact n -> coversP (selP model_sem) n /\ pipe_unhit (selP model_sem) n.
Proof.
  intros H. split; intros tn r c Hr Hc; simpl.
  - intros K. specialize (H tn r c Hr Hc). simpl in H. rewrite K in H. destruct (H eq_refl) as [-> ->]. now rewrite K.
  - intros ->. reflexivity.
Qed.

Fixpoint all_drops (ops : list op) : bool :=
  match ops with [] => true | o :: r => drop_op o && all_drops r end.

Lemma exec_drops_RI ops n : all_drops ops = true -> plain n -> pexact n ->
  (forall o, In o ops -> cover_hyp model_sem o n) -> RI n -> RI (exec model_sem ops n).
Proof.
  revert n. induction ops as [|o r IH]; intros n Ha Hp Hx Hc [HJ HP]; simpl; [split; auto|].
  simpl in Ha. apply andb_true_iff in Ha. destruct Ha as [Hd Ha].
  apply IH; auto.
  - now apply plain_step.
  - unfold pexact. now apply allcells_step.
  - intros o' Ho'. apply cover_hyp_step. apply Hc. now right.
  - split.
    + apply step_RI_J; auto.
      * exact model_sem_sane.
      * apply Hc. now left.
      * destruct o; try discriminate; simpl; auto. now destruct cascade.
    + destruct (pexact_model_coversP n Hx) as [C U]. now apply step_drop_RI_P.
Qed.

(* ------------------------------------------------------------------ pipe references under EVERY operation
   (since 4bbab2a the code no longer treats pipe references as junction references) *)
(* the junction selector never selects a pipe reference *)
Definition selJ_noP (f : selector) (n : net) : Prop := allcells (fun tn col k => f tn col k = true -> k <> KP) n.

Lemma relabel_RI_P_same e rho sel n : fam e "pipe" = true ->
  (forall tn r c, In r (rows_of tn n) -> In c (r_cells r) -> c_kind c = KP -> sel tn c = true) ->
  RI_P n -> RI_P (relabel e rho sel n).
Proof.
  intros Hf Hs H tn r' c' Hr Hcc Hkd. rewrite labels_of_relabel, Hf.
  unfold relabel in Hr. rewrite rows_of_map_rows in Hr. apply in_map_iff in Hr. destruct Hr as [r [<- Hr]].
  simpl in Hcc. apply in_map_iff in Hcc. destruct Hcc as [c [<- Hcc]].
  destruct (sel tn c) eqn:S.
  - simpl in *. apply in_map. eapply H; eauto.
  - rewrite (Hs tn r c Hr Hcc Hkd) in S. discriminate.
Qed.

Lemma relabel_RI_P_other e rho sel n : fam e "pipe" = false ->
  (forall tn r c, In r (rows_of tn n) -> In c (r_cells r) -> sel tn c = true -> c_kind c <> KP) ->
  RI_P n -> RI_P (relabel e rho sel n).
Proof.
  intros Hf Hs H tn r' c' Hr Hcc Hkd. rewrite labels_of_relabel, Hf.
  unfold relabel in Hr. rewrite rows_of_map_rows in Hr. apply in_map_iff in Hr. destruct Hr as [r [<- Hr]].
  simpl in Hcc. apply in_map_iff in Hcc. destruct Hcc as [c [<- Hcc]].
  destruct (sel tn c) eqn:S.
  - simpl in Hkd. exfalso. eapply Hs; eauto.
  - eapply H; eauto.
Qed.

Definition elem_guard_p (e : string) : Prop := e = "junction" \/ e = "pipe" \/ (fam e "pipe" = false /\ e <> "junction" /\ e <> "pipe").

Lemma relabel_sel_for_RI_P s cs e rho n : elem_guard_p e -> selJ_noP (selJ s cs) n -> coversP (selP s) n ->
  RI_P n -> RI_P (relabel e rho (sel_for s cs e) n).
Proof.
  intros [-> | [-> | [Hf [N1 N2]]]] HJ HP H.
  - apply relabel_RI_P_other; [reflexivity | | exact H]. intros tn r c Hr Hcc Hsel. simpl in Hsel.
    unfold on_cell in Hsel. exact (HJ tn r c Hr Hcc Hsel).
  - apply relabel_RI_P_same; [reflexivity | | exact H]. intros tn r c Hr Hcc Hk. simpl. unfold on_cell.
    exact (HP tn r c Hr Hcc Hk).
  - apply relabel_RI_P_other; [exact Hf | | exact H]. intros tn r c Hr Hcc Hsel. unfold sel_for in Hsel.
    destruct (String.eqb e "junction") eqn:E1; [apply String.eqb_eq in E1; contradiction|].
    destruct (String.eqb e "pipe") eqn:E2; [apply String.eqb_eq in E2; contradiction|]. discriminate.
Qed.

Lemma cont_all_RI_P s cs order start n : Forall elem_guard_p order -> selJ_noP (selJ s cs) n -> coversP (selP s) n ->
  RI_P n -> RI_P (cont_all s cs order start n).
Proof.
  revert n. induction order as [|e r IH]; intros n HF HJ HP H; simpl; auto.
  inversion HF; subst. apply IH; auto.
  - unfold selJ_noP, cont_elem. now apply allcells_relabel.
  - unfold coversP, cont_elem. now apply allcells_relabel.
  - now apply relabel_sel_for_RI_P.
Qed.

Lemma fuse_RI_P f j1 js n : selJ_noP f n -> RI_P n ->
  RI_P (drop_labels (fam "junction") js (redirect (on_cell f) j1 js n)).
Proof.
  intros HJ H. apply filter_RI_P.
  - intros tn r' c' Hr Hcc Hkd. unfold redirect in *. rewrite labels_of_rows_of, rows_of_map_rows, map_map. simpl.
    rewrite rows_of_map_rows in Hr. apply in_map_iff in Hr. destruct Hr as [r [<- Hr]].
    simpl in Hcc. apply in_map_iff in Hcc. destruct Hcc as [c [<- Hcc]].
    rewrite <- labels_of_rows_of.
    destruct (on_cell f tn c && memz (c_val c) js) eqn:B.
    + simpl in Hkd. apply andb_true_iff in B. destruct B as [B _]. unfold on_cell in B.
      exfalso. exact (HJ tn r c Hr Hcc B Hkd).
    + eapply H; eauto.
  - intros. reflexivity.
Qed.

Lemma redirect_RI_P f j1 js n : selJ_noP f n -> RI_P n -> RI_P (redirect (on_cell f) j1 js n).
Proof.
  intros HJ H tn r' c' Hr Hcc Hkd. unfold redirect in *. rewrite labels_of_rows_of, rows_of_map_rows, map_map. simpl.
  rewrite rows_of_map_rows in Hr. apply in_map_iff in Hr. destruct Hr as [r [<- Hr]].
  simpl in Hcc. apply in_map_iff in Hcc. destruct Hcc as [c [<- Hcc]].
  rewrite <- labels_of_rows_of.
  destruct (on_cell f tn c && memz (c_val c) js) eqn:B.
  - simpl in Hkd. apply andb_true_iff in B. destruct B as [B _]. unfold on_cell in B.
    exfalso. exact (HJ tn r c Hr Hcc B Hkd).
  - eapply H; eauto.
Qed.

Lemma kept_labels_rows_of sel js n e : kept_labels sel js n e = map r_label (filter (keep_row sel js e) (rows_of e n)).
Proof.
  induction n as [|t n IH]; simpl; auto. rewrite filter_app, map_app, <- IH. f_equal.
  destruct (String.eqb (t_name t) e) eqn:E; simpl; auto. apply String.eqb_eq in E. now subst.
Qed.

Lemma select_RI_P sel f js n : plain n -> coversP f n -> pipe_unhit f n -> RI_P n ->
  RI_P (select sel (on_cell f) js n).
Proof.
  intros Hp Hc Hu H tn r c Hr Hcc Hkd. unfold select in *.
  rewrite rows_of_filter_rows in Hr. apply filter_In in Hr. destruct Hr as [Hr Hk].
  destruct (special tn) eqn:S.
  { rewrite (Hp tn r S Hr) in Hcc. contradiction. }
  unfold special in S. repeat (apply orb_false_iff in S; destruct S as [S ?]).
  rewrite S, H1, H0 in Hk. simpl in Hk. rewrite H2 in Hk.
  apply andb_true_iff in Hk. destruct Hk as [_ Hall]. rewrite forallb_forall in Hall. specialize (Hall c Hcc).
  assert (Hsel : on_cell f tn c = true) by (unfold on_cell; apply (Hc tn r c Hr Hcc Hkd)).
  rewrite Hsel in Hall. simpl in Hall. apply memz_In in Hall.
  rewrite kept_labels_rows_of in Hall. apply in_map_iff in Hall. destruct Hall as [r0 [E Hr0]].
  apply filter_In in Hr0. destruct Hr0 as [Hr0 Hk0].
  rewrite labels_of_rows_of, rows_of_filter_rows. apply in_map_iff. exists r0. split; auto.
  apply filter_In. split; auto. change (keep_row sel js "pipe" r0 &&
    forallb (fun c0 => negb (on_cell f "pipe" c0) || memz (c_val c0) (kept_labels sel js n "pipe")) (r_cells r0) = true).
  rewrite Hk0. simpl. apply forallb_forall. intros c0 Hc0. unfold on_cell.
  rewrite (Hu "pipe" r0 c0 Hr0 Hc0 eq_refl). reflexivity.
Qed.

Lemma select_res_RI_P sel f js n : plain n -> coversP f n -> pipe_unhit f n -> RI_P n ->
  RI_P (select_res sel (on_cell f) js n).
Proof.
  intros Hp Hc Hu H tn r c Hr Hcc Hkd. destruct (prefix "res_" tn) eqn:P.
  - assert (Hp' : plain (select_res sel (on_cell f) js n)) by (unfold select_res; now apply plain_filter_rows).
    rewrite (Hp' tn r (res_is_special tn P) Hr) in Hcc. contradiction.
  - rewrite rows_of_select_res_nonres in Hr by exact P.
    rewrite labels_of_rows_of, rows_of_select_res_nonres by reflexivity. rewrite <- labels_of_rows_of.
    exact (select_RI_P sel f js n Hp Hc Hu H tn r c Hr Hcc Hkd).
Qed.

Definition ri_guard_p (o : op) : Prop :=
  match o with
  | Reindex _ e _ | ContElem _ e _ => elem_guard_p e
  | ContAll _ order _ => Forall elem_guard_p order
  | DropJ _ _ cascade => cascade = true
  | _ => True
  end.

Lemma step_RI_P s o n : plain n -> selJ_noP (selJ s (cs_of o)) n -> coversP (selP s) n -> pipe_unhit (selP s) n ->
  ri_guard_p o -> RI_P n -> RI_P (step s o n).
Proof.
  intros Hp HJ HP Hu Hg H. destruct o; simpl in *.
  - now apply relabel_sel_for_RI_P.
  - now apply relabel_sel_for_RI_P.
  - now apply cont_all_RI_P.
  - now apply fuse_RI_P.
  - now apply select_RI_P.
  - subst cascade. now apply (step_drop_RI_P s (DropJ cs js true)).
  - now apply (step_drop_RI_P s (DropElems cs js)).
  - now apply (step_drop_RI_P s (DropP ps)).
  - now apply redirect_RI_P.
  - now apply select_res_RI_P.
Qed.

(* for today's code both selector hypotheses follow from "pipe references live in valve.element" *)
Lemma pexact_model_noP cs n : pexact n -> selJ_noP (selJ model_sem cs) n.
Proof.
  intros H tn r c Hr Hc. simpl. intros Hs K. specialize (H tn r c Hr Hc). simpl in H. rewrite K in H.
  destruct (H eq_refl) as [E1 E2]. rewrite E1, E2, K in Hs. simpl in Hs. now rewrite andb_false_r in Hs.
Qed.

Fixpoint guards_p (ops : list op) : Prop := match ops with [] => True | o :: r => ri_guard_p o /\ guards_p r end.

Lemma exec_RI_full ops n : plain n -> pexact n -> (forall o, In o ops -> cover_hyp model_sem o n) ->
  guards model_sem ops n -> guards_p ops -> RI n -> RI (exec model_sem ops n).
Proof.
  revert n. induction ops as [|o r IH]; intros n Hp Hx Hc Hg Hgp [HJ HP]; simpl; [split; auto|].
  destruct Hg as [G1 G2]. destruct Hgp as [P1 P2]. apply IH; auto.
  - now apply plain_step.
  - unfold pexact. now apply allcells_step.
  - intros o' Ho'. apply cover_hyp_step. apply Hc. now right.
  - split.
    + apply step_RI_J; auto; [exact model_sem_sane | apply Hc; now left].
    + destruct (pexact_model_coversP n Hx) as [C U]. apply step_RI_P; auto. now apply pexact_model_noP.
Qed.

(* ------------------------------------------------------------------ select_subnet = restriction to the region *)
Lemma subnet_rows cs js n tn r : special tn = false -> (forall c, In c (r_cells r) -> c_kind c <> KP) ->
  (In r (rows_of tn (step spec_sem (Select cs js) n)) <->
   In r (rows_of tn n) /\ (exists c, In c (r_cells r) /\ c_kind c = KJ) /\
   (forall c, In c (r_cells r) -> c_kind c = KJ -> In (c_val c) js)).
Proof.
  intros S HnoP.
  change (step spec_sem (Select cs js) n) with (select (on_cell (selJ spec_sem cs)) (on_cell (selP spec_sem)) js n).
  unfold select. rewrite rows_of_filter_rows, filter_In.
  unfold special in S. repeat (apply orb_false_iff in S; destruct S as [S ?]).
  assert (P : forall (a b c d : bool), (if String.eqb tn "junction" || String.eqb tn "junction_geodata" then a
             else if String.eqb tn "pipe_geodata" then b else if prefix "res_" tn then c else d) = d).
  { intros. rewrite S, H0, H, H1. reflexivity. }
  rewrite P.
  assert (F : forallb (fun c => negb (on_cell (selP spec_sem) tn c) ||
                 memz (c_val c) (kept_labels (on_cell (selJ spec_sem cs)) js n "pipe")) (r_cells r) = true).
  { apply forallb_forall. intros c Hc. unfold on_cell. simpl.
    destruct (c_kind c) eqn:K; simpl; auto. exfalso. exact (HnoP c Hc K). }
  rewrite F, andb_true_r. unfold keep_row. rewrite andb_true_iff, existsb_exists, forallb_forall.
  unfold on_cell. simpl. split.
  - intros [Hr [[c [Hc Kc]] Hall]]. split; auto. split.
    + exists c. split; auto. now apply kj_iff.
    + intros c0 Hc0 K0. specialize (Hall c0 Hc0). rewrite K0 in Hall. simpl in Hall. now apply memz_In.
  - intros [Hr [[c [Hc Kc]] Hall]]. split; auto. split.
    + exists c. split; auto. now apply kj_iff.
    + intros c0 Hc0. destruct (kind_is_kj (c_kind c0)) eqn:K0; simpl; auto.
      apply memz_In. apply Hall; auto. now apply kj_iff.
Qed.

Lemma subnet_junctions cs js n l s :
  In l (labels_of "junction" (step s (Select cs js) n)) <-> In l (labels_of "junction" n) /\ In l js.
Proof.
  simpl. unfold select. rewrite !labels_of_rows_of, rows_of_filter_rows, !in_map_iff. split.
  - intros [r [E Hr]]. apply filter_In in Hr. destruct Hr as [Hr K]. simpl in K. subst l. split; eauto. now apply memz_In.
  - intros [[r [E Hr]] Hj]. subst l. exists r. split; auto. apply filter_In. split; auto. simpl. now apply memz_In.
Qed.

(* ------------------------------------------------------------------ frame in terms of the payload:
   whatever an operation does, every row it leaves is a row of the net before with the same cells of kind KN
   (the harness ships all non-reference columns of a row - element, geodata and result rows - as one KN cell) *)
Definition is_kn (c : cell) : bool := match c_kind c with KN => true | _ => false end.
Definition kn_cells (r : row) : list cell := filter is_kn (r_cells r).
Definition noKN (f : selector) (n : net) : Prop := allcells (fun tn col k => f tn col k = true -> k <> KN) n.

Lemma filter_kn_map (p : cell -> bool) (g : cell -> Z) (l : list cell) :
  (forall c, In c l -> p c = true -> c_kind c <> KN) ->
  filter is_kn (map (fun c => if p c then set_val c (g c) else c) l) = filter is_kn l.
Proof.
  induction l as [|c l IH]; intros H; simpl; auto.
  rewrite IH by (intros c0 Hc0; apply H; now right).
  destruct (p c) eqn:P; auto.
  assert (K : c_kind c <> KN) by (apply H; [now left | exact P]).
  unfold is_kn. simpl. destruct (c_kind c); auto. contradiction.
Qed.

Definition keeps_kn (n n' : net) : Prop :=
  forall tn r', In r' (rows_of tn n') -> exists r, In r (rows_of tn n) /\ kn_cells r' = kn_cells r.

Lemma keeps_kn_trans a b c : keeps_kn a b -> keeps_kn b c -> keeps_kn a c.
Proof.
  intros H1 H2 tn r'' Hr. destruct (H2 tn r'' Hr) as [r' [Hr' E']]. destruct (H1 tn r' Hr') as [r [Hr0 E]].
  exists r. split; auto. congruence.
Qed.

Lemma keeps_kn_filter k n : keeps_kn n (filter_rows k n).
Proof. intros tn r Hr. rewrite rows_of_filter_rows in Hr. apply filter_In in Hr. exists r. tauto. Qed.

Lemma keeps_kn_relabel e rho f n : noKN f n -> keeps_kn n (relabel e rho (on_cell f) n).
Proof.
  intros H tn r' Hr. unfold relabel in Hr. rewrite rows_of_map_rows in Hr. apply in_map_iff in Hr.
  destruct Hr as [r [<- Hr]]. exists r. split; auto. unfold kn_cells. simpl.
  apply (filter_kn_map (on_cell f tn) (fun c => rho (c_val c))). intros c Hc P. exact (H tn r c Hr Hc P).
Qed.

Lemma keeps_kn_relabel_none e rho n : keeps_kn n (relabel e rho (fun _ _ => false) n).
Proof.
  intros tn r' Hr. unfold relabel in Hr. rewrite rows_of_map_rows in Hr. apply in_map_iff in Hr.
  destruct Hr as [r [<- Hr]]. exists r. split; auto. unfold kn_cells. simpl.
  apply (filter_kn_map (fun _ => false) (fun c => rho (c_val c))). intros; discriminate.
Qed.

Lemma keeps_kn_sel_for s cs e rho n : noKN (selJ s cs) n -> noKN (selP s) n ->
  keeps_kn n (relabel e rho (sel_for s cs e) n).
Proof.
  intros HJ HP. unfold sel_for. destruct (String.eqb e "junction"); [now apply keeps_kn_relabel|].
  destruct (String.eqb e "pipe"); [now apply keeps_kn_relabel | apply keeps_kn_relabel_none].
Qed.

Lemma keeps_kn_redirect f j1 js n : noKN f n -> keeps_kn n (redirect (on_cell f) j1 js n).
Proof.
  intros H tn r' Hr. unfold redirect in Hr. rewrite rows_of_map_rows in Hr. apply in_map_iff in Hr.
  destruct Hr as [r [<- Hr]]. exists r. split; auto. unfold kn_cells. simpl.
  apply (filter_kn_map (fun c => on_cell f tn c && memz (c_val c) js) (fun _ => j1)).
  intros c Hc P. apply andb_true_iff in P. destruct P as [P _]. exact (H tn r c Hr Hc P).
Qed.

Lemma keeps_kn_cont_all s cs order start n : noKN (selJ s cs) n -> noKN (selP s) n ->
  keeps_kn n (cont_all s cs order start n).
Proof.
  revert n. induction order as [|e r IH]; intros n HJ HP; simpl.
  - intros tn r' Hr. exists r'. auto.
  - apply keeps_kn_trans with (cont_elem s cs e start n); [unfold cont_elem; now apply keeps_kn_sel_for|].
    apply IH; unfold noKN, cont_elem; now apply allcells_relabel.
Qed.

Lemma step_keeps_kn s o n : noKN (selJ s (cs_of o)) n -> noKN (selP s) n -> keeps_kn n (step s o n).
Proof.
  intros HJ HP. destruct o; simpl in *.
  - now apply keeps_kn_sel_for.
  - now apply keeps_kn_sel_for.
  - now apply keeps_kn_cont_all.
  - eapply keeps_kn_trans; [apply keeps_kn_redirect; exact HJ | unfold drop_labels; apply keeps_kn_filter].
  - unfold select. apply keeps_kn_filter.
  - destruct cascade; unfold drop_elems_full, drop_pipe_refs, drop_elems, drop_labels.
    + eapply keeps_kn_trans; [eapply keeps_kn_trans; [apply keeps_kn_filter | apply keeps_kn_filter] | apply keeps_kn_filter].
    + apply keeps_kn_filter.
  - unfold drop_elems_full, drop_pipe_refs, drop_elems. eapply keeps_kn_trans; apply keeps_kn_filter.
  - unfold drop_pipe_refs, drop_elems, drop_labels. eapply keeps_kn_trans; apply keeps_kn_filter.
  - now apply keeps_kn_redirect.
  - unfold select_res. apply keeps_kn_filter.
Qed.

(* for today's code the hypotheses follow from exactness of the tuple set *)
Lemma exact_noKN cs n : exact cs n -> noKN (selJ model_sem cs) n.
Proof. intros H tn r c Hr Hc Hs K. rewrite (H tn r c Hr Hc) in Hs. rewrite K in Hs. discriminate. Qed.
Lemma model_selP_noKN n : noKN (selP model_sem) n.
Proof. intros tn r c Hr Hc Hs K. simpl in Hs. rewrite K in Hs. simpl in Hs. now rewrite andb_false_r in Hs. Qed.
