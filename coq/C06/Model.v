(* C06 - hand-written executable models (H-tie; definitions only, no proofs) of
     pandapipes.pf.pipeflow_setup.create_lookups
     Junction.create_node_lookups, BranchW(O)InternalsComponent.create_branch_lookups / create_node_lookups
     component_toolbox.get_internal_lookup_structure
     pf.internals_toolbox._sum_by_group_sorted / _np / _numba / _sum_values_by_index / _sum_by_group
     pf.result_extraction.extract_branch_results_with_internals (placement logic)
     the structural columns (ELEMENT_IDX, FROM_NODE, TO_NODE) of the pit of junction / pipe-like tables.
   Labels (table indices) are Z, positions inside lists are nat, positions stored in arrays are Z.
   Tie: tools/props/c06.py runs the real functions on generated inputs and compares inside Coq. *)
From Coq Require Import ZArith List Bool Lia Ring_theory Sorting.Mergesort Orders.
Import ListNotations.
Open Scope Z_scope.

(* ------------------------------------------------------------------ small list helpers *)
Fixpoint select {X} (m : list bool) (xs : list X) : list X :=      (* xs[m] for a boolean mask *)
  match m, xs with
  | b :: mr, x :: xr => if b then x :: select mr xr else select mr xr
  | _, _ => []
  end.

Definition zrange (n : Z) : list Z := map Z.of_nat (seq 0 (Z.to_nat n)).     (* np.arange(n) *)

Definition max_list (l : list Z) : Z := fold_right Z.max 0 l.                (* labels are >= 0 *)

Definition count_true (m : list bool) : nat := length (filter (fun b => b) m).

(* ------------------------------------------------------------------ int arrays as write logs *)
(* np.ones(len) * -1 followed by fancy assignments a[keys] = values: a later write wins. *)
Record sarr := { alen : Z; awrites : list (Z * Z) }.

Definition sget (a : sarr) (i : Z) : Z :=
  fold_left (fun cur w => if fst w =? i then snd w else cur) (awrites a) (-1).

Definition swrite (a : sarr) (ws : list (Z * Z)) : sarr :=
  {| alen := alen a; awrites := awrites a ++ ws |}.

(* idx_lookups[tbl] = -ones(max+1); idx_lookups[tbl][table_indices] = arange(len) + current_start *)
Definition mk_index_lookup (idx : list Z) (start : Z) : sarr :=
  {| alen := match idx with [] => 0 | _ => max_list idx + 1 end;
     awrites := combine idx (map (fun k => start + k) (zrange (Z.of_nat (length idx)))) |}.

(* comparison with a real array shipped sparsely: its length and the (position, value) pairs of
   all entries <> -1 *)
Definition sarr_matches (a : sarr) (len : Z) (nz : list (Z * Z)) : bool :=
  (alen a =? len)
  && forallb (fun pv => (sget a (fst pv) =? snd pv) && (0 <=? fst pv) && (fst pv <? len)) nz
  && forallb (fun w => (sget a (fst w) =? -1) || existsb (fun pv => fst pv =? fst w) nz) (awrites a).

(* get_internal_lookup_structure: per row (first, last) position of its internals *)
Fixpoint cumsum_z (a : Z) (l : list Z) : list Z :=
  match l with [] => [] | x :: r => (a + x) :: cumsum_z (a + x) r end.

Definition internal_structure (counts : list Z) (start : Z) : list (Z * Z) :=
  map (fun ce => let e := snd ce - 1 + start in (e - (fst ce - 1), e))
      (combine counts (cumsum_z 0 counts)).

(* ------------------------------------------------------------------ create_lookups *)
(* One component as create_lookups sees it.  [c_branch]: None = not a branch component;
   Some None = branch without internals; Some (Some secs) = branch with internals (sections per row).
   [c_node]: None = no node table; Some (name, None) = a node table with an index lookup (junction);
   Some (name, Some counts) = internal nodes of a branch-with-internals component. *)
Record comp := {
  c_name : nat;                      (* table id *)
  c_labels : list Z;                 (* table index in row order *)
  c_branch : option (option (list Z));
  c_node : option (nat * option (list Z)) }.

Record lookups := {
  l_branch_ft : list (nat * (Z * Z));
  l_node_ft : list (nat * (Z * Z));
  l_branch_idx : list (nat * sarr);
  l_node_idx : list (nat * sarr);
  l_int_branches : list (nat * list (Z * Z));
  l_int_nodes : list (nat * list (Z * Z));
  l_branch_len : Z;
  l_node_len : Z }.

Definition sumz (l : list Z) : Z := fold_right Z.add 0 l.

Definition lookups_step (L : lookups) (c : comp) : lookups :=
  let n := Z.of_nat (length (c_labels c)) in
  (* create_branch_lookups *)
  let L1 :=
    match c_branch c with
    | None => L
    | Some None =>
        {| l_branch_ft := l_branch_ft L ++ [(c_name c, (l_branch_len L, l_branch_len L + n))];
           l_node_ft := l_node_ft L; l_branch_idx := l_branch_idx L; l_node_idx := l_node_idx L;
           l_int_branches := l_int_branches L; l_int_nodes := l_int_nodes L;
           l_branch_len := l_branch_len L + n; l_node_len := l_node_len L |}
    | Some (Some secs) =>
        {| l_branch_ft := l_branch_ft L ++ [(c_name c, (l_branch_len L, l_branch_len L + sumz secs))];
           l_node_ft := l_node_ft L;
           l_branch_idx := l_branch_idx L ++ [(c_name c, mk_index_lookup (c_labels c) (l_branch_len L))];
           l_node_idx := l_node_idx L;
           l_int_branches := l_int_branches L ++ [(c_name c, internal_structure secs 0)];
           l_int_nodes := l_int_nodes L;
           l_branch_len := l_branch_len L + sumz secs; l_node_len := l_node_len L |}
    end in
  (* create_node_lookups *)
  match c_node c with
  | None => L1
  | Some (nm, None) =>
      {| l_branch_ft := l_branch_ft L1;
         l_node_ft := l_node_ft L1 ++ [(nm, (l_node_len L1, l_node_len L1 + n))];
         l_branch_idx := l_branch_idx L1;
         l_node_idx := l_node_idx L1 ++ [(nm, mk_index_lookup (c_labels c) (l_node_len L1))];
         l_int_branches := l_int_branches L1; l_int_nodes := l_int_nodes L1;
         l_branch_len := l_branch_len L1; l_node_len := l_node_len L1 + n |}
  | Some (nm, Some cnt) =>
      if sumz cnt >? 0 then
      {| l_branch_ft := l_branch_ft L1;
         l_node_ft := l_node_ft L1 ++ [(nm, (l_node_len L1, l_node_len L1 + sumz cnt))];
         l_branch_idx := l_branch_idx L1; l_node_idx := l_node_idx L1;
         l_int_branches := l_int_branches L1;
         l_int_nodes := l_int_nodes L1 ++ [(c_name c, internal_structure cnt (l_node_len L1))];
         l_branch_len := l_branch_len L1; l_node_len := l_node_len L1 + sumz cnt |}
      else L1
  end.

Definition create_lookups (cs : list comp) : lookups :=
  fold_left lookups_step cs
    {| l_branch_ft := []; l_node_ft := []; l_branch_idx := []; l_node_idx := [];
       l_int_branches := []; l_int_nodes := []; l_branch_len := 0; l_node_len := 0 |}.

(* ------------------------------------------------------------------ argsort (model of np.argsort) *)
Module KeyPos <: TotalLeBool.
  Definition t := (Z * nat)%type.
  Definition leb (x y : t) := fst x <=? fst y.
  Theorem leb_total : forall a1 a2, is_true (leb a1 a2) \/ is_true (leb a2 a1).
  Proof. intros [a ?] [b ?]; unfold leb, is_true; simpl. destruct (Z.leb_spec a b); auto.
         right. apply Z.leb_le. lia. Qed.
End KeyPos.
Module KPSort := Sort KeyPos.

Definition argsort (ks : list Z) : list nat :=
  map snd (KPSort.sort (combine ks (seq 0 (length ks)))).

(* ------------------------------------------------------------------ _sum_by_group, any commutative ring *)
Section SBG.
  Context {A : Type} (zero one : A) (add mul sub : A -> A -> A) (opp : A -> A).

  Definition permute {X} (d : X) (order : list nat) (xs : list X) : list X :=
    map (fun i => nth i xs d) order.

  (* index = ones(bool); index[:-1] = indices[1:] != indices[:-1] *)
  Fixpoint gmask (ks : list Z) : list bool :=
    match ks with
    | [] => []
    | k :: r => (match r with [] => true | k' :: _ => negb (k' =? k) end) :: gmask r
    end.

  (* starts = flatnonzero(append(True, index[:-1]))[:len(index)] as a mask: the first position of every group *)
  Fixpoint fmask_from (prev : Z) (l : list Z) : list bool :=
    match l with [] => [] | k :: r => negb (k =? prev) :: fmask_from k r end.
  Definition fmask (ks : list Z) : list bool :=
    match ks with [] => [] | k :: r => true :: fmask_from k r end.

  (* np.add.reduceat(vs, flatnonzero(m)) for a start mask m (strictly increasing starts): the sums of the segments
     [start_i, start_{i+1}).  [seg] returns (sum of the leading elements that belong to the segment opened further
     left, sums of the segments that start inside the list) *)
  Fixpoint seg (m : list bool) (vs : list A) : A * list A :=
    match m, vs with
    | b :: mr, v :: vr =>
        let r := seg mr vr in
        if b then (zero, add v (fst r) :: snd r) else (add v (fst r), snd r)
    | _, _ => (zero, [])
    end.
  Definition segsum (m : list bool) (vs : list A) : list A := snd (seg m vs).

  (* _sum_by_group_sorted (one value column; NaN-free values), /repo fafb76b: group sums by reduceat *)
  Definition sbg_sorted (ks : list Z) (vs : list A) : list Z * list A :=
    (select (gmask ks) ks, segsum (fmask ks) vs).

  (* _sum_by_group_np; [order] is what np.argsort returned *)
  Definition sbg_np (order : list nat) (ks : list Z) (vs : list A) : list Z * list A :=
    sbg_sorted (permute 0 order ks) (permute zero order vs).

  (* _sum_values_by_index: bucket arrays of size max_ind + 2 as functions *)
  Definition bucket_step (st : (Z -> Z) * (Z -> A)) (kv : Z * A) : (Z -> Z) * (Z -> A) :=
    let i1 := fst kv + 1 in
    (fun j => if j =? i1 then i1 else fst st j,
     fun j => if j =? i1 then add (snd st j) (snd kv) else snd st j).

  Definition sbg_bucket (ks : list Z) (vs : list A) : list Z * list A :=
    let mx := max_list ks in
    let st := fold_left bucket_step (combine ks vs) (fun _ => 0, fun _ => zero) in
    let pos := filter (fun j => 0 <? fst st j) (zrange (mx + 2)) in
    (map (fun j => fst st j - 1) pos, map (snd st) pos).

  (* the dispatch of _sum_by_group / _sum_by_group_numba *)
  Definition bucket_cond (ks : list Z) : bool :=
    let mx := max_list ks in let n := Z.of_nat (length ks) in
    ((mx <? 100000) || (mx <? 2 * n)) && (mx <? 10 * n).

  Definition sbg (use_numba numba_installed : bool) (order : list nat) (ks : list Z) (vs : list A)
    : list Z * list A :=
    if use_numba && numba_installed then
      match ks with
      | [] => (ks, vs)
      | _ => if bucket_cond ks then sbg_bucket ks vs else sbg_np order ks vs
      end
    else sbg_np order ks vs.

  (* specification: sorted distinct keys, per-key sums *)
  Fixpoint ins_dedup (x : Z) (l : list Z) : list Z :=
    match l with
    | [] => [x]
    | y :: r => if x <? y then x :: l else if x =? y then l else y :: ins_dedup x r
    end.
  Definition distinct_sorted (ks : list Z) : list Z := fold_right ins_dedup [] ks.

  Definition sum_pairs (k : Z) (l : list (Z * A)) : A :=
    fold_right (fun kv s => if fst kv =? k then add (snd kv) s else s) zero l.

  Definition sbg_spec (ks : list Z) (vs : list A) : list Z * list A :=
    let dk := distinct_sorted ks in (dk, map (fun k => sum_pairs k (combine ks vs)) dk).
End SBG.

(* several value columns, as the callers use it *)
Definition sbg_cols_Z (use_numba numba_installed : bool) (ks : list Z) (cols : list (list Z))
  : list Z * list (list Z) :=
  (fst (sbg 0 Z.add use_numba numba_installed (argsort ks) ks (repeat 0 (length ks))),
   map (fun c => snd (sbg 0 Z.add use_numba numba_installed (argsort ks) ks c)) cols).

Definition spec_cols_Z (ks : list Z) (cols : list (list Z)) : list Z * list (list Z) :=
  (distinct_sorted ks, map (fun c => snd (sbg_spec 0 Z.add ks c)) cols).

(* ------------------------------------------------------------------ comparison helpers for cases files *)
Fixpoint list_eqb {X} (e : X -> X -> bool) (a b : list X) : bool :=
  match a, b with
  | [], [] => true
  | x :: ar, y :: br => e x y && list_eqb e ar br
  | _, _ => false
  end.
Definition zl_eqb := list_eqb Z.eqb.
Definition zll_eqb := list_eqb zl_eqb.
Definition zp_eqb (a b : Z * Z) := (fst a =? fst b) && (snd a =? snd b).
Definition zpl_eqb := list_eqb zp_eqb.

Fixpoint first_bad_from {C} (ok : C -> bool) (cs : list C) (i : nat) : option nat :=
  match cs with
  | [] => None
  | c :: r => if ok c then first_bad_from ok r (S i) else Some i
  end.

Definition summary {C} (ok : C -> bool) (cs : list C) : nat * nat * Z :=
  (length cs, length (filter (fun c => negb (ok c)) cs),
   match first_bad_from ok cs 0 with Some i => Z.of_nat i | None => -1 end).

(* one _sum_by_group case: the real function's output is carried in the case *)
Record sbg_case := { sc_numba : bool; sc_keys : list Z; sc_cols : list (list Z);
                     sc_out_keys : list Z; sc_out_cols : list (list Z) }.
Definition sbg_case_ok (c : sbg_case) : bool :=
  let m := sbg_cols_Z (sc_numba c) true (sc_keys c) (sc_cols c) in
  let s := spec_cols_Z (sc_keys c) (sc_cols c) in
  zl_eqb (fst m) (sc_out_keys c) && zll_eqb (snd m) (sc_out_cols c)
  && zl_eqb (fst s) (sc_out_keys c) && zll_eqb (snd s) (sc_out_cols c).

(* one create_lookups case *)
Record lk_case := {
  lc_comps : list comp;
  lc_branch_ft : list (nat * (Z * Z)); lc_node_ft : list (nat * (Z * Z));
  lc_branch_idx : list (nat * (Z * list (Z * Z)));      (* table, (len, nonneg entries) *)
  lc_node_idx : list (nat * (Z * list (Z * Z)));
  lc_int_branches : list (nat * list (Z * Z)); lc_int_nodes : list (nat * list (Z * Z));
  lc_branch_len : Z; lc_node_len : Z }.

Definition ft_eqb (a b : list (nat * (Z * Z))) : bool :=
  list_eqb (fun x y => Nat.eqb (fst x) (fst y) && zp_eqb (snd x) (snd y)) a b.
Definition idx_eqb (a : list (nat * sarr)) (b : list (nat * (Z * list (Z * Z)))) : bool :=
  (Nat.eqb (length a) (length b)) &&
  forallb (fun xy => Nat.eqb (fst (fst xy)) (fst (snd xy))
                     && sarr_matches (snd (fst xy)) (fst (snd (snd xy))) (snd (snd (snd xy))))
          (combine a b).
Definition int_eqb (a b : list (nat * list (Z * Z))) : bool :=
  list_eqb (fun x y => Nat.eqb (fst x) (fst y) && zpl_eqb (snd x) (snd y)) a b.

Definition lk_case_ok (c : lk_case) : bool :=
  let L := create_lookups (lc_comps c) in
  ft_eqb (l_branch_ft L) (lc_branch_ft c) && ft_eqb (l_node_ft L) (lc_node_ft c)
  && idx_eqb (l_branch_idx L) (lc_branch_idx c) && idx_eqb (l_node_idx L) (lc_node_idx c)
  && int_eqb (l_int_branches L) (lc_int_branches c) && int_eqb (l_int_nodes L) (lc_int_nodes c)
  && (l_branch_len L =? lc_branch_len c) && (l_node_len L =? lc_node_len c).
