(* C06 - the exact-arithmetic half of "row order does not matter":
   (a) permuting the rows of the junction table moves every junction's pit position by the same permutation
       (lookup level), (b) a linear system transported along a permutation of its unknowns / equations has exactly the
       transported solutions (any commutative ring). *)
From Coq Require Import ZArith List Bool Lia Ring_theory Ring Sorting.Permutation.
From PP Require Import C06.Model C06.Proofs.
Import ListNotations.
Open Scope nat_scope.

Lemma nth_map_lt3 {X Y} (g : X -> Y) l : forall k d d', k < length l -> nth k (map g l) d = g (nth k l d').
Proof. induction l; intros [|k] d d' H; simpl in *; try lia; auto. apply IHl; lia. Qed.

(* (a) the row that a permutation [sigma] of the table puts at position k is found at pit position start + k *)
Theorem lookup_row_permutation js sigma start k :
  NoDup js -> Permutation sigma (seq 0 (length js)) -> k < length js ->
  sget (mk_index_lookup (permute 0%Z sigma js) start) (nth (nth k sigma 0) js 0%Z) = (start + Z.of_nat k)%Z.
Proof.
  intros Hnd Hp Hk.
  assert (Ls : length sigma = length js) by (rewrite (Permutation_length Hp); apply seq_length).
  assert (Hpj : Permutation (permute 0%Z sigma js) js).
  { unfold permute. eapply Permutation_trans; [apply Permutation_map; exact Hp|].
    rewrite map_nth_seq_own. apply Permutation_refl. }
  assert (E : nth (nth k sigma 0) js 0%Z = nth k (permute 0%Z sigma js) 0%Z).
  { unfold permute. symmetry. apply (nth_map_lt3 (fun i => nth i js 0%Z) sigma k 0%Z 0). lia. }
  rewrite E. apply lookup_hit.
  - apply (Permutation_NoDup (Permutation_sym Hpj)); auto.
  - unfold permute. rewrite map_length. lia.
Qed.

Section Transport.
  Context {A : Type} (zero one : A) (add mul sub : A -> A -> A) (opp : A -> A)
          (Rth : ring_theory zero one add mul sub opp eq).
  Add Ring Aring3 : Rth.

  Definition trip := (nat * nat * A)%type.           (* (row, column, value) of the sparse matrix *)

  Fixpoint rowsum (t : list trip) (r : nat) (x : nat -> A) : A :=
    match t with
    | [] => zero
    | (r', c, v) :: rest => if Nat.eqb r' r then add (mul v (x c)) (rowsum rest r x) else rowsum rest r x
    end.

  (* every equation of  J x = rhs  holds; nothing is assumed about how a solver finds x *)
  Definition solves (t : list trip) (rhs : nat -> A) (N : nat) (x : nat -> A) : Prop :=
    forall r, r < N -> rowsum t r x = rhs r.

  (* the same system with unknowns and equations renumbered by [s] *)
  Definition transport (s : nat -> nat) (t : list trip) : list trip :=
    map (fun e : trip => (s (fst (fst e)), s (snd (fst e)), snd e)) t.

  Lemma rowsum_transport (s u : nat -> nat) (N : nat) t r x :
    (forall i, i < N -> u (s i) = i) -> (forall i, i < N -> s i < N) ->
    (forall e, In e t -> fst (fst e) < N /\ snd (fst e) < N) -> r < N ->
    rowsum (transport s t) (s r) (fun c => x (u c)) = rowsum t r x.
  Proof.
    intros Hus Hs Hwf Hr. induction t as [|[[r' c] v] rest IH]; [reflexivity|].
    destruct (Hwf (r', c, v) (or_introl eq_refl)) as [Hr' Hc]. simpl in Hr', Hc.
    simpl. rewrite IH by (intros; apply Hwf; simpl; auto). rewrite (Hus c Hc).
    destruct (Nat.eqb_spec r' r) as [->|NE].
    - now rewrite Nat.eqb_refl.
    - destruct (Nat.eqb_spec (s r') (s r)) as [E|]; auto.
      exfalso. apply NE. rewrite <- (Hus r' Hr'), <- (Hus r Hr), E. reflexivity.
  Qed.

  (* (b) solutions correspond under the renumbering, for every commutative ring *)
  Theorem solves_transport (s u : nat -> nat) (N : nat) t rhs x :
    (forall i, i < N -> u (s i) = i) -> (forall i, i < N -> s (u i) = i) ->
    (forall i, i < N -> s i < N) -> (forall i, i < N -> u i < N) ->
    (forall e, In e t -> fst (fst e) < N /\ snd (fst e) < N) ->
    (solves (transport s t) (fun r => rhs (u r)) N (fun c => x (u c)) <-> solves t rhs N x).
  Proof.
    intros Hus Hsu Hs Hu Hwf. unfold solves. split; intros H r Hr.
    - specialize (H (s r) (Hs r Hr)). rewrite (rowsum_transport s u N) in H by auto. now rewrite Hus in H.
    - rewrite <- (Hsu r Hr) at 1. rewrite (rowsum_transport s u N) by auto. apply H. auto.
  Qed.
End Transport.
