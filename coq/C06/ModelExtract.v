(* C06 - model of the placement logic of result_extraction.extract_branch_results_with_internals (as repaired in
   /repo aef289a: the last section is located by index changes in pit order) and of the structural pit columns of
   junction / multi-section tables.  Definitions only. *)
From Coq Require Import ZArith List Bool Lia.
From PP Require Import C06.Model.
Import ListNotations.
Open Scope Z_scope.

(* res.values[mask] = vals : the k-th True position receives the k-th value; None = numpy raises (shape mismatch) *)
Fixpoint mask_assign {V} (mask : list bool) (vals old : list V) : option (list V) :=
  match mask, old with
  | [], [] => match vals with [] => Some [] | _ => None end
  | b :: mr, o :: orr =>
      if b then match vals with
                | v :: vr => option_map (cons v) (mask_assign mr vr orr)
                | [] => None
                end
      else option_map (cons o) (mask_assign mr vals orr)
  | _, _ => None
  end.

Definition andl (a b : list bool) : list bool := map (fun p => fst p && snd p) (combine a b).

(* end-node results:  considered = ext & connected; external_active = connected[ext];
   res[external_active] = values[considered] *)
Definition place_ext {V} (conn ext : list bool) (vals old : list V) : option (list V) :=
  mask_assign (select ext conn) (select (andl ext conn) vals) old.

(* last-section results:  last_section = flatnonzero(append(idx[1:] != idx[:-1], True));
   connected_rows = connected[last_section]; res[connected_rows] = values[last_section[connected_rows]] *)
Definition place_last {V} (d : V) (idx_pit : list Z) (conn : list bool) (vals old : list V) : option (list V) :=
  let last := select (gmask idx_pit) (seq 0 (length idx_pit)) in
  let cr := map (fun p => nth p conn false) last in
  mask_assign cr (map (fun p => nth p vals d) (select cr last)) old.

(* outlet results (t_outlet_k) as of /repo 82df6bf:
     last_section  = flatnonzero(append(idx[1:] != idx[:-1], True))
     first_section = flatnonzero(append(True, idx[1:] != idx[:-1]))
     connected_rows = connected[last_section]; switched = FROM_NODE_T_SWITCHED[last_section]
     outlet_section = where(switched, first_section, last_section)
     res[connected_rows] = values[outlet_section[connected_rows]] *)

Definition place_outlet {V} (d : V) (idx_pit : list Z) (conn sw : list bool) (vals old : list V) : option (list V) :=
  let pos := seq 0 (length idx_pit) in
  let last := select (gmask idx_pit) pos in
  let first := select (fmask idx_pit) pos in
  let cr := map (fun p => nth p conn false) last in
  let swl := map (fun p => nth p sw false) last in
  let outlet := map (fun x : bool * (nat * nat) => if fst x then fst (snd x) else snd (snd x))
                    (combine swl (combine first last)) in
  mask_assign cr (map (fun p => nth p vals d) (select cr outlet)) old.

(* res.values[pt] = vals with an integer index array: sequential writes *)
Fixpoint index_assign {V} (pt : list nat) (vals : list V) (old : list V) : list V :=
  match pt, vals with
  | p :: pr, v :: vr => index_assign pr vr (firstn p old ++ v :: skipn (S p) old)
  | _, _ => old
  end.

(* section means at Z:  res = _sum_by_group(idx_pit, ones, connected, values); connected_ind = res[2] > 0.99;
   pt = argsort(table index)[connected_ind]; res_table[pt] = res[3][connected_ind] / res[1][connected_ind] *)
(* as of /repo 08a8961 the entry "dp_frict_loss" is not divided: [is_sum] = (entry == "dp_frict_loss") *)
Definition place_mean (is_sum use_numba : bool) (labels idx_pit : list Z) (conn : list bool) (vals old : list Z) : list Z :=
  let ones := map (fun _ => 1) idx_pit in
  let ci := map (fun b : bool => if b then 1 else 0) conn in
  let r := sbg_cols_Z use_numba true idx_pit [ones; ci; vals] in
  let cnt := nth 0 (snd r) [] in
  let con := nth 1 (snd r) [] in
  let sums := nth 2 (snd r) [] in
  let cmask := map (fun c => 0 <? c) con in
  let pt := select cmask (argsort labels) in
  index_assign pt (map (fun p : Z * Z => if is_sum then fst p else fst p / snd p)
                       (combine (select cmask sums) (select cmask cnt))) old.

(* ------------------------------------------------------------------ table structure *)
(* a row block: [pre] sections before the distinguished one, [post] after it *)
Definition block_mask (pp : nat * nat) : list bool := repeat false (fst pp) ++ true :: repeat false (snd pp).
Definition blocks_mask (bl : list (nat * nat)) : list bool := flat_map block_mask bl.
Definition block_len (pp : nat * nat) : nat := (fst pp + 1 + snd pp)%nat.

(* what the property asks for: row r receives the value of its own distinguished section iff that section is
   connected, else keeps its old content *)
Fixpoint expect_rows {V} (d : V) (bl : list (nat * nat)) (conn : list bool) (vals old : list V) : list V :=
  match bl, old with
  | pp :: br, o :: orr =>
      (if nth (fst pp) conn false then nth (fst pp) vals d else o)
        :: expect_rows d br (skipn (block_len pp) conn) (skipn (block_len pp) vals) orr
  | _, _ => []
  end.

Definition first_blocks (secs : list nat) : list (nat * nat) := map (fun s => (0, s - 1)%nat) secs.
Definition last_blocks (secs : list nat) : list (nat * nat) := map (fun s => (s - 1, 0)%nat) secs.

(* positions of the distinguished sections of the row blocks, counted from [a] *)
Fixpoint pos_of_blocks (a : nat) (bl : list (nat * nat)) : list nat :=
  match bl with
  | [] => []
  | pp :: r => (a + fst pp)%nat :: pos_of_blocks (a + block_len pp)%nat r
  end.

(* the property: row r receives the value of its outlet section - its last section, or its first one when the
   flow is against the declared direction - iff its last section is connected *)
Definition outlet_rows {V} (d : V) (firsts lasts : list nat) (conn sw : list bool) (vals old : list V) : list V :=
  map (fun x : nat * nat * V => let f := fst (fst x) in let l := snd (fst x) in
                if nth l conn false then nth (if nth l sw false then f else l) vals d else snd x)
      (combine (combine firsts lasts) old).

(* ELEMENT_IDX column of a multi-section table: set_entry_check_repeat(index, sections) *)
Definition idx_pit_of (labels : list Z) (secs : list nat) : list Z :=
  flat_map (fun ls => repeat (fst ls) (snd ls)) (combine labels secs).

(* ------------------------------------------------------------------ structural pit of junctions + one w-internals table *)
(* FROM_NODE / TO_NODE of a table with sections: np.insert chaining over the internal nodes, which are numbered
   consecutively from [int_start] in row order *)
Fixpoint chain_from_to (fj tj : list Z) (secs : list nat) (int_start : Z) : list (Z * Z) :=
  match fj, tj, secs with
  | f :: fr, t :: tr, s :: sr =>
      let ints := map (fun k => int_start + Z.of_nat k) (seq 0 (s - 1)) in
      combine (f :: ints) (ints ++ [t]) ++ chain_from_to fr tr sr (int_start + Z.of_nat (s - 1))
  | _, _, _ => []
  end.

Record wtable := { w_labels : list Z; w_from : list Z; w_to : list Z; w_secs : list nat }.

(* (ELEMENT_IDX, FROM_NODE, TO_NODE) of the table's pit rows, junction labels [js] at node positions 0.. *)
Definition pit_of (js : list Z) (w : wtable) (int_start : Z) : list Z * list (Z * Z) :=
  let lk := mk_index_lookup js 0 in
  (idx_pit_of (w_labels w) (w_secs w),
   chain_from_to (map (sget lk) (w_from w)) (map (sget lk) (w_to w)) (w_secs w) int_start).

Definition relabel_table (rj rp : Z -> Z) (w : wtable) : wtable :=
  {| w_labels := map rp (w_labels w); w_from := map rj (w_from w); w_to := map rj (w_to w); w_secs := w_secs w |}.

(* ------------------------------------------------------------------ cases *)
Definition ozl_eqb (a : option (list Z)) (b : list Z) : bool :=
  match a with Some x => zl_eqb x b | None => false end.

Record ext_case := {
  ec_numba : bool; ec_labels : list Z; ec_secs : list nat; ec_idx_pit : list Z; ec_conn : list bool;
  ec_from_ext : list bool; ec_to_ext : list bool;
  ec_switched : list bool;
  ec_v_from : list Z; ec_v_to : list Z; ec_v_mean : list Z; ec_v_sum : list Z; ec_v_last : list Z;
  ec_old : list Z;                                   (* previous content of the result column (a sentinel) *)
  ec_res_from : list Z; ec_res_to : list Z; ec_res_mean : list Z; ec_res_sum : list Z; ec_res_last : list Z }.

Definition ext_case_ok (c : ext_case) : bool :=
  zl_eqb (idx_pit_of (ec_labels c) (ec_secs c)) (ec_idx_pit c)
  && list_eqb Bool.eqb (blocks_mask (first_blocks (ec_secs c))) (ec_from_ext c)
  && list_eqb Bool.eqb (blocks_mask (last_blocks (ec_secs c))) (ec_to_ext c)
  && ozl_eqb (place_ext (ec_conn c) (ec_from_ext c) (ec_v_from c) (ec_old c)) (ec_res_from c)
  && ozl_eqb (place_ext (ec_conn c) (ec_to_ext c) (ec_v_to c) (ec_old c)) (ec_res_to c)
  && ozl_eqb (place_outlet 0 (ec_idx_pit c) (ec_conn c) (ec_switched c) (ec_v_last c) (ec_old c)) (ec_res_last c)
  && zl_eqb (place_mean false (ec_numba c) (ec_labels c) (ec_idx_pit c) (ec_conn c) (ec_v_mean c) (ec_old c)) (ec_res_mean c)
  && zl_eqb (place_mean true (ec_numba c) (ec_labels c) (ec_idx_pit c) (ec_conn c) (ec_v_sum c) (ec_old c)) (ec_res_sum c)
  (* and the property itself, row by row *)
  && zl_eqb (expect_rows 0 (first_blocks (ec_secs c)) (ec_conn c) (ec_v_from c) (ec_old c)) (ec_res_from c)
  && zl_eqb (expect_rows 0 (last_blocks (ec_secs c)) (ec_conn c) (ec_v_to c) (ec_old c)) (ec_res_to c)
  && zl_eqb (outlet_rows 0 (pos_of_blocks 0 (first_blocks (ec_secs c))) (pos_of_blocks 0 (last_blocks (ec_secs c)))
                         (ec_conn c) (ec_switched c) (ec_v_last c) (ec_old c)) (ec_res_last c).

(* ------------------------------------------------------------------ set_fixed_node_entries (one call, fresh counters) *)
(* juncts, val_sum, number = _sum_by_group(junctions, values, ones); index = lookup[juncts];
   pit[index, val] = (pit[index, val] * pit[index, count] + val_sum) / (number + pit[index, count]);
   pit[index, count] += number; pit[index, type] = P *)
Definition fixed_code (use_numba : bool) (js juncts vals old : list Z) : list Z * list Z :=
  let r := sbg_cols_Z use_numba true juncts [vals; map (fun _ => 1) juncts] in
  let lk := mk_index_lookup js 0 in
  let index := map (fun k => Z.to_nat (sget lk k)) (fst r) in
  let sums := nth 0 (snd r) [] in
  let num := nth 1 (snd r) [] in
  (index_assign index (map (fun p : Z * Z => fst p / snd p) (combine sums num)) old,
   index_assign index num (map (fun _ => 0) old)).

(* the property: the junction in table row r is fixed to the mean of the values given for ITS label *)
Definition fixed_spec (js juncts vals old : list Z) : list Z * list Z :=
  let cnt := fun l => Z.of_nat (count_occ Z.eq_dec juncts l) in
  (map (fun lo : Z * Z => if cnt (fst lo) =? 0 then snd lo else sum_pairs 0 Z.add (fst lo) (combine juncts vals) / cnt (fst lo))
       (combine js old),
   map cnt js).

Record fx_case := { fx_numba : bool; fx_js : list Z; fx_juncts : list Z; fx_vals : list Z; fx_old : list Z;
                    fx_val : list Z; fx_count : list Z }.
Definition fx_case_ok (c : fx_case) : bool :=
  let m := fixed_code (fx_numba c) (fx_js c) (fx_juncts c) (fx_vals c) (fx_old c) in
  let sp := fixed_spec (fx_js c) (fx_juncts c) (fx_vals c) (fx_old c) in
  zl_eqb (fst m) (fx_val c) && zl_eqb (snd m) (fx_count c) && zl_eqb (fst sp) (fx_val c) && zl_eqb (snd sp) (fx_count c).

Record pit_case := {
  pc_js : list Z; pc_tab : wtable; pc_int_start : Z;
  pc_elm : list Z; pc_ft : list (Z * Z) }.
Definition pit_case_ok (c : pit_case) : bool :=
  let p := pit_of (pc_js c) (pc_tab c) (pc_int_start c) in
  zl_eqb (fst p) (pc_elm c) && zpl_eqb (snd p) (pc_ft c).
