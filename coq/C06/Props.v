(* C06 - property theorems only (results do not depend on labels, row order or creation order).
   Each is closed by [exact] of a lemma of Proofs.v / ProofsExtract.v about the hand-written models of
   Model.v, which tools/props/c06.py ties to /repo by exact correspondences evaluated inside Coq. *)
From Coq Require Import ZArith List Bool Lia Ring_theory Sorting.Sorted Sorting.Permutation.
From PP Require Import C06.Model C06.Proofs C06.ModelExtract C06.ProofsExtract C06.ProofsPerm.
Import ListNotations.
Open Scope Z_scope.

(* 1. index lookups: for duplicate-free non-negative labels the k-th row is found at start + k,
      every other label gives -1, the array has max + 1 entries (all labels are inside it) *)
Theorem lookup_correct : forall idx start,
  NoDup idx -> (forall x, In x idx -> 0 <= x) ->
  (forall k, (k < length idx)%nat -> sget (mk_index_lookup idx start) (nth k idx 0) = start + Z.of_nat k)
  /\ (forall l, ~ In l idx -> sget (mk_index_lookup idx start) l = -1)
  /\ (forall l, In l idx -> 0 <= l < alen (mk_index_lookup idx start))
  /\ alen (mk_index_lookup idx start) = match idx with [] => 0 | _ => max_list idx + 1 end.
Proof.
  intros idx start Hnd Hpos. repeat split.
  - intros; now apply lookup_hit.
  - intros; now apply lookup_miss.
  - eapply lookup_len; eauto.
  - eapply lookup_len; eauto.
Qed.
Print Assumptions lookup_correct.

(* the position found for a row does not depend on the label values: any relabelling that is
   injective on the table's labels leaves it unchanged *)
Theorem lookup_relabel_invariant : forall (rho : Z -> Z) idx start k,
  NoDup idx -> (forall a b, In a idx -> In b idx -> rho a = rho b -> a = b) -> (k < length idx)%nat ->
  sget (mk_index_lookup (map rho idx) start) (rho (nth k idx 0)) =
  sget (mk_index_lookup idx start) (nth k idx 0).
Proof. exact lookup_relabel. Qed.
Print Assumptions lookup_relabel_invariant.

(* get_internal_lookup_structure: row k owns the contiguous range that starts after the internals
   of rows 0..k-1 *)
Theorem internal_lookup_structure_correct : forall counts start k, (k < length counts)%nat ->
  nth k (internal_structure counts start) (0, 0) =
  (start + sumz (firstn k counts), start + sumz (firstn k counts) + nth k counts 0 - 1).
Proof. exact internal_structure_nth. Qed.
Print Assumptions internal_lookup_structure_correct.

(* 2. grouped sums, any commutative ring, any keys *)
Section Ring.
  Context {A : Type} (zero one : A) (add mul sub : A -> A -> A) (opp : A -> A)
          (Rth : ring_theory zero one add mul sub opp eq).

  (* numpy path as of /repo fafb76b (group sums by np.add.reduceat over the first position of every group):
     whatever order argsort returns (it is not stable for equal keys) *)
  Theorem sum_by_group_np_spec : forall order ks vs,
    Permutation order (seq 0 (length ks)) -> Sorted Z.le (permute 0 order ks) -> length vs = length ks ->
    sbg_np zero add order ks vs = sbg_spec zero add ks vs.
  Proof. exact (sbg_np_spec zero one add mul sub opp Rth). Qed.

  (* numba path: bucket accumulation *)
  Theorem sum_by_group_numba_spec : forall ks vs,
    (forall k, In k ks -> 0 <= k) -> length vs = length ks ->
    sbg_bucket zero add ks vs = sbg_spec zero add ks vs.
  Proof. exact (sbg_bucket_spec zero one add mul sub opp Rth). Qed.

  (* the dispatch (use_numba, numba importable, max_ind heuristic incl. the 1e5 switch) is pure:
     all outcomes are the specification *)
  Theorem sum_by_group_spec : forall use_numba numba_installed order ks vs,
    Permutation order (seq 0 (length ks)) -> Sorted Z.le (permute 0 order ks) ->
    (forall k, In k ks -> 0 <= k) -> length vs = length ks ->
    sbg zero add use_numba numba_installed order ks vs = sbg_spec zero add ks vs.
  Proof. exact (sbg_all_paths_spec zero one add mul sub opp Rth). Qed.
End Ring.
Print Assumptions sum_by_group_np_spec.
Print Assumptions sum_by_group_numba_spec.
Print Assumptions sum_by_group_spec.

(* the specification itself: strictly increasing keys with the members of the input, per-key sums *)
Theorem sum_by_group_spec_meaning : forall ks (vs : list Z),
  StronglySorted Z.lt (fst (sbg_spec 0 Z.add ks vs))
  /\ (forall k, In k (fst (sbg_spec 0 Z.add ks vs)) <-> In k ks)
  /\ snd (sbg_spec 0 Z.add ks vs) = map (fun k => sum_pairs 0 Z.add k (combine ks vs)) (fst (sbg_spec 0 Z.add ks vs)).
Proof.
  intros. unfold sbg_spec; simpl. repeat split.
  - apply distinct_sorted_sorted.
  - apply distinct_sorted_in.
  - apply distinct_sorted_in.
Qed.
Print Assumptions sum_by_group_spec_meaning.

(* 3. relabel invariance of positions: pit order is table row order, so a relabelling that is injective on the
      junction labels (and any map on the table's own labels), applied consistently to the references, changes
      only ELEMENT_IDX; FROM_NODE / TO_NODE of all sections (np.insert chaining) are unchanged *)
Theorem mk_pit_relabel_invariant : forall (rj rp : Z -> Z) js w int_start,
  NoDup js -> (forall a b, In a js -> In b js -> rj a = rj b -> a = b) ->
  (forall l, In l (w_from w) -> In l js) -> (forall l, In l (w_to w) -> In l js) ->
  snd (pit_of (map rj js) (relabel_table rj rp w) int_start) = snd (pit_of js w int_start)
  /\ fst (pit_of (map rj js) (relabel_table rj rp w) int_start) = map rp (fst (pit_of js w int_start)).
Proof. exact pit_relabel_invariant. Qed.
Print Assumptions mk_pit_relabel_invariant.

(* 6. placement of extracted multi-section results, for every duplicate-free labelling and all section counts *)
(* 6a. from / to values: row r gets the value at its own first / last section iff that section is connected *)
Theorem extract_end_values_placement : forall V (d : V) secs (conn : list bool) (vals old : list V),
  (forall s, In s secs -> (0 < s)%nat) ->
  length conn = fold_right plus 0%nat secs -> length vals = fold_right plus 0%nat secs -> length old = length secs ->
  place_ext conn (blocks_mask (first_blocks secs)) vals old = Some (expect_rows d (first_blocks secs) conn vals old)
  /\ place_ext conn (blocks_mask (last_blocks secs)) vals old = Some (expect_rows d (last_blocks secs) conn vals old).
Proof. intros V d. exact (end_node_placement d). Qed.
Print Assumptions extract_end_values_placement.

(* 6b. outlet results (t_outlet_k), code as of 82df6bf: last sections are the index changes in pit order, first
   sections the positions after an index change; row r gets the value of its own outlet section - the last section,
   or the first one when FROM_NODE_T_SWITCHED is set (flow against the declared direction) - iff its last section is
   connected.  [pos_of_blocks 0 (first_blocks secs)] / [(last_blocks secs)] are the first / last section of every row. *)
Theorem extract_last_section_placement : forall V (d : V) labels secs (conn sw : list bool) (vals old : list V),
  length secs = length labels -> NoDup labels -> (forall s, In s secs -> (0 < s)%nat) ->
  length old = length labels ->
  place_outlet d (idx_pit_of labels secs) conn sw vals old =
  Some (outlet_rows d (pos_of_blocks 0 (first_blocks secs)) (pos_of_blocks 0 (last_blocks secs)) conn sw vals old).
Proof. intros V d. exact (outlet_placement d). Qed.
Print Assumptions extract_last_section_placement.

(* without reversed flow this is the last section of the row (the former statement) *)
Theorem extract_last_section_placement_unswitched : forall V (d : V) labels secs (conn : list bool) (vals old : list V),
  length secs = length labels -> NoDup labels -> (forall s, In s secs -> (0 < s)%nat) ->
  length conn = fold_right plus 0%nat secs -> length vals = fold_right plus 0%nat secs ->
  length old = length labels ->
  place_last d (idx_pit_of labels secs) conn vals old = Some (expect_rows d (last_blocks secs) conn vals old).
Proof. intros V d. exact (last_section_placement d). Qed.
Print Assumptions extract_last_section_placement_unswitched.

(* 6c. section means: the j-th group of the grouped sum over ELEMENT_IDX is the row with the j-th smallest label -
   the row to which placement_table = argsort(table index) sends it - and its sum is the sum over that row's
   own sections (any commutative ring; any valid argsort) *)
Section RingMean.
  Context {A : Type} (zero one : A) (add mul sub : A -> A -> A) (opp : A -> A)
          (Rth : ring_theory zero one add mul sub opp eq).
  Theorem extract_mean_groups_are_rows : forall labels secs (vals : list A) order j,
    length secs = length labels -> NoDup labels -> (forall s, In s secs -> (0 < s)%nat) ->
    length vals = fold_right plus 0%nat secs ->
    Permutation order (seq 0 (length labels)) -> Sorted Z.le (permute 0 order labels) -> (j < length labels)%nat ->
    let res := sbg_spec zero add (idx_pit_of labels secs) vals in
    nth j (fst res) 0 = nth (nth j order 0%nat) labels 0
    /\ nth j (snd res) zero = lsum zero add (row_block secs vals (nth j order 0%nat)).
  Proof. exact (mean_groups_are_rows zero one add mul sub opp Rth). Qed.
End RingMean.
Print Assumptions extract_mean_groups_are_rows.

(* 6d. final content of a section-mean / section-sum column (code as of /repo 08a8961; integers, Z.div): for every
   duplicate-free non-negative labelling, all section counts, numba on or off: row r is written iff one of its own
   sections is connected and then holds the sum over ITS OWN sections - undivided for the entry dp_frict_loss
   ([is_sum]), divided by ITS OWN section count for every other entry; otherwise it keeps its old content *)
Theorem extract_mean_and_sum_placement : forall (is_sum use_numba : bool) labels secs (conn : list bool) (vals old : list Z),
  length secs = length labels -> NoDup labels -> (forall l, In l labels -> 0 <= l) ->
  (forall s, In s secs -> (0 < s)%nat) ->
  length conn = fold_right plus 0%nat secs -> length vals = fold_right plus 0%nat secs -> length old = length labels ->
  forall r, (r < length labels)%nat ->
    nth r (place_mean is_sum use_numba labels (idx_pit_of labels secs) conn vals old) 0 =
    if 0 <? rowsumZ secs (map (fun b : bool => if b then 1 else 0) conn) r
    then (if is_sum then rowsumZ secs vals r
          else rowsumZ secs vals r / rowsumZ secs (map (fun _ => 1) (idx_pit_of labels secs)) r)
    else nth r old 0.
Proof. exact mean_placement_Z. Qed.
Print Assumptions extract_mean_and_sum_placement.

(* 7. set_fixed_node_entries (ext grids, circulation pumps): code path (grouped sum over junction LABELS, index lookup,
   integer-index assignment) = specification, as lists: for every duplicate-free non-negative labelling in any row
   order, any fixing junctions (repeats allowed), numba on or off, the junction in table row r holds the mean of the
   values given for ITS OWN label and the number of elements fixing it; other rows are untouched *)
Theorem set_fixed_node_entries_placement : forall (use_numba : bool) js juncts vals old,
  NoDup js -> (forall l, In l js -> 0 <= l) -> (forall j, In j juncts -> In j js) ->
  length vals = length juncts -> length old = length js ->
  fixed_code use_numba js juncts vals old = fixed_spec js juncts vals old.
Proof. exact fixed_code_eq_spec. Qed.
Print Assumptions set_fixed_node_entries_placement.

(* 5. row permutation, exact-arithmetic half.
   5a. positions: if the junction table is permuted by sigma, the junction that sigma puts into row k is found at pit
       position start + k - every reference to it moves with it *)
Theorem row_permutation_positions : forall js sigma start k,
  NoDup js -> Permutation sigma (seq 0 (length js)) -> (k < length js)%nat ->
  sget (mk_index_lookup (permute 0 sigma js) start) (nth (nth k sigma 0%nat) js 0) = start + Z.of_nat k.
Proof. exact lookup_row_permutation. Qed.
Print Assumptions row_permutation_positions.

(* 5b. PARTIAL (named hypothesis: the assembled system of the permuted net is the transported system - that is the
   statement of C01's assembly model under a permutation of node / branch rows and is not proved here): a linear system
   whose unknowns and equations are renumbered by a bijection s (inverse u) of [0,N) has exactly the renumbered
   solutions, in every commutative ring - so in exact arithmetic a row permutation permutes the Newton iterates *)
Section RingPerm.
  Context {A : Type} (zero one : A) (add mul sub : A -> A -> A) (opp : A -> A)
          (Rth : ring_theory zero one add mul sub opp eq).
  Theorem row_permutation_equivariance_partial : forall (s u : nat -> nat) (N : nat) t rhs x,
    (forall i, (i < N)%nat -> u (s i) = i) -> (forall i, (i < N)%nat -> s (u i) = i) ->
    (forall i, (i < N)%nat -> (s i < N)%nat) -> (forall i, (i < N)%nat -> (u i < N)%nat) ->
    (forall e, In e t -> (fst (fst e) < N)%nat /\ (snd (fst e) < N)%nat) ->
    (solves zero add mul (transport s t) (fun r => rhs (u r)) N (fun c => x (u c)) <-> solves zero add mul t rhs N x).
  Proof. exact (solves_transport zero add mul). Qed.   (* no ring law is needed: holds for any zero / add / mul *)
End RingPerm.
Print Assumptions row_permutation_equivariance_partial.

(* non-vacuity: unsorted, sparse, large labels; both dispatch outcomes on concrete keys *)
Example lookup_example :
  let idx := [100007; 3; 52; 0] in
  NoDup idx /\ sget (mk_index_lookup idx 10) 52 = 12 /\ sget (mk_index_lookup idx 10) 4 = -1
  /\ alen (mk_index_lookup idx 10) = 100008.
Proof. simpl. repeat split; try reflexivity. repeat constructor; simpl; intuition lia. Qed.

Example sbg_example :
  sbg 0 Z.add true true (argsort [7; 3; 7; 0; 3]) [7; 3; 7; 0; 3] [1; 10; 100; 1000; 10000]
    = ([0; 3; 7], [1000; 10010; 101])
  /\ bucket_cond [7; 3; 7; 0; 3] = true
  /\ sbg 0 Z.add true true (argsort [100007; 3; 100007]) [100007; 3; 100007] [1; 10; 100]
    = ([3; 100007], [10; 101])
  /\ bucket_cond [100007; 3; 100007] = false.
Proof. vm_compute. repeat split. Qed.

(* the labelling that exposed the former t_outlet_k misplacement: labels [7;3;5], sections [1;3;2] *)
Example t_outlet_example :
  place_outlet 0 (idx_pit_of [7; 3; 5] [1; 3; 2]%nat) [true; true; true; true; true; true]
               [false; true; true; true; false; false] [10; 20; 21; 22; 30; 31] [-1; -1; -1] = Some [10; 20; 31]
  /\ pos_of_blocks 0 (first_blocks [1; 3; 2]%nat) = [0; 1; 4]%nat /\ pos_of_blocks 0 (last_blocks [1; 3; 2]%nat) = [0; 3; 5]%nat
  /\ place_mean false false [7; 3; 5] (idx_pit_of [7; 3; 5] [1; 3; 2]%nat) [true; true; true; true; true; true]
                [12; 24; 36; 48; 10; 20] [-1; -1; -1] = [12; 36; 15]
  /\ place_mean true false [7; 3; 5] (idx_pit_of [7; 3; 5] [1; 3; 2]%nat) [true; true; true; true; false; false]
                [12; 24; 36; 48; 10; 20] [-1; -1; -1] = [12; 108; -1]
  /\ snd (pit_of [40; 10; 30] {| w_labels := [7; 3]; w_from := [10; 30]; w_to := [30; 40]; w_secs := [3; 1]%nat |} 3)
     = [(1, 3); (3, 4); (4, 2); (2, 0)].
Proof. vm_compute. repeat split. Qed.

(* set-points on a reversed labelling; a 3-cycle of the junction rows; a transported 2x2 system *)
Example fixed_and_permutation_example :
  fixed_code true [4; 3; 2; 1; 0] [4; 0; 4] [60; 48; 36] [-7; -7; -7; -7; -7] = ([48; -7; -7; -7; 48], [2; 0; 0; 0; 1])
  /\ fixed_spec [4; 3; 2; 1; 0] [4; 0; 4] [60; 48; 36] [-7; -7; -7; -7; -7] = ([48; -7; -7; -7; 48], [2; 0; 0; 0; 1])
  /\ sget (mk_index_lookup (permute 0 [2; 0; 1]%nat [70; 30; 50]) 0) 50 = 0
  /\ rowsum 0 Z.add Z.mul (transport (fun i => (1 - i)%nat) [(0%nat, 0%nat, 2); (0%nat, 1%nat, 3); (1%nat, 1%nat, 5)]) 1%nat
            (fun c => nth ((1 - c)%nat) [7; 11] 0) = 2 * 7 + 3 * 11.
Proof. vm_compute. repeat split. Qed.
