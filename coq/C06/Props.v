(* C06 - property theorems only (results do not depend on labels, row order or creation order).
   Each is closed by [exact] of a lemma of Proofs.v / ProofsExtract.v about the hand-written models of
   Model.v, which tools/props/c06.py ties to /repo by exact correspondences evaluated inside Coq. *)
From Coq Require Import ZArith List Bool Lia Ring_theory Sorting.Sorted Sorting.Permutation.
From PP Require Import C06.Model C06.Proofs.
Import ListNotations.
Open Scope Z_scope.

(* 1. index lookups: for duplicate-free non-negative labels the k-th row is found at start + k,
      every other label gives -1, the array has max + 1 entries (all labels are inside it) *)
Theorem lookup_correct : forall idx start,
  NoDup idx -> (forall x, In x idx -> 0 <= x) ->
  (forall k, (k < length idx)%nat -> sget (mk_index_lookup idx start) (nth k idx 0) = start + Z.of_nat k)
  /\ (forall l, ~ In l idx -> sget (mk_index_lookup idx start) l = -1)
  /\ (forall l, In l idx -> 0 <= l < alen (mk_index_lookup idx start))
  /\ alen (mk_index_lookup idx start) = match idx with [] => 0 | _ => max_list idx + 1 end.
Proof.
  intros idx start Hnd Hpos. repeat split.
  - intros; now apply lookup_hit.
  - intros; now apply lookup_miss.
  - eapply lookup_len; eauto.
  - eapply lookup_len; eauto.
Qed.
Print Assumptions lookup_correct.

(* the position found for a row does not depend on the label values: any relabelling that is
   injective on the table's labels leaves it unchanged *)
Theorem lookup_relabel_invariant : forall (rho : Z -> Z) idx start k,
  NoDup idx -> (forall a b, In a idx -> In b idx -> rho a = rho b -> a = b) -> (k < length idx)%nat ->
  sget (mk_index_lookup (map rho idx) start) (rho (nth k idx 0)) =
  sget (mk_index_lookup idx start) (nth k idx 0).
Proof. exact lookup_relabel. Qed.
Print Assumptions lookup_relabel_invariant.

(* get_internal_lookup_structure: row k owns the contiguous range that starts after the internals
   of rows 0..k-1 *)
Theorem internal_lookup_structure_correct : forall counts start k, (k < length counts)%nat ->
  nth k (internal_structure counts start) (0, 0) =
  (start + sumz (firstn k counts), start + sumz (firstn k counts) + nth k counts 0 - 1).
Proof. exact internal_structure_nth. Qed.
Print Assumptions internal_lookup_structure_correct.

(* 2. grouped sums, any commutative ring, any keys *)
Section Ring.
  Context {A : Type} (zero one : A) (add mul sub : A -> A -> A) (opp : A -> A)
          (Rth : ring_theory zero one add mul sub opp eq).

  (* numpy path: whatever order argsort returns (it is not stable for equal keys) *)
  Theorem sum_by_group_np_spec : forall order ks vs,
    Permutation order (seq 0 (length ks)) -> Sorted Z.le (permute 0 order ks) -> length vs = length ks ->
    sbg_np zero add sub order ks vs = sbg_spec zero add ks vs.
  Proof. exact (sbg_np_spec zero one add mul sub opp Rth). Qed.

  (* numba path: bucket accumulation *)
  Theorem sum_by_group_numba_spec : forall ks vs,
    (forall k, In k ks -> 0 <= k) -> length vs = length ks ->
    sbg_bucket zero add ks vs = sbg_spec zero add ks vs.
  Proof. exact (sbg_bucket_spec zero one add mul sub opp Rth). Qed.

  (* the dispatch (use_numba, numba importable, max_ind heuristic incl. the 1e5 switch) is pure:
     all outcomes are the specification *)
  Theorem sum_by_group_spec : forall use_numba numba_installed order ks vs,
    Permutation order (seq 0 (length ks)) -> Sorted Z.le (permute 0 order ks) ->
    (forall k, In k ks -> 0 <= k) -> length vs = length ks ->
    sbg zero add sub use_numba numba_installed order ks vs = sbg_spec zero add ks vs.
  Proof. exact (sbg_all_paths_spec zero one add mul sub opp Rth). Qed.
End Ring.
Print Assumptions sum_by_group_np_spec.
Print Assumptions sum_by_group_numba_spec.
Print Assumptions sum_by_group_spec.

(* the specification itself: strictly increasing keys with the members of the input, per-key sums *)
Theorem sum_by_group_spec_meaning : forall ks (vs : list Z),
  StronglySorted Z.lt (fst (sbg_spec 0 Z.add ks vs))
  /\ (forall k, In k (fst (sbg_spec 0 Z.add ks vs)) <-> In k ks)
  /\ snd (sbg_spec 0 Z.add ks vs) = map (fun k => sum_pairs 0 Z.add k (combine ks vs)) (fst (sbg_spec 0 Z.add ks vs)).
Proof.
  intros. unfold sbg_spec; simpl. repeat split.
  - apply distinct_sorted_sorted.
  - apply distinct_sorted_in.
  - apply distinct_sorted_in.
Qed.
Print Assumptions sum_by_group_spec_meaning.

(* non-vacuity: unsorted, sparse, large labels; both dispatch outcomes on concrete keys *)
Example lookup_example :
  let idx := [100007; 3; 52; 0] in
  NoDup idx /\ sget (mk_index_lookup idx 10) 52 = 12 /\ sget (mk_index_lookup idx 10) 4 = -1
  /\ alen (mk_index_lookup idx 10) = 100008.
Proof. simpl. repeat split; try reflexivity. repeat constructor; simpl; intuition lia. Qed.

Example sbg_example :
  sbg 0 Z.add Z.sub true true (argsort [7; 3; 7; 0; 3]) [7; 3; 7; 0; 3] [1; 10; 100; 1000; 10000]
    = ([0; 3; 7], [1000; 10010; 101])
  /\ bucket_cond [7; 3; 7; 0; 3] = true
  /\ sbg 0 Z.add Z.sub true true (argsort [100007; 3; 100007]) [100007; 3; 100007] [1; 10; 100]
    = ([3; 100007], [10; 101])
  /\ bucket_cond [100007; 3; 100007] = false.
Proof. vm_compute. repeat split. Qed.
