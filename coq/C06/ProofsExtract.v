(* C06 - placement of multi-section results and relabel invariance of the structural pit. *)
From Coq Require Import ZArith List Bool Lia Ring_theory Sorting.Sorted Sorting.Permutation.
From PP Require Import C06.Model C06.Proofs C06.ModelExtract.
Import ListNotations.
Open Scope nat_scope.

(* ------------------------------------------------------------------ select / mask lemmas *)
Lemma select_false_prefix {X} k : forall (xs ys : list X) m, length xs = k ->
  select (repeat false k ++ m) (xs ++ ys) = select m ys.
Proof.
  induction k as [|k IH]; intros xs ys m H.
  - destruct xs; [reflexivity|discriminate].
  - destruct xs as [|x xs]; [discriminate|]. simpl. apply IH. simpl in H. lia.
Qed.

Lemma andl_app a1 a2 b1 b2 : length a1 = length b1 -> andl (a1 ++ a2) (b1 ++ b2) = andl a1 b1 ++ andl a2 b2.
Proof.
  unfold andl. revert b1. induction a1 as [|x a1 IH]; intros [|y b1] H; simpl in *; try discriminate; auto.
  f_equal. apply IH. lia.
Qed.

Lemma andl_false_l k b : length b = k -> andl (repeat false k) b = repeat false k.
Proof.
  unfold andl. revert b. induction k as [|k IH]; intros [|y b] H; simpl in *; try discriminate; auto.
  f_equal. apply IH. lia.
Qed.

Lemma split_at {X} (xs : list X) k : k <= length xs ->
  exists a b, xs = a ++ b /\ length a = k /\ b = skipn k xs.
Proof.
  intros H. exists (firstn k xs), (skipn k xs). repeat split.
  - now rewrite firstn_skipn.
  - rewrite firstn_length. lia.
Qed.

Lemma nth_app_exact {X} (d : X) (a : list X) x b : nth (length a) (a ++ x :: b) d = x.
Proof. induction a; simpl; auto. Qed.

Definition total_len (bl : list (nat * nat)) : nat := fold_right (fun pp s => block_len pp + s) 0 bl.

(* end-node / last-section placement through a one-True-per-row mask: every row gets the value of its own
   distinguished section iff that section is connected *)
Theorem place_ext_rows {V} (d : V) : forall bl (conn : list bool) (vals old : list V),
  length conn = total_len bl -> length vals = total_len bl -> length old = length bl ->
  place_ext conn (blocks_mask bl) vals old = Some (expect_rows d bl conn vals old).
Proof.
  unfold place_ext.
  induction bl as [|[pre post] bl IH]; intros conn vals old Hc Hv Ho.
  - destruct conn, vals, old; try discriminate. reflexivity.
  - destruct old as [|o old]; [discriminate|]. simpl in Ho.
    simpl total_len in Hc, Hv. unfold block_len in Hc, Hv. simpl fst in *. simpl snd in *.
    (* split conn and vals at the block *)
    destruct (split_at conn pre ltac:(lia)) as [c1 [cr [Ec [Lc1 _]]]].
    destruct cr as [|cx cr]; [subst conn; rewrite app_length in Hc; simpl in Hc; lia|].
    destruct (split_at cr post ltac:(subst conn; rewrite app_length in Hc; simpl in Hc; lia)) as [c2 [c3 [Ec2 [Lc2 _]]]].
    destruct (split_at vals pre ltac:(lia)) as [v1 [vr [Ev [Lv1 _]]]].
    destruct vr as [|vx vr]; [subst vals; rewrite app_length in Hv; simpl in Hv; lia|].
    destruct (split_at vr post ltac:(subst vals; rewrite app_length in Hv; simpl in Hv; lia)) as [v2 [v3 [Ev2 [Lv2 _]]]].
    subst cr vr conn vals.
    assert (Lc3 : length c3 = total_len bl) by (rewrite !app_length in Hc; simpl in Hc; rewrite app_length in Hc; lia).
    assert (Lv3 : length v3 = total_len bl) by (rewrite !app_length in Hv; simpl in Hv; rewrite app_length in Hv; lia).
    specialize (IH c3 v3 old Lc3 Lv3 ltac:(lia)).
    change (blocks_mask ((pre, post) :: bl)) with
      ((repeat false pre ++ true :: repeat false post) ++ blocks_mask bl).
    rewrite <- !app_assoc. simpl app.
    (* select of the mask over conn *)
    rewrite (select_false_prefix pre c1 (cx :: c2 ++ c3)) by auto. simpl select.
    rewrite (select_false_prefix post c2 c3) by auto.
    (* the and-mask over vals *)
    rewrite andl_app by (now rewrite repeat_length).
    rewrite (andl_false_l pre c1) by auto.
    change (andl (true :: repeat false post ++ blocks_mask bl) (cx :: c2 ++ c3)) with
      ((true && cx) :: andl (repeat false post ++ blocks_mask bl) (c2 ++ c3)).
    rewrite andl_app by (now rewrite repeat_length). rewrite (andl_false_l post c2) by auto.
    rewrite (select_false_prefix pre v1 (vx :: v2 ++ v3)) by auto. simpl andb.
    unfold expect_rows; fold (@expect_rows V). simpl fst.
    assert (Sk : forall {X} (a : list X) x b c, length a = pre -> length b = post ->
               skipn (pre + 1 + post) (a ++ x :: b ++ c) = c).
    { intros X a x b c La Lb.
      replace (a ++ x :: b ++ c) with ((a ++ x :: b) ++ c) by (rewrite <- app_assoc; reflexivity).
      rewrite skipn_app. rewrite skipn_all2 by (rewrite app_length; simpl; lia).
      rewrite app_length. simpl length. replace (pre + 1 + post - (length a + S (length b))) with 0 by lia.
      reflexivity. }
    unfold block_len. simpl fst. simpl snd. rewrite !Sk by auto.
    rewrite <- Lc1 at 1. rewrite nth_app_exact. rewrite <- Lv1. rewrite nth_app_exact.
    destruct cx; simpl select; simpl mask_assign.
    + rewrite (select_false_prefix post v2 v3) by auto. rewrite IH. reflexivity.
    + rewrite (select_false_prefix post v2 v3) by auto. rewrite IH. reflexivity.
Qed.

(* ------------------------------------------------------------------ last section = index change in pit order *)
Lemma gmask_repeat l s rest : 0 < s ->
  gmask (repeat l s ++ rest) =
  repeat false (s - 1) ++ (match rest with [] => true | k' :: _ => negb (k' =? l)%Z end) :: gmask rest.
Proof.
  induction s as [|s IH]; intros H; [lia|].
  destruct s.
  - simpl. destruct rest; reflexivity.
  - change (gmask (repeat l (S (S s)) ++ rest)) with (negb (l =? l)%Z :: gmask (repeat l (S s) ++ rest)).
    rewrite Z.eqb_refl, IH by lia.
    replace (S (S s) - 1) with (S (S s - 1)) by lia. reflexivity.
Qed.

Lemma gmask_last_blocks : forall labels secs,
  length secs = length labels -> NoDup labels -> (forall s, In s secs -> 0 < s) ->
  gmask (idx_pit_of labels secs) = blocks_mask (last_blocks secs).
Proof.
  unfold idx_pit_of, blocks_mask, last_blocks.
  induction labels as [|l labels IH]; intros [|s secs] Hl Hnd Hpos; simpl in Hl; try discriminate; [reflexivity|].
  simpl. inversion Hnd as [|? ? Hn Hnd']; subst.
  rewrite gmask_repeat by (apply Hpos; simpl; auto).
  rewrite IH by (auto; intros; apply Hpos; simpl; auto).
  unfold block_mask at 2. simpl fst. simpl snd. rewrite <- app_assoc. simpl app. f_equal. f_equal.
  destruct labels as [|l' labels]; destruct secs as [|s' secs]; simpl in Hl; try discriminate; [reflexivity|].
  simpl. assert (0 < s') by (apply Hpos; simpl; auto). destruct s'; [lia|]. simpl.
  destruct (Z.eqb_spec l' l); auto. subst. exfalso. apply Hn. simpl; auto.
Qed.

Lemma map_nth_select_seq {X} (d : X) : forall (g : list bool) (xs pre : list X), length g = length xs ->
  map (fun p => nth p (pre ++ xs) d) (select g (seq (length pre) (length xs))) = select g xs.
Proof.
  induction g as [|b g IH]; intros xs pre H; destruct xs as [|x xs]; simpl in H; try discriminate; [reflexivity|].
  simpl seq. simpl select.
  specialize (IH xs (pre ++ [x]) ltac:(lia)). rewrite app_length in IH. simpl in IH.
  rewrite <- app_assoc in IH. simpl in IH. replace (length pre + 1) with (S (length pre)) in IH by lia.
  destruct b; simpl; [|exact IH]. rewrite IH. f_equal. apply nth_app_exact.
Qed.

Lemma select_select {X} : forall (g c : list bool) (xs : list X), length c = length g -> length xs = length g ->
  select (select g c) (select g xs) = select (andl g c) xs.
Proof.
  unfold andl. induction g as [|b g IH]; intros c xs Hc Hx; [reflexivity|].
  destruct c as [|y c]; [discriminate|]. destruct xs as [|x xs]; [discriminate|].
  simpl in Hc, Hx. destruct b; simpl; [destruct y; simpl; rewrite IH by lia; reflexivity|apply IH; lia].
Qed.

Lemma gmask_length idx : length (gmask idx) = length idx.
Proof. induction idx as [|a idx IH]; [reflexivity|]. change (length (gmask (a :: idx))) with (S (length (gmask idx))). now rewrite IH. Qed.

Lemma place_last_as_mask {V} (d : V) idx (conn : list bool) (vals old : list V) :
  length conn = length idx -> length vals = length idx ->
  place_last d idx conn vals old = place_ext conn (gmask idx) vals old.
Proof.
  intros Hc Hv. unfold place_last, place_ext.
  assert (Lg : length (gmask idx) = length idx) by apply gmask_length.
  assert (E1 : map (fun p => nth p conn false) (select (gmask idx) (seq 0 (length idx))) = select (gmask idx) conn).
  { rewrite <- Hc. apply (map_nth_select_seq false (gmask idx) conn []). lia. }
  assert (Ls : length (seq 0 (length idx)) = length (gmask idx)) by (now rewrite seq_length).
  rewrite E1. rewrite select_select by lia.
  assert (La : length (andl (gmask idx) conn) = length vals).
  { unfold andl. rewrite map_length, combine_length. lia. }
  pose proof (map_nth_select_seq d (andl (gmask idx) conn) vals [] La) as E2. simpl in E2.
  rewrite <- Hv. rewrite E2. reflexivity.
Qed.

Lemma total_len_last secs : (forall s, In s secs -> 0 < s) -> total_len (last_blocks secs) = fold_right plus 0 secs.
Proof.
  induction secs as [|s secs IH]; intros H; simpl; auto. unfold block_len; simpl.
  rewrite IH by (intros; apply H; simpl; auto). assert (0 < s) by (apply H; simpl; auto). lia.
Qed.

Lemma idx_pit_length : forall labels secs, length secs = length labels ->
  length (idx_pit_of labels secs) = fold_right plus 0 secs.
Proof.
  unfold idx_pit_of. induction labels as [|l labels IH]; intros [|s secs] H; simpl in *; try discriminate; auto.
  rewrite app_length, repeat_length, IH by lia. reflexivity.
Qed.

(* t_outlet_k and every other last-section result: for every duplicate-free labelling and any section counts,
   row r receives the value of its own last section iff that section is connected *)
Theorem last_section_placement {V} (d : V) labels secs (conn : list bool) (vals old : list V) :
  length secs = length labels -> NoDup labels -> (forall s, In s secs -> 0 < s) ->
  length conn = fold_right plus 0 secs -> length vals = fold_right plus 0 secs -> length old = length labels ->
  place_last d (idx_pit_of labels secs) conn vals old = Some (expect_rows d (last_blocks secs) conn vals old).
Proof.
  intros Hl Hnd Hpos Hc Hv Ho.
  rewrite place_last_as_mask by (rewrite idx_pit_length; auto).
  rewrite gmask_last_blocks by auto.
  apply place_ext_rows; rewrite ?total_len_last; auto.
  unfold last_blocks. rewrite map_length. lia.
Qed.

(* ------------------------------------------------------------------ outlet section follows the flow direction (82df6bf) *)
Lemma mask_assign_pos {V} (d : V) (vals : list V) : forall (cr : list bool) (pos : list nat) (old : list V),
  length pos = length cr -> length old = length cr ->
  mask_assign cr (map (fun p => nth p vals d) (select cr pos)) old =
  Some (map (fun x : bool * nat * V => if fst (fst x) then nth (snd (fst x)) vals d else snd x)
            (combine (combine cr pos) old)).
Proof.
  induction cr as [|c cr IH]; intros [|p pos] [|o old] Hp Ho; simpl in Hp, Ho; try discriminate; [reflexivity|].
  destruct c; simpl; rewrite IH by lia; reflexivity.
Qed.

Lemma select_blocks_seq : forall bl a, select (blocks_mask bl) (seq a (total_len bl)) = pos_of_blocks a bl.
Proof.
  induction bl as [|[pre post] bl IH]; intros a; [reflexivity|].
  change (blocks_mask ((pre, post) :: bl)) with ((repeat false pre ++ true :: repeat false post) ++ blocks_mask bl).
  simpl total_len. unfold block_len. simpl fst. simpl snd.
  replace (pre + 1 + post + total_len bl) with (pre + S (post + total_len bl)) by lia.
  rewrite seq_app. change (seq (a + pre) (S (post + total_len bl))) with ((a + pre) :: seq (S (a + pre)) (post + total_len bl)).
  rewrite seq_app, <- app_assoc. simpl app.
  rewrite (select_false_prefix pre (seq a pre)) by apply seq_length. simpl select.
  rewrite (select_false_prefix post (seq (S (a + pre)) post)) by apply seq_length.
  rewrite IH. simpl pos_of_blocks. unfold block_len. simpl fst. simpl snd.
  f_equal. f_equal. lia.
Qed.

Lemma pos_of_blocks_length bl : forall a, length (pos_of_blocks a bl) = length bl.
Proof. induction bl; intros; simpl; auto. Qed.

Lemma fmask_from_repeat l s rest : fmask_from l (repeat l s ++ rest) = repeat false s ++ fmask_from l rest.
Proof. induction s; simpl; auto. rewrite Z.eqb_refl. simpl. now f_equal. Qed.

Lemma fmask_from_blocks : forall labels secs prev,
  length secs = length labels -> ~ In prev labels -> NoDup labels -> (forall s, In s secs -> 0 < s) ->
  fmask_from prev (idx_pit_of labels secs) = blocks_mask (first_blocks secs).
Proof.
  unfold idx_pit_of, blocks_mask, first_blocks.
  induction labels as [|l labels IH]; intros [|s secs] prev Hl Hp Hnd Hpos; simpl in Hl; try discriminate; [reflexivity|].
  assert (Hs : 0 < s) by (apply Hpos; simpl; auto). destruct s as [|s']; [lia|].
  inversion Hnd as [|? ? Hn Hnd']; subst.
  simpl flat_map. simpl repeat. simpl app. simpl fmask_from.
  destruct (Z.eqb_spec l prev) as [E|NE]; [exfalso; apply Hp; simpl; auto|].
  rewrite fmask_from_repeat. rewrite IH by (auto; intros; apply Hpos; simpl; auto).
  unfold block_mask. simpl. replace (s' - 0) with s' by lia. reflexivity.
Qed.

Lemma fmask_first_blocks : forall labels secs,
  length secs = length labels -> NoDup labels -> (forall s, In s secs -> 0 < s) ->
  fmask (idx_pit_of labels secs) = blocks_mask (first_blocks secs).
Proof.
  intros [|l labels] [|s secs] Hl Hnd Hpos; simpl in Hl; try discriminate; [reflexivity|].
  assert (Hs : 0 < s) by (apply Hpos; simpl; auto). destruct s as [|s']; [lia|].
  inversion Hnd as [|? ? Hn Hnd']; subst.
  unfold idx_pit_of, blocks_mask, first_blocks. simpl flat_map. simpl repeat. simpl app. unfold fmask.
  rewrite fmask_from_repeat.
  pose proof (fmask_from_blocks labels secs l ltac:(lia) Hn Hnd' ltac:(intros; apply Hpos; simpl; auto)) as E.
  unfold idx_pit_of, blocks_mask, first_blocks in E. rewrite E.
  unfold block_mask. simpl. replace (s' - 0) with s' by lia. reflexivity.
Qed.

Lemma outlet_rows_eq {V} (d : V) (conn sw : list bool) (vals : list V) : forall firsts lasts old,
  length firsts = length lasts ->
  map (fun x : bool * nat * V => if fst (fst x) then nth (snd (fst x)) vals d else snd x)
      (combine (combine (map (fun p => nth p conn false) lasts)
                        (map (fun x : bool * (nat * nat) => if fst x then fst (snd x) else snd (snd x))
                             (combine (map (fun p => nth p sw false) lasts) (combine firsts lasts)))) old)
  = outlet_rows d firsts lasts conn sw vals old.
Proof.
  unfold outlet_rows.
  induction firsts as [|f firsts IH]; intros [|l lasts] old H; simpl in H; try discriminate; [reflexivity|].
  destruct old as [|o old]; [reflexivity|]. simpl. rewrite IH by lia. reflexivity.
Qed.

Lemma total_len_first secs : (forall s, In s secs -> 0 < s) -> total_len (first_blocks secs) = fold_right plus 0 secs.
Proof.
  induction secs as [|s secs IH]; intros H; simpl; auto. unfold block_len; simpl.
  rewrite IH by (intros; apply H; simpl; auto). assert (0 < s) by (apply H; simpl; auto). lia.
Qed.

Theorem end_node_placement {V} (d : V) secs (conn : list bool) (vals old : list V) :
  (forall s, In s secs -> 0 < s) ->
  length conn = fold_right plus 0 secs -> length vals = fold_right plus 0 secs -> length old = length secs ->
  place_ext conn (blocks_mask (first_blocks secs)) vals old = Some (expect_rows d (first_blocks secs) conn vals old)
  /\ place_ext conn (blocks_mask (last_blocks secs)) vals old = Some (expect_rows d (last_blocks secs) conn vals old).
Proof.
  intros Hpos Hc Hv Ho. split; apply place_ext_rows;
    rewrite ?total_len_first, ?total_len_last; auto; unfold first_blocks, last_blocks; now rewrite map_length.
Qed.

(* t_outlet_k as of 82df6bf: for every duplicate-free labelling and all section counts, row r receives the value
   of its own outlet section (last section; first section when FROM_NODE_T_SWITCHED is set at the last section)
   iff its last section is connected *)
Theorem outlet_placement {V} (d : V) labels secs (conn sw : list bool) (vals old : list V) :
  length secs = length labels -> NoDup labels -> (forall s, In s secs -> 0 < s) -> length old = length labels ->
  place_outlet d (idx_pit_of labels secs) conn sw vals old =
  Some (outlet_rows d (pos_of_blocks 0 (first_blocks secs)) (pos_of_blocks 0 (last_blocks secs)) conn sw vals old).
Proof.
  intros Hl Hnd Hpos Ho.
  set (firsts := pos_of_blocks 0 (first_blocks secs)). set (lasts := pos_of_blocks 0 (last_blocks secs)).
  assert (EL : select (gmask (idx_pit_of labels secs)) (seq 0 (length (idx_pit_of labels secs))) = lasts).
  { rewrite idx_pit_length, gmask_last_blocks by auto. rewrite <- (total_len_last secs Hpos). apply select_blocks_seq. }
  assert (EF : select (fmask (idx_pit_of labels secs)) (seq 0 (length (idx_pit_of labels secs))) = firsts).
  { rewrite idx_pit_length, fmask_first_blocks by auto. rewrite <- (total_len_first secs Hpos). apply select_blocks_seq. }
  unfold place_outlet. cbv zeta. rewrite EL, EF.
  assert (Lf : length firsts = length secs) by (unfold firsts, first_blocks; now rewrite pos_of_blocks_length, map_length).
  assert (Ll : length lasts = length secs) by (unfold lasts, last_blocks; now rewrite pos_of_blocks_length, map_length).
  rewrite mask_assign_pos.
  - f_equal. apply outlet_rows_eq. lia.
  - rewrite !map_length, combine_length, map_length, combine_length. lia.
  - rewrite map_length. lia.
Qed.

Lemma nth_map_lt2 {X Y} (g : X -> Y) l : forall k d d', k < length l -> nth k (map g l) d = g (nth k l d').
Proof. induction l; intros [|k] d d' H; simpl in *; try lia; auto. apply IHl; lia. Qed.

(* ------------------------------------------------------------------ section means: group j of the grouped sum is the
   row with the j-th smallest label, which is where placement_table = argsort(table index) sends it *)
Section Mean.
  Context {A : Type} (zero one : A) (add mul sub : A -> A -> A) (opp : A -> A)
          (Rth : ring_theory zero one add mul sub opp eq).
  Add Ring Aring2 : Rth.

  Definition lsum (l : list A) : A := fold_right add zero l.

  (* the values of row r: its block of the per-section column *)
  Fixpoint row_block (secs : list nat) (vals : list A) (r : nat) : list A :=
    match secs, r with
    | [], _ => []
    | s :: _, O => firstn s vals
    | s :: sr, S r' => row_block sr (skipn s vals) r'
    end.

  Lemma sum_pairs_repeat_app k l s : forall (vb : list A) rest vrest, length vb = s ->
    sum_pairs zero add k (combine (repeat l s ++ rest) (vb ++ vrest)) =
    add (if (l =? k)%Z then lsum vb else zero) (sum_pairs zero add k (combine rest vrest)).
  Proof.
    induction s as [|s IH]; intros vb rest vrest H.
    - destruct vb; [|discriminate]. simpl. destruct (l =? k)%Z; ring.
    - destruct vb as [|v vb]; [discriminate|]. simpl in H. simpl repeat. simpl app. simpl combine.
      unfold sum_pairs at 1. simpl fold_right. fold (sum_pairs zero add k (combine (repeat l s ++ rest) (vb ++ vrest))).
      rewrite IH by lia. simpl lsum. destruct (l =? k)%Z; ring.
  Qed.

  Lemma group_sum_is_row : forall labels secs (vals : list A) r,
    length secs = length labels -> NoDup labels -> length vals = fold_right plus 0 secs -> r < length labels ->
    sum_pairs zero add (nth r labels 0%Z) (combine (idx_pit_of labels secs) vals) = lsum (row_block secs vals r).
  Proof.
    unfold idx_pit_of.
    induction labels as [|l labels IH]; intros [|s secs] vals r Hl Hnd Hv Hr; simpl in Hl, Hr; try discriminate; [lia|].
    simpl in Hv. inversion Hnd as [|? ? Hn Hnd']; subst.
    rewrite <- (firstn_skipn s vals). simpl flat_map.
    rewrite sum_pairs_repeat_app by (rewrite firstn_length; lia).
    destruct r.
    - simpl nth. rewrite Z.eqb_refl. rewrite firstn_skipn.
      assert (E : sum_pairs zero add l (combine (flat_map (fun ls => repeat (fst ls) (snd ls)) (combine labels secs))
                                                 (skipn s vals)) = zero).
      { apply sum_pairs_none. intros [k0 v0] Hin. apply in_combine_l in Hin. simpl. apply in_flat_map in Hin.
        destruct Hin as [[l' s'] [Hin Hrep]]. apply repeat_spec in Hrep. simpl in Hrep. subst k0.
        apply in_combine_l in Hin. intro. subst. contradiction. }
      rewrite E. simpl row_block. ring.
    - simpl nth. rewrite firstn_skipn. simpl row_block.
      destruct (Z.eqb_spec l (nth r labels 0%Z)) as [E|NE].
      + exfalso. apply Hn. rewrite E. apply nth_In. lia.
      + rewrite IH by (auto; rewrite ?skipn_length; lia). ring.
  Qed.

  Theorem mean_groups_are_rows : forall labels secs (vals : list A) order j,
    length secs = length labels -> NoDup labels -> (forall s, In s secs -> 0 < s) ->
    length vals = fold_right plus 0 secs ->
    Permutation order (seq 0 (length labels)) -> Sorted Z.le (permute 0%Z order labels) -> j < length labels ->
    let res := sbg_spec zero add (idx_pit_of labels secs) vals in
    nth j (fst res) 0%Z = nth (nth j order 0) labels 0%Z
    /\ nth j (snd res) zero = lsum (row_block secs vals (nth j order 0)).
  Proof.
    intros labels secs vals order j Hl Hnd Hpos Hv Hp Hs Hj res.
    assert (Hk : fst res = permute 0%Z order labels).
    { unfold res, sbg_spec. simpl fst. apply ssorted_unique.
      - apply distinct_sorted_sorted.
      - (* sorted + duplicate-free = strictly sorted *)
        assert (Hnd' : NoDup (permute 0%Z order labels)).
        { unfold permute. apply (Permutation_NoDup (l := labels)); auto.
          apply Permutation_sym. eapply Permutation_trans; [apply Permutation_map; exact Hp|].
          rewrite map_nth_seq_own. apply Permutation_refl. }
        revert Hs Hnd'. generalize (permute 0%Z order labels). intros l Hs' Hnd'.
        apply Sorted_StronglySorted in Hs'; [|intros ? ? ?; lia].
        induction Hs' as [|a l Hs' IH Hall]; constructor.
        + apply IH. now inversion Hnd'.
        + inversion Hnd' as [|? ? Hn _]; subst. rewrite Forall_forall in *. intros x Hx.
          specialize (Hall _ Hx). assert (x <> a) by (intro; subst; contradiction). lia.
      - intros x. rewrite distinct_sorted_in. unfold idx_pit_of, permute. rewrite in_flat_map, in_map_iff. split.
        + intros [[l s] [Hin Hrep]]. apply repeat_spec in Hrep. simpl in Hrep. subst.
          apply in_combine_l in Hin. apply In_nth with (d := 0%Z) in Hin. destruct Hin as [i [Hi E]].
          exists i. split; auto. apply (Permutation_in _ (Permutation_sym Hp)). apply in_seq. lia.
        + intros [i [E Hi]]. apply (Permutation_in _ Hp) in Hi. apply in_seq in Hi.
          exists (nth i labels 0%Z, nth i secs 0). split.
          * rewrite <- combine_nth by auto. apply nth_In. rewrite combine_length. lia.
          * simpl. subst x. assert (0 < nth i secs 0) by (apply Hpos, nth_In; lia).
            destruct (nth i secs 0); [lia|]. simpl. auto. }
    assert (Lo : length order = length labels) by (rewrite (Permutation_length Hp); apply seq_length).
    split.
    - rewrite Hk. unfold permute. rewrite (nth_indep _ 0%Z (nth 0 labels 0%Z)) by (rewrite map_length; lia).
      now rewrite (map_nth (fun i => nth i labels 0%Z)).
    - assert (Hsnd : snd res = map (fun k => sum_pairs zero add k (combine (idx_pit_of labels secs) vals)) (fst res))
        by reflexivity.
      rewrite Hsnd, Hk. unfold permute. rewrite map_map.
      rewrite (nth_map_lt2 _ order j zero 0) by lia.
      apply group_sum_is_row; auto.
      assert (In (nth j order 0) order) by (apply nth_In; lia).
      apply (Permutation_in _ Hp) in H. apply in_seq in H. lia.
  Qed.
End Mean.

(* ------------------------------------------------------------------ mean / sum placement, final result (at Z) *)
Lemma nth_firstn_lt_x {X} (d : X) : forall (xs : list X) k n, k < n -> nth k (firstn n xs) d = nth k xs d.
Proof.
  induction xs as [|x xs IH]; intros k n H; [now rewrite firstn_nil|].
  destruct n; [lia|]. destruct k; simpl; auto. apply IH. lia.
Qed.

Lemma nth_skipn_x {X} (d : X) : forall f (xs : list X) k, nth k (skipn f xs) d = nth (f + k) xs d.
Proof. induction f as [|f IH]; intros xs k; simpl; auto. destruct xs; [now destruct k|]. apply IH. Qed.

Definition upd {V} (old : list V) (p : nat) (v : V) : list V := firstn p old ++ v :: skipn (S p) old.

Lemma upd_length {V} (old : list V) p v : p < length old -> length (upd old p v) = length old.
Proof.
  intros H. unfold upd. rewrite app_length, firstn_length.
  change (length (v :: skipn (S p) old)) with (S (length (skipn (S p) old))). rewrite skipn_length. lia.
Qed.

Lemma upd_nth {V} (d : V) (old : list V) p v r : p < length old ->
  nth r (upd old p v) d = if Nat.eqb r p then v else nth r old d.
Proof.
  intros H. unfold upd. assert (Lf : length (firstn p old) = p) by (rewrite firstn_length; lia).
  destruct (Nat.eqb_spec r p) as [->|NE].
  - rewrite app_nth2 by lia. rewrite Lf, Nat.sub_diag. reflexivity.
  - destruct (Nat.lt_ge_cases r p).
    + rewrite app_nth1 by lia. now apply nth_firstn_lt_x.
    + rewrite app_nth2 by lia. rewrite Lf. destruct (r - p) as [|q] eqn:E; [lia|].
      change (nth (S q) (v :: skipn (S p) old) d) with (nth q (skipn (S p) old) d).
      rewrite nth_skipn_x. f_equal. lia.
Qed.

Lemma index_assign_nth {V} (d : V) : forall (pt : list nat) (vals old : list V) r,
  NoDup pt -> length vals = length pt -> (forall p, In p pt -> p < length old) ->
  (forall j, j < length pt -> nth j pt 0 = r -> nth r (index_assign pt vals old) d = nth j vals d)
  /\ (~ In r pt -> nth r (index_assign pt vals old) d = nth r old d).
Proof.
  induction pt as [|p pt IH]; intros vals old r Hnd Hl Hlt.
  - split; [intros j Hj; simpl in Hj; lia|]. intros _. destruct vals; reflexivity.
  - destruct vals as [|v vals]; [discriminate|]. simpl in Hl.
    inversion Hnd as [|? ? Hn Hnd']; subst.
    assert (Hp : p < length old) by (apply Hlt; simpl; auto).
    change (index_assign (p :: pt) (v :: vals) old) with (index_assign pt vals (upd old p v)).
    destruct (IH vals (upd old p v) r Hnd' ltac:(lia)) as [IH1 IH2].
    { intros q Hq. rewrite upd_length by auto. apply Hlt. simpl; auto. }
    split.
    + intros [|j] Hj E.
      * simpl in E. subst r. rewrite IH2 by auto. rewrite upd_nth by auto. now rewrite Nat.eqb_refl.
      * simpl in Hj, E. apply IH1; auto. lia.
    + intros Hin. rewrite IH2 by (intro; apply Hin; simpl; auto). rewrite upd_nth by auto.
      destruct (Nat.eqb_spec r p); auto. subst. exfalso. apply Hin. simpl; auto.
Qed.

Lemma select_combine_in_x {X Y} (dx : X) (dy : Y) m : forall xs ys k, nth k m false = true ->
  k < length xs -> k < length ys ->
  In (nth k xs dx, nth k ys dy) (combine (select m xs) (select m ys)).
Proof.
  induction m as [|b m IH]; intros xs ys k Hm Hx Hy; [destruct k; discriminate|].
  destruct xs as [|x xs], ys as [|y ys]; simpl in Hx, Hy; try lia.
  destruct k; simpl in Hm.
  - subst b. simpl. auto.
  - destruct b; simpl; [right|]; apply IH; auto; lia.
Qed.

Lemma select_in_nth_x {X} (d : X) m : forall xs x, In x (select m xs) ->
  exists k, k < length xs /\ nth k m false = true /\ nth k xs d = x.
Proof.
  induction m as [|b m IH]; intros xs x H; [inversion H|].
  destruct xs as [|y xs]; [inversion H|]. simpl in H. destruct b.
  - destruct H as [<-|H]; [exists 0; simpl; repeat split; auto; lia|].
    destruct (IH _ _ H) as [k [? [? ?]]]. exists (S k). simpl. repeat split; auto; lia.
  - destruct (IH _ _ H) as [k [? [? ?]]]. exists (S k). simpl. repeat split; auto; lia.
Qed.

Lemma select_NoDup_x {X} m : forall (xs : list X), NoDup xs -> NoDup (select m xs).
Proof.
  induction m as [|b m IH]; intros [|x xs] H; simpl; try constructor.
  inversion H; subst. destruct b; auto. constructor; auto. intro Hin. apply select_in in Hin. contradiction.
Qed.

Lemma select_length_le {X} m : forall (xs : list X), length (select m xs) <= length xs.
Proof. induction m as [|b m IH]; intros [|x xs]; simpl; try lia. destruct b; simpl; specialize (IH xs); lia. Qed.

Lemma select_same_length {X Y} m : forall (xs : list X) (ys : list Y), length xs = length ys ->
  length (select m xs) = length (select m ys).
Proof.
  induction m as [|b m IH]; intros [|x xs] [|y ys] H; simpl in *; try discriminate; auto.
  destruct b; simpl; rewrite (IH xs ys) by lia; reflexivity.
Qed.

(* res[ps[m]] = ws[m] : row ps[j] receives ws[j] iff m[j], all other rows keep their content *)
Lemma index_assign_select {V} (d : V) (m : list bool) (ps : list nat) (ws old : list V) r j :
  NoDup ps -> length ws = length ps -> (forall p, In p ps -> p < length old) ->
  j < length ps -> nth j ps 0 = r ->
  nth r (index_assign (select m ps) (select m ws) old) d = if nth j m false then nth j ws d else nth r old d.
Proof.
  intros Hnd Hl Hlt Hj E.
  destruct (index_assign_nth d (select m ps) (select m ws) old r) as [H1 H2].
  - now apply select_NoDup_x.
  - symmetry. now apply select_same_length.
  - intros p Hp. apply Hlt. eapply select_in; eauto.
  - destruct (nth j m false) eqn:Hm.
    + pose proof (select_combine_in_x 0 d m ps ws j Hm Hj ltac:(lia)) as Hin.
      apply In_nth with (d := (0, d)) in Hin. destruct Hin as [j' [Hj' Ej']].
      rewrite combine_length in Hj'. rewrite combine_nth in Ej' by (now apply select_same_length).
      injection Ej' as Ea Eb. rewrite <- Eb. apply H1; [lia|]. rewrite Ea. exact E.
    + apply H2. intro Hin. apply (select_in_nth_x 0) in Hin. destruct Hin as [k [Hk [Hmk Ek]]].
      assert (k = j) by (apply (proj1 (NoDup_nth ps 0) Hnd); auto; congruence). subst. congruence.
Qed.

Lemma select_map_x {X Y} (g : X -> Y) m : forall xs, select m (map g xs) = map g (select m xs).
Proof. induction m as [|b m IH]; intros [|x xs]; simpl; auto. destruct b; simpl; now rewrite IH. Qed.

Lemma select_combine {X Y} m : forall (xs : list X) (ys : list Y), length xs = length ys ->
  combine (select m xs) (select m ys) = select m (combine xs ys).
Proof.
  induction m as [|b m IH]; intros [|x xs] [|y ys] H; simpl in *; try discriminate; auto.
  destruct b; simpl; rewrite IH by lia; reflexivity.
Qed.

Definition rowsumZ (secs : list nat) (x : list Z) (r : nat) : Z := lsum 0%Z Z.add (row_block secs x r).

(* the keys of the grouped sum over ELEMENT_IDX are the labels in sorted order *)
Lemma spec_keys_sorted_labels labels secs order :
  length secs = length labels -> NoDup labels -> (forall s, In s secs -> 0 < s) ->
  Permutation order (seq 0 (length labels)) -> Sorted Z.le (permute 0%Z order labels) ->
  distinct_sorted (idx_pit_of labels secs) = permute 0%Z order labels.
Proof.
  intros Hl Hnd Hpos Hp Hs. apply ssorted_unique.
  - apply distinct_sorted_sorted.
  - assert (Hnd' : NoDup (permute 0%Z order labels)).
    { unfold permute. apply (Permutation_NoDup (l := labels)); auto.
      apply Permutation_sym. eapply Permutation_trans; [apply Permutation_map; exact Hp|].
      rewrite map_nth_seq_own. apply Permutation_refl. }
    revert Hs Hnd'. generalize (permute 0%Z order labels). intros l Hs' Hnd'.
    apply Sorted_StronglySorted in Hs'; [|intros ? ? ?; lia].
    induction Hs' as [|a l Hs' IH Hall]; constructor.
    + apply IH. now inversion Hnd'.
    + inversion Hnd' as [|? ? Hn _]; subst. rewrite Forall_forall in *. intros x Hx.
      specialize (Hall _ Hx). assert (x <> a) by (intro; subst; contradiction). lia.
  - intros x. rewrite distinct_sorted_in. unfold idx_pit_of, permute. rewrite in_flat_map, in_map_iff. split.
    + intros [[l s] [Hin Hrep]]. apply repeat_spec in Hrep. simpl in Hrep. subst.
      apply in_combine_l in Hin. apply In_nth with (d := 0%Z) in Hin. destruct Hin as [i [Hi E]].
      exists i. split; auto. apply (Permutation_in _ (Permutation_sym Hp)). apply in_seq. lia.
    + intros [i [E Hi]]. apply (Permutation_in _ Hp) in Hi. apply in_seq in Hi.
      exists (nth i labels 0%Z, nth i secs 0). split.
      * rewrite <- combine_nth by auto. apply nth_In. rewrite combine_length. lia.
      * simpl. subst x. assert (0 < nth i secs 0) by (apply Hpos, nth_In; lia).
        destruct (nth i secs 0); [lia|]. simpl. auto.
Qed.

Lemma idx_pit_members labels secs k : In k (idx_pit_of labels secs) -> In k labels.
Proof.
  unfold idx_pit_of. rewrite in_flat_map. intros [[l s] [Hin Hrep]]. apply repeat_spec in Hrep. simpl in Hrep.
  subst. eapply in_combine_l; eauto.
Qed.

(* section means and sums, final content of the result column (integers; Z.div is the exact mean for the
   divisible values the correspondence uses): row r is written iff one of its sections is connected, and then holds
   the sum over ITS OWN sections - divided by ITS OWN section count unless the entry is dp_frict_loss *)
Theorem mean_placement_Z (is_sum use_numba : bool) labels secs (conn : list bool) (vals old : list Z) :
  length secs = length labels -> NoDup labels -> (forall l, In l labels -> (0 <= l)%Z) ->
  (forall s, In s secs -> 0 < s) ->
  length conn = fold_right plus 0 secs -> length vals = fold_right plus 0 secs -> length old = length labels ->
  forall r, r < length labels ->
    nth r (place_mean is_sum use_numba labels (idx_pit_of labels secs) conn vals old) 0%Z =
    if (0 <? rowsumZ secs (map (fun b : bool => if b then 1 else 0) conn) r)%Z
    then (if is_sum then rowsumZ secs vals r
          else rowsumZ secs vals r / rowsumZ secs (map (fun _ => 1) (idx_pit_of labels secs)) r)%Z
    else nth r old 0%Z.
Proof.
  intros Hl Hnd Hnn Hpos Hc Hv Ho r Hr.
  set (idx := idx_pit_of labels secs).
  assert (Li : length idx = fold_right plus 0 secs) by (apply idx_pit_length; auto).
  assert (Hkey : forall k, In k idx -> (0 <= k)%Z) by (intros k Hk; apply Hnn; eapply idx_pit_members; eauto).
  set (ones := map (fun _ : Z => 1%Z) idx). set (ci := map (fun b : bool => if b then 1%Z else 0%Z) conn).
  set (order := argsort labels).
  pose proof (argsort_perm labels) as Hp. pose proof (argsort_sorted labels) as Hs. fold order in Hp, Hs.
  assert (Lo : length order = length labels) by (rewrite (Permutation_length Hp); apply seq_length).
  unfold place_mean. fold idx. fold ones. fold ci. fold order.
  unfold sbg_cols_Z. cbn [snd map nth].
  rewrite !(sbg_model_order_spec 0%Z 1%Z Z.add Z.mul Z.sub Z.opp InitialRing.Zth) by
    (auto; unfold ones, ci; rewrite ?map_length; lia).
  set (S1 := snd (sbg_spec 0%Z Z.add idx ones)). set (S2 := snd (sbg_spec 0%Z Z.add idx ci)).
  set (S3 := snd (sbg_spec 0%Z Z.add idx vals)).
  assert (Hgrp : forall x, length x = fold_right plus 0 secs ->
            length (snd (sbg_spec 0%Z Z.add idx x)) = length labels /\
            forall j, j < length labels ->
              nth j (snd (sbg_spec 0%Z Z.add idx x)) 0%Z = rowsumZ secs x (nth j order 0)).
  { intros x Hx. split.
    - unfold sbg_spec. cbn [snd]. rewrite map_length. unfold idx.
      rewrite (spec_keys_sorted_labels labels secs order) by auto. unfold permute. now rewrite map_length.
    - intros j Hj.
      destruct (mean_groups_are_rows 0%Z 1%Z Z.add Z.mul Z.sub Z.opp InitialRing.Zth labels secs x order j) as [_ E];
        auto. }
  destruct (Hgrp ones ltac:(unfold ones; rewrite map_length; lia)) as [L1 G1]. fold S1 in L1, G1.
  destruct (Hgrp ci ltac:(unfold ci; rewrite map_length; lia)) as [L2 G2]. fold S2 in L2, G2.
  destruct (Hgrp vals Hv) as [L3 G3]. fold S3 in L3, G3.
  set (f := fun p : Z * Z => if is_sum then fst p else (fst p / snd p)%Z).
  set (cmask := map (fun c : Z => (0 <? c)%Z) S2).
  rewrite select_combine by lia. rewrite <- select_map_x.
  (* the row r is the group j with order[j] = r *)
  assert (Hin : In r order) by (apply (Permutation_in _ (Permutation_sym Hp)); apply in_seq; lia).
  apply In_nth with (d := 0) in Hin. destruct Hin as [j [Hj Ej]].
  rewrite (index_assign_select 0%Z cmask order (map f (combine S3 S1)) old r j).
  - unfold cmask. rewrite (nth_map_lt2 (fun c : Z => (0 <? c)%Z) S2 j false 0%Z) by lia.
    rewrite G2 by lia. rewrite Ej.
    destruct (0 <? rowsumZ secs ci r)%Z; auto.
    rewrite (nth_map_lt2 f (combine S3 S1) j 0%Z (0%Z, 0%Z)) by (rewrite combine_length; lia).
    rewrite combine_nth by lia. rewrite G3, G1 by lia. rewrite Ej. unfold f. simpl. reflexivity.
  - apply (Permutation_NoDup (Permutation_sym Hp)). apply seq_NoDup.
  - rewrite map_length, combine_length. lia.
  - intros p Hp'. apply (Permutation_in _ Hp) in Hp'. apply in_seq in Hp'. lia.
  - lia.
  - exact Ej.
Qed.

(* ------------------------------------------------------------------ relabel invariance of the structural pit *)
Lemma idx_pit_relabel rp : forall labels secs,
  idx_pit_of (map rp labels) secs = map rp (idx_pit_of labels secs).
Proof.
  unfold idx_pit_of. induction labels as [|l labels IH]; intros [|s secs]; simpl; auto.
  rewrite map_app, IH. f_equal. clear. induction s; simpl; auto. now f_equal.
Qed.

Lemma lookup_relabel_in (rj : Z -> Z) js l :
  NoDup js -> (forall a b, In a js -> In b js -> rj a = rj b -> a = b) -> In l js ->
  sget (mk_index_lookup (map rj js) 0) (rj l) = sget (mk_index_lookup js 0) l.
Proof.
  intros Hnd Hinj Hin. apply In_nth with (d := 0%Z) in Hin. destruct Hin as [k [Hk <-]].
  now apply lookup_relabel.
Qed.

(* for every relabelling that is injective on the junction labels (and any map on the table's own labels):
   FROM_NODE / TO_NODE of all sections are unchanged, ELEMENT_IDX is mapped *)
Theorem pit_relabel_invariant (rj rp : Z -> Z) js w int_start :
  NoDup js -> (forall a b, In a js -> In b js -> rj a = rj b -> a = b) ->
  (forall l, In l (w_from w) -> In l js) -> (forall l, In l (w_to w) -> In l js) ->
  snd (pit_of (map rj js) (relabel_table rj rp w) int_start) = snd (pit_of js w int_start)
  /\ fst (pit_of (map rj js) (relabel_table rj rp w) int_start) = map rp (fst (pit_of js w int_start)).
Proof.
  intros Hnd Hinj Hf Ht. unfold pit_of, relabel_table. simpl. split.
  - f_equal; rewrite map_map; apply map_ext_in; intros l Hl; apply lookup_relabel_in; auto.
  - apply idx_pit_relabel.
Qed.

(* ------------------------------------------------------------------ set_fixed_node_entries: code path = specification *)
Lemma sum_pairs_ones l : forall juncts,
  sum_pairs 0%Z Z.add l (combine juncts (map (fun _ : Z => 1%Z) juncts)) = Z.of_nat (count_occ Z.eq_dec juncts l).
Proof.
  induction juncts as [|j juncts IH]; [reflexivity|].
  change (combine (j :: juncts) (map (fun _ : Z => 1%Z) (j :: juncts))) with
    ((j, 1%Z) :: combine juncts (map (fun _ : Z => 1%Z) juncts)).
  change (sum_pairs 0%Z Z.add l ((j, 1%Z) :: combine juncts (map (fun _ : Z => 1%Z) juncts))) with
    (if (j =? l)%Z then (1 + sum_pairs 0%Z Z.add l (combine juncts (map (fun _ : Z => 1%Z) juncts)))%Z
     else sum_pairs 0%Z Z.add l (combine juncts (map (fun _ : Z => 1%Z) juncts))).
  rewrite IH. simpl count_occ.
  destruct (Z.eq_dec j l) as [E|NE]; destruct (Z.eqb_spec j l); try contradiction; lia.
Qed.

Lemma ssorted_NoDup (l : list Z) : StronglySorted Z.lt l -> NoDup l.
Proof.
  induction 1 as [|a l Hs IH Hall]; constructor; auto.
  intro Hin. rewrite Forall_forall in Hall. specialize (Hall _ Hin). lia.
Qed.

Lemma NoDup_map_inj_in {X Y} (f : X -> Y) (l : list X) :
  (forall a b, In a l -> In b l -> f a = f b -> a = b) -> NoDup l -> NoDup (map f l).
Proof.
  induction l as [|x l IH]; intros Hinj Hnd; simpl; constructor.
  - inversion Hnd; subst. intro Hin. apply in_map_iff in Hin. destruct Hin as [y [E Hy]].
    assert (y = x) by (apply Hinj; simpl; auto). subst. contradiction.
  - inversion Hnd; subst. apply IH; auto. intros; apply Hinj; simpl; auto.
Qed.

Lemma index_assign_length {V} : forall pt (W o : list V),
  (forall p, In p pt -> p < length o) -> length (index_assign pt W o) = length o.
Proof.
  induction pt as [|p pt IH]; intros W o H; [destruct W; reflexivity|].
  destruct W as [|w W]; [reflexivity|].
  change (index_assign (p :: pt) (w :: W) o) with (index_assign pt W (upd o p w)).
  rewrite IH; [apply upd_length; apply H; simpl; auto|].
  intros q Hq. rewrite upd_length by (apply H; simpl; auto). apply H. simpl; auto.
Qed.

Lemma pos_of_label js l : NoDup js -> In l js ->
  exists r, r < length js /\ nth r js 0%Z = l /\ Z.to_nat (sget (mk_index_lookup js 0) l) = r.
Proof.
  intros Hnd Hin. apply In_nth with (d := 0%Z) in Hin. destruct Hin as [r [Hr E]].
  exists r. repeat split; auto. rewrite <- E. rewrite lookup_hit by auto. simpl. now rewrite Nat2Z.id.
Qed.

(* for every duplicate-free non-negative junction labelling in any row order, any fixing junctions (with repeats) and
   numba on or off: after set_fixed_node_entries the junction in table row r holds the mean of the values given for ITS
   OWN label and the number of elements fixing it; rows of other junctions are untouched *)
Theorem fixed_code_eq_spec (use_numba : bool) js juncts vals old :
  NoDup js -> (forall l, In l js -> (0 <= l)%Z) -> (forall j, In j juncts -> In j js) ->
  length vals = length juncts -> length old = length js ->
  fixed_code use_numba js juncts vals old = fixed_spec js juncts vals old.
Proof.
  intros Hnd Hnn Hsub Hv Ho.
  unfold fixed_code, fixed_spec, sbg_cols_Z. cbn [fst snd map nth].
  assert (Hk : forall k, In k juncts -> (0 <= k)%Z) by (intros; apply Hnn, Hsub; auto).
  rewrite !(sbg_model_order_spec 0%Z 1%Z Z.add Z.mul Z.sub Z.opp InitialRing.Zth) by
    (auto; rewrite ?repeat_length, ?map_length; auto).
  unfold sbg_spec. cbn [fst snd].
  set (K := distinct_sorted juncts).
  set (pos := fun k : Z => Z.to_nat (sget (mk_index_lookup js 0) k)).
  set (cnt := fun l : Z => Z.of_nat (count_occ Z.eq_dec juncts l)).
  set (sm := fun l : Z => sum_pairs 0%Z Z.add l (combine juncts vals)).
  assert (HK : forall k, In k K <-> In k juncts) by (intros; apply distinct_sorted_in).
  assert (HKnd : NoDup K) by (apply ssorted_NoDup, distinct_sorted_sorted).
  assert (Hnum : map (fun k => sum_pairs 0%Z Z.add k (combine juncts (map (fun _ : Z => 1%Z) juncts))) K = map cnt K)
    by (apply map_ext; intros; apply sum_pairs_ones).
  rewrite Hnum. fold sm.
  assert (Hpos : forall k, In k K -> pos k < length js /\ nth (pos k) js 0%Z = k).
  { intros k Hk'. destruct (pos_of_label js k Hnd (Hsub _ (proj1 (HK k) Hk'))) as [r [Hr [E Ep]]].
    unfold pos. rewrite Ep. auto. }
  assert (Hind : NoDup (map pos K)).
  { apply NoDup_map_inj_in; auto. intros a b Ha Hb E.
    destruct (Hpos a Ha) as [_ Ea], (Hpos b Hb) as [_ Eb]. rewrite <- Ea, <- Eb, E. reflexivity. }
  assert (Hlt : forall (X : Type) (o : list X), length o = length js -> forall p, In p (map pos K) -> p < length o).
  { intros X o Lo p Hp. apply in_map_iff in Hp. destruct Hp as [k [<- Hk']]. rewrite Lo. apply Hpos; auto. }
  (* row-wise *)
  assert (Hrow : forall (W : list Z) (o : list Z) (g : Z -> Z), length o = length js -> W = map g K ->
            index_assign (map pos K) W o =
            map (fun lo : Z * Z => if (cnt (fst lo) =? 0)%Z then snd lo else g (fst lo)) (combine js o)).
  { intros W o g Lo EW. apply nth_ext with (d := 0%Z) (d' := 0%Z).
    - rewrite map_length, combine_length, Lo, Nat.min_id.
      rewrite index_assign_length by (intros p Hp; eapply Hlt; eauto). exact Lo.
    - intros r Hr.
      assert (Lia : length (index_assign (map pos K) W o) = length js).
      { rewrite index_assign_length by (intros p Hp; eapply Hlt; eauto). exact Lo. }
      rewrite Lia in Hr.
      rewrite (nth_map_lt2 _ (combine js o) r 0%Z (0%Z, 0%Z)) by (rewrite combine_length; lia).
      rewrite combine_nth by lia. cbn [fst snd].
      destruct (index_assign_nth 0%Z (map pos K) W o r Hind) as [H1 H2].
      { subst W. now rewrite !map_length. }
      { intros p Hp. eapply Hlt; eauto. }
      set (l := nth r js 0%Z).
      destruct (in_dec Z.eq_dec l juncts) as [Hin|Hnin].
      + assert (HinK : In l K) by (apply HK; auto).
        apply In_nth with (d := 0%Z) in HinK. destruct HinK as [j [Hj Ej]].
        assert (Epos : nth j (map pos K) 0 = r).
        { rewrite (nth_map_lt2 pos K j 0 0%Z) by auto. rewrite Ej.
          destruct (pos_of_label js l Hnd (Hsub _ Hin)) as [r' [Hr' [E' Ep]]]. unfold pos. rewrite Ep.
          apply (proj1 (NoDup_nth js 0%Z) Hnd); auto. }
        rewrite (H1 j) by (rewrite ?map_length; auto).
        subst W. rewrite (nth_map_lt2 g K j 0%Z 0%Z) by auto. rewrite Ej.
        assert (cnt l <> 0%Z).
        { unfold cnt. pose proof (proj1 (count_occ_In Z.eq_dec juncts l) Hin). lia. }
        destruct (Z.eqb_spec (cnt l) 0); [contradiction|reflexivity].
      + rewrite H2.
        * assert (cnt l = 0%Z) by (unfold cnt; rewrite (proj1 (count_occ_not_In Z.eq_dec juncts l) Hnin); reflexivity).
          rewrite H. reflexivity.
        * intro Hin. apply in_map_iff in Hin. destruct Hin as [k [Ek Hk']].
          destruct (Hpos k Hk') as [_ Ek']. apply Hnin. apply HK. rewrite Ek in Ek'. unfold l. rewrite Ek'. exact Hk'. }
  f_equal.
  - rewrite (Hrow _ old (fun k => (sm k / cnt k)%Z) Ho).
    + reflexivity.
    + rewrite <- (map_map (fun k => (sm k, cnt k)) (fun p : Z * Z => (fst p / snd p)%Z)).
      f_equal. clear. induction K; simpl; auto. now f_equal.
  - rewrite (Hrow (map cnt K) (map (fun _ : Z => 0%Z) old) cnt) by (rewrite ?map_length; auto).
    apply nth_ext with (d := 0%Z) (d' := 0%Z).
    + rewrite !map_length, combine_length, map_length. lia.
    + intros r Hr. rewrite map_length, combine_length, map_length in Hr.
      rewrite (nth_map_lt2 _ (combine js (map (fun _ : Z => 0%Z) old)) r 0%Z (0%Z, 0%Z)) by (rewrite combine_length, map_length; lia).
      rewrite combine_nth by (rewrite map_length; lia). cbn [fst snd].
      rewrite (nth_map_lt2 cnt js r 0%Z 0%Z) by lia.
      rewrite (nth_map_lt2 (fun _ : Z => 0%Z) old r 0%Z 0%Z) by lia.
      destruct (Z.eqb_spec (cnt (nth r js 0%Z)) 0); auto.
Qed.
