(* C06 - proofs about the lookup and grouped-sum models (all sizes, all labels). *)
From Coq Require Import ZArith List Bool Lia Ring_theory Ring Sorting.Sorted Sorting.Permutation
     Sorting.Mergesort Orders.
From PP Require Import C06.Model.
Import ListNotations.
Open Scope Z_scope.

(* ================================================================== write logs / index lookups *)
Lemma fold_get_notin (ws : list (Z * Z)) i cur :
  ~ In i (map fst ws) -> fold_left (fun c w => if fst w =? i then snd w else c) ws cur = cur.
Proof.
  revert cur. induction ws as [|[j v] r IH]; intros cur H; simpl in *; auto.
  destruct (Z.eqb_spec j i); [exfalso; apply H; auto|]. apply IH. intro; apply H; auto.
Qed.

Lemma fold_get_in (ws : list (Z * Z)) i v cur :
  NoDup (map fst ws) -> In (i, v) ws ->
  fold_left (fun c w => if fst w =? i then snd w else c) ws cur = v.
Proof.
  revert cur. induction ws as [|[j u] r IH]; intros cur Hnd Hin; simpl in *; [tauto|].
  inversion Hnd as [|? ? Hn Hr]; subst. destruct Hin as [E|Hin].
  - inversion E; subst. rewrite Z.eqb_refl. apply fold_get_notin; auto.
  - apply IH; auto.
Qed.

Lemma zrange_length n : length (zrange (Z.of_nat n)) = n.
Proof. unfold zrange. now rewrite map_length, seq_length, Nat2Z.id. Qed.

Lemma zrange_nth n k : (k < n)%nat -> nth k (zrange (Z.of_nat n)) 0 = Z.of_nat k.
Proof.
  intros H. unfold zrange. rewrite Nat2Z.id.
  change 0 with (Z.of_nat 0). rewrite map_nth. now rewrite seq_nth.
Qed.

Lemma max_list_ge l x : In x l -> x <= max_list l.
Proof. induction l; simpl; [tauto|]. intros [->|H]; [lia|]. specialize (IHl H). lia. Qed.

Lemma max_list_nonneg l : 0 <= max_list l.
Proof. induction l; simpl; lia. Qed.

Lemma map_fst_combine {X Y} (a : list X) (b : list Y) :
  length a = length b -> map fst (combine a b) = a.
Proof. revert b. induction a; destruct b; simpl; intros; try discriminate; auto. f_equal. auto. Qed.

Lemma lookup_hit idx start k :
  NoDup idx -> (k < length idx)%nat ->
  sget (mk_index_lookup idx start) (nth k idx 0) = start + Z.of_nat k.
Proof.
  intros Hnd Hk. unfold sget, mk_index_lookup; simpl.
  apply fold_get_in.
  - rewrite map_fst_combine; auto. now rewrite map_length, zrange_length.
  - set (vs := map (fun k0 => start + k0) (zrange (Z.of_nat (length idx)))).
    assert (Hl : length vs = length idx) by (unfold vs; now rewrite map_length, zrange_length).
    replace (start + Z.of_nat k) with (nth k vs 0).
    + rewrite <- (combine_nth idx vs k 0 0) by auto. apply nth_In. rewrite combine_length, Hl, Nat.min_id. exact Hk.
    + unfold vs. rewrite (nth_indep _ 0 (start + 0)) by (rewrite map_length, zrange_length; exact Hk).
      rewrite (map_nth (fun k0 => start + k0)). now rewrite zrange_nth.
Qed.

Lemma lookup_miss idx start l : ~ In l idx -> sget (mk_index_lookup idx start) l = -1.
Proof.
  intros H. unfold sget, mk_index_lookup; simpl. apply fold_get_notin.
  intro Hin. apply H. revert Hin. generalize (map (fun k => start + k) (zrange (Z.of_nat (length idx)))).
  induction idx as [|a r IH]; intros vs Hin; simpl in *; [tauto|].
  destruct vs; simpl in *; [tauto|]. destruct Hin; auto. right. eapply IH; [|eauto]. tauto.
Qed.

Lemma lookup_len idx start l :
  (forall x, In x idx -> 0 <= x) -> In l idx -> 0 <= l < alen (mk_index_lookup idx start).
Proof.
  intros Hpos Hin. unfold mk_index_lookup; simpl. destruct idx; [inversion Hin|].
  pose proof (max_list_ge _ _ Hin). specialize (Hpos _ Hin). lia.
Qed.

(* relabelling: the position found for a label does not depend on the label values *)
Lemma lookup_relabel (rho : Z -> Z) idx start k :
  NoDup idx -> (forall a b, In a idx -> In b idx -> rho a = rho b -> a = b) -> (k < length idx)%nat ->
  sget (mk_index_lookup (map rho idx) start) (rho (nth k idx 0)) =
  sget (mk_index_lookup idx start) (nth k idx 0).
Proof.
  intros Hnd Hinj Hk. rewrite lookup_hit by auto.
  replace (rho (nth k idx 0)) with (nth k (map rho idx) 0).
  - rewrite lookup_hit; auto; [|now rewrite map_length].
    clear Hk. induction idx as [|a r IH]; simpl; constructor.
    + inversion Hnd; subst. intro Hin. apply in_map_iff in Hin. destruct Hin as [b [Hb Hin]].
      assert (b = a) by (apply Hinj; simpl; auto). subst. contradiction.
    + inversion Hnd; subst. apply IH; auto. intros; apply Hinj; simpl; auto.
  - rewrite (nth_indep _ 0 (rho 0)) by (now rewrite map_length). apply map_nth.
Qed.

(* ================================================================== get_internal_lookup_structure *)
Lemma cumsum_z_length a l : length (cumsum_z a l) = length l.
Proof. revert a. induction l; simpl; auto. Qed.

Lemma cumsum_z_nth a l k : (k < length l)%nat ->
  nth k (cumsum_z a l) 0 = a + sumz (firstn (S k) l).
Proof.
  revert a k. induction l as [|x r IH]; intros a k H; [simpl in H; lia|].
  destruct k.
  - simpl. lia.
  - change (nth (S k) (cumsum_z a (x :: r)) 0) with (nth k (cumsum_z (a + x) r) 0).
    rewrite IH by (simpl in H; lia).
    change (firstn (S (S k)) (x :: r)) with (x :: firstn (S k) r).
    change (sumz (x :: firstn (S k) r)) with (x + sumz (firstn (S k) r)). lia.
Qed.

Lemma sumz_firstn_S l : forall k, sumz (firstn (S k) l) = sumz (firstn k l) + nth k l 0.
Proof.
  induction l as [|x r IH]; intros k.
  - destruct k; reflexivity.
  - destruct k.
    + simpl. lia.
    + change (firstn (S (S k)) (x :: r)) with (x :: firstn (S k) r).
      change (firstn (S k) (x :: r)) with (x :: firstn k r).
      change (nth (S k) (x :: r) 0) with (nth k r 0).
      specialize (IH k). unfold sumz in *. cbn [fold_right]. lia.
Qed.

Lemma internal_structure_nth counts start k : (k < length counts)%nat ->
  nth k (internal_structure counts start) (0, 0) =
  (start + sumz (firstn k counts), start + sumz (firstn k counts) + nth k counts 0 - 1).
Proof.
  intros H. unfold internal_structure.
  set (f := fun ce : Z * Z => let e := snd ce - 1 + start in (e - (fst ce - 1), e)).
  rewrite (nth_indep _ (0, 0) (f (0, 0))) by
      (rewrite map_length, combine_length, cumsum_z_length; lia).
  rewrite map_nth, combine_nth by (now rewrite cumsum_z_length).
  rewrite cumsum_z_nth by auto. unfold f; cbn [fst snd].
  pose proof (sumz_firstn_S counts k) as E.
  rewrite E. f_equal; lia.
Qed.

(* ================================================================== strictly sorted lists *)
Lemma ssorted_unique (l1 l2 : list Z) :
  StronglySorted Z.lt l1 -> StronglySorted Z.lt l2 -> (forall x, In x l1 <-> In x l2) -> l1 = l2.
Proof.
  revert l2. induction l1 as [|a r IH]; intros l2 H1 H2 Hm.
  - destruct l2; auto. exfalso. apply (Hm z). simpl; auto.
  - destruct l2 as [|b s]. { exfalso. apply (Hm a). simpl; auto. }
    inversion H1 as [|? ? Hr Ha]; subst. inversion H2 as [|? ? Hs Hb]; subst.
    rewrite Forall_forall in Ha, Hb.
    assert (a = b).
    { destruct (proj1 (Hm a) (or_introl eq_refl)) as [->|Hin]; auto.
      destruct (proj2 (Hm b) (or_introl eq_refl)) as [->|Hin2]; auto.
      specialize (Ha _ Hin2). specialize (Hb _ Hin). lia. }
    subst b. f_equal. apply IH; auto. intros x. split; intros Hx.
    + destruct (proj1 (Hm x) (or_intror Hx)) as [->|]; auto. specialize (Ha _ Hx). lia.
    + destruct (proj2 (Hm x) (or_intror Hx)) as [->|]; auto. specialize (Hb _ Hx). lia.
Qed.

Lemma ins_dedup_in x l y : In y (ins_dedup x l) <-> y = x \/ In y l.
Proof.
  induction l as [|a r IH]; simpl; [intuition|].
  destruct (Z.ltb_spec x a); simpl; [intuition|].
  destruct (Z.eqb_spec x a); simpl; [subst; intuition|]. rewrite IH. intuition.
Qed.

Lemma ins_dedup_sorted x l : StronglySorted Z.lt l -> StronglySorted Z.lt (ins_dedup x l).
Proof.
  induction l as [|a r IH]; intros H; simpl.
  - repeat constructor.
  - inversion H as [|? ? Hr Ha]; subst. rewrite Forall_forall in Ha.
    destruct (Z.ltb_spec x a).
    + constructor; auto. constructor; [lia|]. apply Forall_forall. intros y Hy. specialize (Ha _ Hy). lia.
    + destruct (Z.eqb_spec x a); auto. constructor; auto.
      apply Forall_forall. intros y Hy. apply ins_dedup_in in Hy. destruct Hy as [->|Hy]; [lia|auto].
Qed.

Lemma distinct_sorted_in ks y : In y (distinct_sorted ks) <-> In y ks.
Proof. induction ks; simpl; [tauto|]. rewrite ins_dedup_in, IHks. intuition. Qed.

Lemma distinct_sorted_sorted ks : StronglySorted Z.lt (distinct_sorted ks).
Proof. induction ks; simpl; [constructor|]. now apply ins_dedup_sorted. Qed.

Lemma select_in {X} m (xs : list X) y : In y (select m xs) -> In y xs.
Proof.
  revert xs. induction m as [|b mr IH]; intros xs H; simpl in *; [tauto|].
  destruct xs; [tauto|]. destruct b; simpl in *; [destruct H; auto|]; right; auto.
Qed.

(* ================================================================== grouped sums *)
Section SBGP.
  Context {A : Type} (zero one : A) (add mul sub : A -> A -> A) (opp : A -> A)
          (Rth : ring_theory zero one add mul sub opp eq).
  Add Ring Aring : Rth.

  Notation sum_pairs := (sum_pairs zero add).
  Notation seg := (seg zero add).
  Notation segsum := (segsum zero add).
  Notation sbg_sorted := (sbg_sorted zero add).
  Notation sbg_np := (sbg_np zero add).
  Notation sbg_bucket := (sbg_bucket zero add).
  Notation sbg_spec := (sbg_spec zero add).

  (* group sums in one pass, carrying the partial sum of the current group *)
  Fixpoint gsum (acc : A) (ks : list Z) (vs : list A) : list A :=
    match ks, vs with
    | k :: kr, v :: vr =>
        match kr with
        | [] => [add acc v]
        | k' :: _ => if k' =? k then gsum (add acc v) kr vr else add acc v :: gsum zero kr vr
        end
    | _, _ => []
    end.

  (* the segment sums over the first-of-group mask are the one-pass group sums *)
  Lemma seg_gsum kr : forall k v vr acc, length vr = length kr ->
    gsum acc (k :: kr) (v :: vr) = add (add acc v) (fst (seg (fmask_from k kr) vr)) :: snd (seg (fmask_from k kr) vr).
  Proof.
    induction kr as [|k' kr' IH]; intros k v vr acc Hl.
    - destruct vr; [|discriminate]. simpl. f_equal. ring.
    - destruct vr as [|v' vr']; [discriminate|]. simpl in Hl.
      change (gsum acc (k :: k' :: kr') (v :: v' :: vr')) with
        (if k' =? k then gsum (add acc v) (k' :: kr') (v' :: vr') else add acc v :: gsum zero (k' :: kr') (v' :: vr')).
      change (fmask_from k (k' :: kr')) with (negb (k' =? k) :: fmask_from k' kr').
      change (Model.seg zero add (negb (k' =? k) :: fmask_from k' kr') (v' :: vr')) with
        (let r := seg (fmask_from k' kr') vr' in
         if negb (k' =? k) then (zero, add v' (fst r) :: snd r) else (add v' (fst r), snd r)).
      cbv zeta. destruct (Z.eqb_spec k' k); cbn [negb fst snd].
      + rewrite IH by lia. f_equal. ring.
      + rewrite IH by lia. f_equal; [ring|]. f_equal. ring.
  Qed.

  Lemma segsum_gsum ks vs : length vs = length ks -> segsum (fmask ks) vs = gsum zero ks vs.
  Proof.
    intros Hl. destruct ks as [|k kr]; destruct vs as [|v vr]; try discriminate; [reflexivity|].
    simpl in Hl. rewrite seg_gsum by lia. unfold Model.segsum, fmask.
    change (Model.seg zero add (true :: fmask_from k kr) (v :: vr)) with
      (zero, add v (fst (seg (fmask_from k kr) vr)) :: snd (seg (fmask_from k kr) vr)).
    cbn [snd]. f_equal. ring.
  Qed.

  Lemma sum_pairs_cons k j v (l : list (Z * A)) :
    sum_pairs k ((j, v) :: l) = if j =? k then add v (sum_pairs k l) else sum_pairs k l.
  Proof. reflexivity. Qed.

  Lemma sum_pairs_none k (l : list (Z * A)) : (forall kv, In kv l -> fst kv <> k) -> sum_pairs k l = zero.
  Proof.
    induction l as [|[j v] r IH]; intros H; simpl; auto.
    destruct (Z.eqb_spec j k); [exfalso; apply (H (j, v)); simpl; auto|]. apply IH. intros; apply H; simpl; auto.
  Qed.

  Lemma in_combine_fst {X Y} (a : list X) (b : list Y) p : In p (combine a b) -> In (fst p) a.
  Proof. destruct p. apply in_combine_l. Qed.

  (* head of the distinct keys of a sorted list *)
  Lemma select_gmask_head k kr : exists dr, select (gmask (k :: kr)) (k :: kr) = k :: dr
    \/ (exists k' kr', kr = k' :: kr' /\ k' = k /\ select (gmask (k :: kr)) (k :: kr) = select (gmask kr) kr).
  Proof.
    destruct kr as [|k' kr']; simpl.
    - exists []. auto.
    - destruct (Z.eqb_spec k' k); simpl.
      + exists []. right. exists k', kr'. auto.
      + eexists. left. reflexivity.
  Qed.

  Lemma sorted_head_le k l : Sorted Z.le (k :: l) -> forall x, In x l -> k <= x.
  Proof.
    intros H. apply Sorted_StronglySorted in H; [|intros ? ? ?; lia].
    inversion H; subst. now apply Forall_forall.
  Qed.

  Lemma gsum_spec ks : forall vs acc, Sorted Z.le ks -> length vs = length ks ->
    gsum acc ks vs =
    match select (gmask ks) ks with
    | [] => []
    | d :: dr => add acc (sum_pairs d (combine ks vs)) :: map (fun k => sum_pairs k (combine ks vs)) dr
    end
    /\ (forall k kr, ks = k :: kr -> exists dr, select (gmask ks) ks = k :: dr /\ forall x, In x dr -> k < x).
  Proof.
    induction ks as [|k kr IH]; intros vs acc Hs Hl.
    - split; [reflexivity|]. intros; discriminate.
    - destruct vs as [|v vr]; [discriminate|]. simpl in Hl.
      assert (Hs' : Sorted Z.le kr) by (inversion Hs; auto).
      pose proof (sorted_head_le _ _ Hs) as Hle.
      destruct kr as [|k' kr'].
      + destruct vr; [|discriminate]. simpl. rewrite Z.eqb_refl. split.
        * f_equal. ring.
        * intros k0 kr0 E. inversion E; subst. exists []. split; auto. intros ? [].
      + destruct (IH vr (add acc v) Hs' ltac:(lia)) as [IH1 IH2].
        destruct (IH2 k' kr' eq_refl) as [dr [Hd Hgt]].
        change (gsum acc (k :: k' :: kr') (v :: vr)) with
          (if k' =? k then gsum (add acc v) (k' :: kr') vr else add acc v :: gsum zero (k' :: kr') vr).
        change (select (gmask (k :: k' :: kr')) (k :: k' :: kr')) with
          (if negb (k' =? k) then k :: select (gmask (k' :: kr')) (k' :: kr')
           else select (gmask (k' :: kr')) (k' :: kr')).
        change (combine (k :: k' :: kr') (v :: vr)) with ((k, v) :: combine (k' :: kr') vr).
        destruct (Z.eqb_spec k' k) as [E|NE]; simpl negb; cbv iota.
        * subst k'. rewrite IH1, Hd. split.
          -- f_equal.
             ++ rewrite sum_pairs_cons, Z.eqb_refl. ring.
             ++ apply map_ext_in. intros x Hx. specialize (Hgt _ Hx). rewrite sum_pairs_cons.
                destruct (Z.eqb_spec k x); [lia|]. reflexivity.
          -- intros k0 kr0 E0. inversion E0; subst. exists dr. auto.
        * assert (k < k') by (specialize (Hle k' (or_introl eq_refl)); lia).
          destruct (IH vr zero Hs' ltac:(lia)) as [IH0 _]. rewrite IH0, Hd. split.
          -- f_equal.
             ++ rewrite sum_pairs_cons, Z.eqb_refl.
                rewrite sum_pairs_none; [ring|].
                intros kv Hin. apply in_combine_fst in Hin.
                pose proof (sorted_head_le _ _ Hs') as Hle'.
                destruct Hin as [E|Hin]; [lia|]. specialize (Hle' _ Hin). lia.
             ++ cbn [map]; cbv beta. f_equal.
                ** rewrite sum_pairs_cons. destruct (Z.eqb_spec k k'); [lia|]. ring.
                ** apply map_ext_in. intros x Hx. specialize (Hgt _ Hx). rewrite sum_pairs_cons.
                   destruct (Z.eqb_spec k x); [lia|]. reflexivity.
          -- intros k0 kr0 E0. inversion E0; subst. eexists. split; [reflexivity|].
             intros x [<-|Hx]; [lia|]. specialize (Hgt _ Hx). lia.
  Qed.

  Lemma select_gmask_ssorted ks : Sorted Z.le ks -> StronglySorted Z.lt (select (gmask ks) ks).
  Proof.
    induction ks as [|k kr IH]; intros Hs; [constructor|].
    assert (Hs' : Sorted Z.le kr) by (inversion Hs; auto).
    pose proof (sorted_head_le _ _ Hs) as Hle.
    destruct kr as [|k' kr']; [simpl; repeat constructor|].
    change (select (gmask (k :: k' :: kr')) (k :: k' :: kr')) with
      (if negb (k' =? k) then k :: select (gmask (k' :: kr')) (k' :: kr')
       else select (gmask (k' :: kr')) (k' :: kr')).
    destruct (Z.eqb_spec k' k); simpl negb; cbv iota; auto.
    constructor; auto. apply Forall_forall. intros x Hx. apply select_in in Hx.
    pose proof (Hle k' (or_introl eq_refl)). pose proof (sorted_head_le _ _ Hs') as Hle'.
    destruct Hx as [<-|Hx]; [lia|]. specialize (Hle' _ Hx). lia.
  Qed.

  Lemma select_gmask_in ks x : In x ks -> In x (select (gmask ks) ks).
  Proof.
    induction ks as [|k kr IH]; intros H; [inversion H|].
    destruct kr as [|k' kr']; [simpl in *; tauto|].
    change (select (gmask (k :: k' :: kr')) (k :: k' :: kr')) with
      (if negb (k' =? k) then k :: select (gmask (k' :: kr')) (k' :: kr')
       else select (gmask (k' :: kr')) (k' :: kr')).
    destruct (Z.eqb_spec k' k); simpl negb; cbv iota.
    - destruct H as [<-|H]; [subst; apply IH; simpl; auto|auto].
    - destruct H as [<-|H]; simpl; auto.
  Qed.

  (* _sum_by_group_sorted on sorted keys = specification *)
  Theorem sbg_sorted_spec ks vs : Sorted Z.le ks -> length vs = length ks ->
    sbg_sorted ks vs = sbg_spec ks vs.
  Proof.
    intros Hs Hl. unfold Model.sbg_sorted, Model.sbg_spec.
    assert (Hk : select (gmask ks) ks = distinct_sorted ks).
    { apply ssorted_unique.
      - now apply select_gmask_ssorted.
      - apply distinct_sorted_sorted.
      - intros x. rewrite distinct_sorted_in. split; [apply select_in|apply select_gmask_in]. }
    f_equal; auto.
    rewrite segsum_gsum by auto.
    destruct (gsum_spec ks vs zero Hs Hl) as [E _]. rewrite E, <- Hk.
    destruct (select (gmask ks) ks); simpl; auto. f_equal. ring.
  Qed.

  (* the per-key sums do not depend on the order of the (key, value) pairs *)
  Lemma sum_pairs_perm k (l1 l2 : list (Z * A)) : Permutation l1 l2 -> sum_pairs k l1 = sum_pairs k l2.
  Proof.
    induction 1; simpl; auto.
    - now rewrite IHPermutation.
    - destruct (fst y =? k), (fst x =? k); auto. ring.
    - congruence.
  Qed.

  Lemma combine_permute {X Y} (dx : X) (dy : Y) order (xs : list X) (ys : list Y) :
    combine (permute dx order xs) (permute dy order ys) = map (fun i => (nth i xs dx, nth i ys dy)) order.
  Proof. unfold permute. induction order; simpl; auto. now f_equal. Qed.

  Lemma combine_as_map {X Y} (dx : X) (dy : Y) (xs : list X) (ys : list Y) : length ys = length xs ->
    map (fun i => (nth i xs dx, nth i ys dy)) (seq 0 (length xs)) = combine xs ys.
  Proof.
    revert ys. induction xs as [|x r IH]; intros ys H; destruct ys; simpl in *; try discriminate; auto.
    f_equal. rewrite <- seq_shift, map_map. apply IH. lia.
  Qed.

  Lemma map_nth_seq_own {X} (d : X) (xs : list X) : map (fun i => nth i xs d) (seq 0 (length xs)) = xs.
  Proof.
    induction xs as [|x r IH]; simpl; auto. f_equal. rewrite <- seq_shift, map_map. exact IH.
  Qed.

  Lemma spec_perm ks vs order : Permutation order (seq 0 (length ks)) -> length vs = length ks ->
    sbg_spec (permute 0 order ks) (permute zero order vs) = sbg_spec ks vs.
  Proof.
    intros Hp Hl. unfold Model.sbg_spec.
    assert (Hc : Permutation (combine (permute 0 order ks) (permute zero order vs)) (combine ks vs)).
    { rewrite combine_permute. rewrite <- (combine_as_map 0 zero ks vs Hl). now apply Permutation_map. }
    assert (Hk : distinct_sorted (permute 0 order ks) = distinct_sorted ks).
    { apply ssorted_unique; try apply distinct_sorted_sorted.
      intros x. rewrite !distinct_sorted_in.
      assert (Hpk : Permutation (permute 0 order ks) ks).
      { unfold permute. eapply Permutation_trans; [apply Permutation_map; exact Hp|].
        rewrite map_nth_seq_own. apply Permutation_refl. }
      split; apply Permutation_in; [auto|now apply Permutation_sym]. }
    rewrite Hk. f_equal. apply map_ext. intros k. now apply sum_pairs_perm.
  Qed.

  (* _sum_by_group_np for whatever order argsort returns (stable or not) = specification *)
  Theorem sbg_np_spec order ks vs :
    Permutation order (seq 0 (length ks)) -> Sorted Z.le (permute 0 order ks) -> length vs = length ks ->
    sbg_np order ks vs = sbg_spec ks vs.
  Proof.
    intros Hp Hs Hl. unfold Model.sbg_np. rewrite sbg_sorted_spec; auto.
    - now apply spec_perm.
    - unfold permute. rewrite !map_length. reflexivity.
  Qed.

  (* _sum_values_by_index (bucket accumulation) = specification, for non-negative keys *)
  Lemma bucket_fold l : forall st j,
    snd (fold_left (bucket_step add) l st) j = add (snd st j) (sum_pairs (j - 1) l)
    /\ fst (fold_left (bucket_step add) l st) j = (if existsb (fun kv => fst kv + 1 =? j) l then j else fst st j).
  Proof.
    induction l as [|[k v] r IH]; intros st j; simpl.
    - split; [ring|reflexivity].
    - destruct (IH (bucket_step add st (k, v)) j) as [E1 E2]. rewrite E1, E2. unfold bucket_step; simpl. split.
      + destruct (Z.eqb_spec j (k + 1)), (Z.eqb_spec k (j - 1)); try lia; ring.
      + destruct (existsb (fun kv => fst kv + 1 =? j) r); [now rewrite orb_true_r|].
        rewrite orb_false_r. destruct (Z.eqb_spec j (k + 1)), (Z.eqb_spec (k + 1) j); try lia; auto.
  Qed.

  Lemma zrange_ssorted n : StronglySorted Z.lt (zrange n).
  Proof.
    unfold zrange. generalize (Z.to_nat n) as m. intros m. generalize 0%nat as s.
    induction m; intros s; simpl; constructor; auto.
    apply Forall_forall. intros x Hx. apply in_map_iff in Hx. destruct Hx as [y [<- Hy]].
    apply in_seq in Hy. lia.
  Qed.

  Lemma zrange_in n x : In x (zrange n) <-> 0 <= x < n.
  Proof.
    unfold zrange. rewrite in_map_iff. split.
    - intros [y [<- Hy]]. apply in_seq in Hy. lia.
    - intros H. exists (Z.to_nat x). split; [lia|]. apply in_seq. lia.
  Qed.

  Lemma filter_ssorted (P : Z -> bool) l : StronglySorted Z.lt l -> StronglySorted Z.lt (filter P l).
  Proof.
    induction 1; simpl; [constructor|]. destruct (P a); auto. constructor; auto.
    rewrite Forall_forall in *. intros x Hx. apply filter_In in Hx. apply H0. tauto.
  Qed.

  Lemma map_pred_ssorted l : StronglySorted Z.lt l -> StronglySorted Z.lt (map (fun j => j - 1) l).
  Proof.
    induction 1; simpl; constructor; auto.
    rewrite Forall_forall in *. intros x Hx. apply in_map_iff in Hx. destruct Hx as [y [<- Hy]].
    specialize (H0 _ Hy). lia.
  Qed.

  Theorem sbg_bucket_spec ks vs : (forall k, In k ks -> 0 <= k) -> length vs = length ks ->
    sbg_bucket ks vs = sbg_spec ks vs.
  Proof.
    intros Hpos Hl. unfold Model.sbg_bucket, Model.sbg_spec.
    set (st := fold_left (bucket_step add) (combine ks vs) (fun _ => 0, fun _ => zero)).
    set (pos := filter (fun j => 0 <? fst st j) (zrange (max_list ks + 2))).
    assert (Hfst : forall j, fst st j = if existsb (fun kv => fst kv + 1 =? j) (combine ks vs) then j else 0).
    { intros j. unfold st. now destruct (bucket_fold (combine ks vs) (fun _ => 0, fun _ => zero) j). }
    assert (Hsnd : forall j, snd st j = sum_pairs (j - 1) (combine ks vs)).
    { intros j. unfold st. destruct (bucket_fold (combine ks vs) (fun _ => 0, fun _ => zero) j) as [E _].
      rewrite E. simpl. ring. }
    assert (Hex : forall j, existsb (fun kv => fst kv + 1 =? j) (combine ks vs) = true <-> In (j - 1) ks).
    { intros j. rewrite existsb_exists. split.
      - intros [kv [Hin E]]. apply Z.eqb_eq in E. apply in_combine_fst in Hin.
        replace (j - 1) with (fst kv) by lia. auto.
      - intros Hin. apply In_nth with (d := 0) in Hin. destruct Hin as [i [Hi E]].
        exists (nth i ks 0, nth i vs zero). split.
        + rewrite <- combine_nth by auto. apply nth_In. rewrite combine_length. lia.
        + simpl. apply Z.eqb_eq. lia. }
    assert (Hpos_in : forall j, In j pos <-> In (j - 1) ks).
    { intros j. unfold pos. rewrite filter_In, zrange_in, Hfst. split.
      - intros [_ H]. destruct (existsb _ _) eqn:E; [now apply Hex|discriminate].
      - intros H. pose proof (Hpos _ H). pose proof (max_list_ge _ _ H).
        rewrite (proj2 (Hex j) H). split; [lia|]. apply Z.ltb_lt. lia. }
    assert (Hkeys : map (fun j => fst st j - 1) pos = distinct_sorted ks).
    { rewrite (map_ext_in _ (fun j => j - 1)).
      - apply ssorted_unique.
        + apply map_pred_ssorted. unfold pos. apply filter_ssorted, zrange_ssorted.
        + apply distinct_sorted_sorted.
        + intros x. rewrite distinct_sorted_in, in_map_iff. split.
          * intros [j [<- Hj]]. now apply Hpos_in.
          * intros H. exists (x + 1). split; [lia|]. apply Hpos_in. now replace (x + 1 - 1) with x by lia.
      - intros j Hj. rewrite Hfst. apply Hpos_in in Hj. now rewrite (proj2 (Hex j) Hj). }
    f_equal; auto.
    rewrite <- Hkeys, map_map. apply map_ext_in. intros j Hj. rewrite Hsnd.
    f_equal. rewrite Hfst. apply Hpos_in in Hj. now rewrite (proj2 (Hex j) Hj).
  Qed.
End SBGP.

(* ================================================================== argsort model is a valid order *)
Lemma map_snd_combine {X Y} (a : list X) (b : list Y) :
  length a = length b -> map snd (combine a b) = b.
Proof. revert b. induction a; destruct b; simpl; intros; try discriminate; auto. f_equal. auto. Qed.

Lemma argsort_perm ks : Permutation (argsort ks) (seq 0 (length ks)).
Proof.
  unfold argsort. apply Permutation_sym.
  rewrite <- (map_snd_combine ks (seq 0 (length ks))) at 1 by (now rewrite seq_length).
  apply Permutation_map, KPSort.Permuted_sort.
Qed.

Lemma argsort_sorted ks : Sorted Z.le (permute 0 (argsort ks) ks).
Proof.
  unfold argsort, permute. rewrite map_map.
  set (S := KPSort.sort (combine ks (seq 0 (length ks)))).
  assert (Hin : forall p, In p S -> nth (snd p) ks 0 = fst p).
  { intros p Hp. apply (Permutation_in _ (Permutation_sym (KPSort.Permuted_sort _))) in Hp.
    apply In_nth with (d := (0, 0%nat)) in Hp. destruct Hp as [i [Hi E]].
    rewrite combine_length, seq_length, Nat.min_id in Hi.
    rewrite combine_nth in E by (now rewrite seq_length). subst p. simpl. now rewrite seq_nth. }
  pose proof (KPSort.Sorted_sort (combine ks (seq 0 (length ks)))) as Hs. fold S in Hs.
  rewrite (map_ext_in _ fst) by exact Hin. clear Hin.
  induction Hs as [|p l Hs IH Hhd]; simpl; constructor; auto.
  destruct Hhd; simpl; constructor. unfold is_true in H. now apply Z.leb_le.
Qed.

(* _sum_by_group: every dispatch outcome equals the specification (any ring, any non-negative keys) *)
Section SBGAll.
  Context {A : Type} (zero one : A) (add mul sub : A -> A -> A) (opp : A -> A)
          (Rth : ring_theory zero one add mul sub opp eq).

  Theorem sbg_all_paths_spec (use_numba numba_installed : bool) order ks vs :
    Permutation order (seq 0 (length ks)) -> Sorted Z.le (permute 0 order ks) ->
    (forall k, In k ks -> 0 <= k) -> length vs = length ks ->
    sbg zero add use_numba numba_installed order ks vs = sbg_spec zero add ks vs.
  Proof.
    intros Hp Hs Hpos Hl. unfold sbg.
    destruct (use_numba && numba_installed).
    - destruct ks as [|k kr].
      + destruct vs; [reflexivity|discriminate].
      + destruct (bucket_cond (k :: kr)).
        * eapply sbg_bucket_spec; eauto.
        * eapply sbg_np_spec; eauto.
    - eapply sbg_np_spec; eauto.
  Qed.

  Corollary sbg_model_order_spec (use_numba numba_installed : bool) ks vs :
    (forall k, In k ks -> 0 <= k) -> length vs = length ks ->
    sbg zero add use_numba numba_installed (argsort ks) ks vs = sbg_spec zero add ks vs.
  Proof. intros. apply sbg_all_paths_spec; auto using argsort_perm, argsort_sorted. Qed.
End SBGAll.
