(* C05 - hand-written executable model (definitions only, no proofs) of the Newton driver of
   pandapipes/pipeflow.py: newton_raphson, finalize_iteration, set_damping_factor, the stage
   functions hydraulics / heat_transfer / bidirectional and the control flow of pipeflow.

   Ties (tools/props/c05.py):
   H  the real newton_raphson is driven with scripted solve functions replaying generated
      (new, old) vectors; (converged, niter, alpha, error history, restored variables) are
      compared inside Coq with [newton_v];  pipeflow on real nets vs [pipeflow].
   T  Gen/StageWiring.v (regenerated from pipeflow.py on every run) carries, per stage, the names /
      tolerances / pit names handed to newton_raphson, the (new, old) pairs returned by the stage's
      solve function and the statement skeleton of the stage and of pipeflow.               *)
From Coq Require Import String Ascii QArith Qabs List Bool ZArith Lia.
Import ListNotations.

(* ------------------------------------------------------------------------------------------ *)
(* floats that may be non-finite: exact rationals + inf + NaN, IEEE comparisons (any comparison
   with NaN is false - what numpy does and what the convergence test relies on)               *)
Inductive fl := Fin (q : Q) | PInf | NInf | NaN.

Definition fle (a b : fl) : bool :=            (* a <= b *)
  match a, b with
  | NaN, _ | _, NaN => false
  | NInf, _ => true
  | _, PInf => true
  | Fin x, Fin y => Qle_bool x y
  | _, _ => false
  end.

Definition flt (a b : fl) : bool :=            (* a < b *)
  match a, b with
  | NaN, _ | _, NaN => false
  | NInf, NInf => false
  | NInf, _ => true
  | PInf, _ => false
  | Fin _, PInf => true
  | Fin x, Fin y => negb (Qle_bool y x)
  | Fin _, NInf => false
  end.

Definition fgt (a b : fl) : bool := flt b a.
Definition fge (a b : fl) : bool := fle b a.

Definition fsub (a b : fl) : fl :=
  match a, b with
  | NaN, _ | _, NaN => NaN
  | Fin x, Fin y => Fin (x - y)
  | PInf, PInf | NInf, NInf => NaN
  | PInf, _ => PInf
  | NInf, _ => NInf
  | Fin _, PInf => NInf
  | Fin _, NInf => PInf
  end.

Definition fabs (a : fl) : fl :=
  match a with Fin x => Fin (Qabs x) | NInf => PInf | x => x end.

Definition feq (a b : fl) : bool :=            (* identity of values (NaN = NaN), for comparisons *)
  match a, b with
  | Fin x, Fin y => Qeq_bool x y
  | PInf, PInf | NInf, NInf | NaN, NaN => true
  | _, _ => false
  end.

(* alpha * x for a rational alpha (the damping factor) *)
Definition fscale (a : Q) (x : fl) : fl :=
  match x with
  | Fin q => Fin (a * q)
  | NaN => NaN
  | PInf => if Qle_bool a 0 then (if Qle_bool 0 a then NaN else NInf) else PInf
  | NInf => if Qle_bool a 0 then (if Qle_bool 0 a then NaN else PInf) else NInf
  end.

(* np.max of a float64 array: NaN if any entry is NaN *)
Definition nanmax2 (acc x : fl) : fl :=
  match acc, x with
  | NaN, _ | _, NaN => NaN
  | _, _ => if fge acc x then acc else x
  end.
Definition reduce (f : fl -> fl -> fl) (l : list fl) : fl :=
  match l with [] => Fin 0 | h :: t => fold_left f t h end.

Fixpoint map2 {A B C} (f : A -> B -> C) (a : list A) (b : list B) : list C :=
  match a, b with x :: a', y :: b' => f x y :: map2 f a' b' | _, _ => [] end.

(* dval = np.asarray(val_new, float64) - np.asarray(val_old, float64)
   errors[var].append(np.max(np.abs(dval)) if len(dval) else 0)      - float rows for any shape *)
Definition err_of (pr : list fl * list fl) : fl :=
  reduce nanmax2 (map fabs (map2 fsub (fst pr) (snd pr))).

(* ------------------------------------------------------------------------------------------ *)
Inductive method := Automatic | Constant | OtherMethod.   (* OtherMethod: warning, then as constant *)

Record config := {
  c_max_iter : nat;
  c_meth : method;
  c_nvars : nat;             (* len(solver_vars) *)
  c_tols : list fl;
  c_tol_res : fl;
  c_nrestore : nat           (* min(len(pit_names), len(filtered)) *)
}.

(* what one call of funct(net) lets the driver see *)
Record obs := { o_errs : list fl; o_res : fl }.

Record state := {
  s_niter : nat;
  s_conv : bool;
  s_alpha : Q;
  s_hist : list (list fl);       (* errors per iteration, latest first *)
  s_rest : list (list bool)      (* per iteration: which variables were reset to their old value *)
}.

(* set_damping_factor: error[niter] > error[niter - 1]; at niter = 0 index -1 is the entry itself *)
Definition increased (cur prev : list fl) : list bool := map2 fgt cur prev.
Definition all_true (l : list bool) : bool := forallb (fun b => b) l.

Definition damp (a : Q) (all_inc : bool) : Q :=
  if all_inc then (if Qle_bool (1 # 10) a then Qred (a / (10 # 1)) else a)
  else (if Qle_bool a (1 # 10) then Qred (a * (10 # 1)) else 1).

Definition errs_ok (errs tols : list fl) : bool := forallb (fun p => fle (fst p) (snd p)) (combine errs tols).

Definition tol_test (cfg : config) (o : obs) : bool :=
  errs_ok (o_errs o) (c_tols cfg) && fle (o_res o) (c_tol_res cfg).

(* finalize_iteration -> (net.converged, alpha, restored flags) *)
Definition finalize (cfg : config) (o : obs) (st : state) : bool * Q * list bool :=
  match c_meth cfg with
  | Automatic =>
      let prev := match s_hist st with [] => o_errs o | p :: _ => p end in
      let inc := increased (o_errs o) prev in
      let a := damp (s_alpha st) (all_true inc) in
      let rest := firstn (c_nrestore cfg) inc in
      if negb (Qeq_bool a 1) then (false, a, rest) else (tol_test cfg o, a, rest)
  | _ => (tol_test cfg o, s_alpha st, [])
  end.

Definition step (cfg : config) (o : obs) (st : state) : state :=
  let '(c, a, r) := finalize cfg o st in
  {| s_niter := S (s_niter st); s_conv := c; s_alpha := a;
     s_hist := o_errs o :: s_hist st; s_rest := r :: s_rest st |}.

(* while not net.converged and niter < max_iter: structural recursion on the remaining budget;
   the observation may depend on everything that happened before (arbitrary oracle)            *)
Fixpoint nr_loop (fuel : nat) (cfg : config) (orc : state -> obs) (st : state) : state :=
  match fuel with
  | O => st
  | S f => if s_conv st then st else nr_loop f cfg orc (step cfg (orc st) st)
  end.

Definition init_state (conv0 : bool) (alpha0 : Q) : state :=
  {| s_niter := 0; s_conv := conv0; s_alpha := alpha0; s_hist := []; s_rest := [] |}.

Definition newton (cfg : config) (orc : state -> obs) (conv0 : bool) (alpha0 : Q) : state :=
  nr_loop (c_max_iter cfg) cfg orc (init_state conv0 alpha0).

(* ---- vector level: what the solve function returns ---- *)
Record vobs := { v_pairs : list (list fl * list fl); v_res : fl }.

(* pos = arange(2 * len(solver_vars)): only the first len(solver_vars) pairs are looked at *)
Definition obs_of (nvars : nat) (v : vobs) : obs :=
  {| o_errs := map err_of (firstn nvars (v_pairs v)); o_res := v_res v |}.

Definition newton_v (cfg : config) (vorc : state -> vobs) (conv0 : bool) (alpha0 : Q) : state :=
  newton cfg (fun st => obs_of (c_nvars cfg) (vorc st)) conv0 alpha0.

(* the update lines of solve_hydraulics / solve_temperature:  pit[:, COL] -= x[...] * options["alpha"]
   (x = what spsolve returned for these unknowns) *)
Definition upd (alpha : Q) (old x : list fl) : list fl := map2 (fun o xi => fsub o (fscale alpha xi)) old x.

(* value left in the pit for one variable after finalize_iteration *)
Definition pit_after {V} (restored : bool) (v_new v_old : V) : V := if restored then v_old else v_new.

(* ------------------------------------------------------------------------------------------ *)
(* stage wiring (values come from Gen/StageWiring.v)                                           *)
Open Scope string_scope.

Record pairsrc := {
  ps_new_pit : string; ps_new_col : string; ps_new_rows : option string;   (* None = all rows `:` *)
  ps_old_pit : string; ps_old_col : string; ps_old_rows : option string;
  ps_filter : option string;         (* the entry of `filtered` at this position (None = None) *)
  ps_reduce_mode : string            (* mode of the reduce_pit call that built the active pit the pair is read from *)
}.

Record stage_wiring := {
  sw_name : string;
  sw_solver : string;                (* the solve function handed to newton_raphson *)
  sw_vars : list string;
  sw_tols : list string;             (* option names behind the tolerance list *)
  sw_pits : list string;
  sw_iter : string;
  sw_pairs : list pairsrc;           (* (new, old) pairs returned by the solve function, in order *)
  sw_body : list string;             (* essential statements of the stage function, in order *)
  sw_final_reduce_mode : string      (* mode of the last reduce_pit before finalize_iteration runs: what
                                        net["_active_pit"] is when a rejected step is restored *)
}.

Definition upper_ascii (c : ascii) : ascii :=
  let n := nat_of_ascii c in
  if andb (Nat.leb 97 n) (Nat.leb n 122) then ascii_of_nat (n - 32) else c.
Fixpoint upper (s : string) : string :=
  match s with EmptyString => EmptyString | String c r => String (upper_ascii c) (upper r) end.

(* finalize_iteration restores into  net["_active_pit"][pit][f or :, globals()[var.upper() + 'INIT']] *)
Definition restore_col (var : string) : string := upper var ++ "INIT".

(* the tolerance option belonging to a pit column *)
Definition tol_for_col (col : string) : string :=
  if String.eqb col "MDOTINIT" then "tol_m"
  else if String.eqb col "PINIT" then "tol_p"
  else if String.eqb col "MDOTSLACKINIT" then "tol_m"
  else if String.eqb col "TOUTINIT" then "tol_T"
  else if String.eqb col "TINIT" then "tol_T"
  else "?".

Definition opt_str_eqb (a b : option string) : bool :=
  match a, b with Some x, Some y => String.eqb x y | None, None => true | _, _ => false end.

Definition pair_ok (var tol pit : string) (p : pairsrc) : bool :=
  String.eqb (ps_new_pit p) pit && String.eqb (ps_old_pit p) pit &&
  String.eqb (ps_new_col p) (restore_col var) && String.eqb (ps_old_col p) (restore_col var) &&
  opt_str_eqb (ps_new_rows p) (ps_filter p) && opt_str_eqb (ps_old_rows p) (ps_filter p) &&
  String.eqb tol (tol_for_col (ps_new_col p)).

Fixpoint nodup_str (l : list string) : bool :=
  match l with [] => true | x :: r => negb (existsb (String.eqb x) r) && nodup_str r end.

Fixpoint all4 (vars tols pits : list string) (pairs : list pairsrc) : bool :=
  match vars, tols, pits, pairs with
  | [], [], [], [] => true
  | v :: vs, t :: ts, p :: ps, q :: qs => pair_ok v t p q && all4 vs ts ps qs
  | _, _, _, _ => false
  end.

(* does a restored vector land in the active pit it was read from? *)
Definition restore_in_own_pit (w : stage_wiring) (q : pairsrc) : bool :=
  String.eqb (ps_reduce_mode q) (sw_final_reduce_mode w).

Definition wiring_ok (w : stage_wiring) : bool :=
  nodup_str (sw_vars w) && negb (Nat.eqb (length (sw_vars w)) 0) &&
  all4 (sw_vars w) (sw_tols w) (sw_pits w) (sw_pairs w).

(* statement skeletons the hand model below follows (compared with the generated ones) *)
Definition body_hydraulics : list string :=
  ["converged=False"; "reduce_pit:hydraulics"; "internal_data:init";
   "try[newton_raphson]except[internal_data:pop;raise]";
   "if_converged["; "hyd_flag=True"; "rerun_hydraulics"; "]"; "internal_data:pop";
   "raise_unless_converged"; "extract_active:hydraulics"].
Definition body_heat : list string :=
  ["converged=False"; "identify_active:heat"; "reduce_pit:heat_transfer"; "newton_raphson";
   "if_converged["; "rerun_heat_transfer"; "]"; "raise_unless_converged"; "extract_active:heat_transfer"].
Definition body_bidirectional : list string :=
  ["converged=False"; "internal_data:init"; "try[newton_raphson]except[internal_data:pop;raise]";
   "if_converged["; "hyd_flag=True"; "]";
   "internal_data:pop"; "raise_unless_converged"].
Definition body_pipeflow : list string :=
  ["init_options"; "init_all_result_tables"; "create_lookups"; "initialize_pit"; "converged=False";
   "identify_active:hydraulics"; "if_heat[use_given_hydraulic_results]";
   "dispatch[bad_mode:raise|bidirectional:bidirectional|else:hydraulics?,heat_transfer?]";
   "try[extract_all_results]except[converged=False;init_all_result_tables;raise]"].
Definition body_rerun_hydraulics : list string :=
  ["if_rerun["; "extract_active:hydraulics"; "identify_active:hydraulics"; "hydraulics"; "]"].
Definition body_rerun_heat : list string :=
  ["if_rerun["; "extract_active:heat_transfer"; "identify_active:heat"; "heat_transfer"; "]"].

Definition expected_body (name : string) : list string :=
  if String.eqb name "hydraulics" then body_hydraulics
  else if String.eqb name "heat_transfer" then body_heat
  else if String.eqb name "bidirectional" then body_bidirectional
  else ["?"].

Fixpoint list_str_eqb (a b : list string) : bool :=
  match a, b with
  | [], [] => true
  | x :: a', y :: b' => String.eqb x y && list_str_eqb a' b'
  | _, _ => false
  end.

(* ------------------------------------------------------------------------------------------ *)
(* stages and pipeflow: result tables abstracted, exceptions as outcomes                        *)
Inductive tables := AllNaN | Written.
Inductive outcome := Returned | NotConverged | OtherException.

Record netst := {
  n_conv : bool;          (* net.converged *)
  n_tables : tables;      (* all res_* tables *)
  n_hyd_flag : bool;      (* net.user_pf_options["hyd_flag"] *)
  n_idata : bool;         (* "_internal_data" in net *)
  n_alpha : Q             (* net["_options"]["alpha"] *)
}.

(* one execution of a stage's Newton loop: its settings, its (arbitrary) observations and whether a
   component asks for a rerun afterwards *)
Inductive escape := NoEscape | EscNotConverged | EscOther.
(* ri_escape: an exception leaves the stage from inside its newton_raphson call (raised by the solve
   function or by the driver): the loop only runs while net.converged is False; hydraulics / bidirectional
   catch it, drop _internal_data unless reuse_internal_data, and re-raise *)
(* ri_post: an exception raised inside the stage AFTER its loop converged: by rerun_* (before the
   internal-data pop) or by extract_results_active_pit (after it).  net.converged is True by then. *)
Inductive post_escape := NoPost | PostRerun | PostExtract.
Record run_in := { ri_cfg : config; ri_orc : state -> obs; ri_rerun : bool; ri_escape : escape;
                   ri_post : post_escape }.

Inductive stage_kind := KHyd | KHeat | KBid.

Definition set_conv (n : netst) (c : bool) (a : Q) : netst :=
  {| n_conv := c; n_tables := n_tables n; n_hyd_flag := n_hyd_flag n; n_idata := n_idata n; n_alpha := a |}.
Definition set_idata (n : netst) (b : bool) : netst :=
  {| n_conv := n_conv n; n_tables := n_tables n; n_hyd_flag := n_hyd_flag n; n_idata := b; n_alpha := n_alpha n |}.
Definition set_hyd_flag (n : netst) : netst :=
  {| n_conv := n_conv n; n_tables := n_tables n; n_hyd_flag := true; n_idata := n_idata n; n_alpha := n_alpha n |}.
Definition set_tables (n : netst) (t : tables) : netst :=
  {| n_conv := n_conv n; n_tables := t; n_hyd_flag := n_hyd_flag n; n_idata := n_idata n; n_alpha := n_alpha n |}.

(* hydraulics(net) / heat_transfer(net) / bidirectional(net).  [heat_unsupplied]: the heat-transfer
   connectivity search of heat_transfer() finds no active node (raises PipeflowNotConverged).
   Result: net state, outcome, final driver states of every Newton loop executed (latest first).
   The rerun_* recursion is bounded by the list of further executions supplied.                *)
Fixpoint stage (k : stage_kind) (reuse heat_unsupplied : bool) (r : run_in) (more : list run_in)
               (n : netst) : netst * outcome * list state :=
  let n0 := set_conv n false (n_alpha n) in
  if (match k with KHeat => heat_unsupplied | _ => false end) then (n0, NotConverged, []) else
  let n1 := match k with KHeat => n0 | _ => set_idata n0 true end in
  let pop x := match k with KHeat => x | _ => if reuse then x else set_idata x false end in
  match ri_escape r with
  | EscNotConverged => (pop n1, NotConverged, [])
  | EscOther => (pop n1, OtherException, [])
  | NoEscape =>
  let st := newton (ri_cfg r) (ri_orc r) (n_conv n1) (n_alpha n1) in
  let n2 := set_conv n1 (s_conv st) (s_alpha st) in
  if s_conv st then
    let n3 := match k with KHeat => n2 | _ => set_hyd_flag n2 end in
    match k, ri_post r with
    | KBid, _ | _, NoPost =>
    match k, ri_rerun r, more with
    | KBid, _, _ | _, false, _ | _, _, [] => (pop n3, Returned, [st])
    | _, true, r' :: more' =>
        let '(n4, o, sts) := stage k reuse heat_unsupplied r' more' n3 in
        match o with
        | Returned => (pop n4, (if n_conv n4 then Returned else NotConverged), (sts ++ [st])%list)
        | _ => (n4, o, (sts ++ [st])%list)
        end
    end
    | _, PostRerun => (n3, OtherException, [st])
    | _, PostExtract => (pop n3, OtherException, [st])
    end
  else (pop n2, NotConverged, [st])
  end.

Inductive pmode := MHydraulics | MHeat | MSequential | MBidirectional | MBad.

(* everything outside the driver that decides the control flow of one pipeflow call *)
Record penv := {
  pe_options_raise : bool;     (* init_options raises (before anything is touched) *)
  pe_setup_raise : bool;       (* create_lookups / initialize_pit raise (tables already NaN) *)
  pe_unsupplied : bool;        (* identify_active_nodes_branches: no active node -> PipeflowNotConverged *)
  pe_conn_raise : bool;        (* the connectivity check raises another exception class *)
  pe_heat_unsupplied : bool;
  pe_extract_raise : bool;     (* a component's extract_results raises *)
  pe_reuse : bool;             (* option reuse_internal_data *)
  pe_alpha0 : Q;               (* option alpha as resolved by init_options *)
  pe_hyd : run_in * list run_in;
  pe_heat : run_in * list run_in;
  pe_bid : run_in
}.

Definition pipeflow (m : pmode) (e : penv) (n : netst) : netst * outcome * list state :=
  if pe_options_raise e then (n, OtherException, []) else
  let n := set_conv (set_tables n AllNaN) (n_conv n) (pe_alpha0 e) in
  if pe_setup_raise e then (n, OtherException, []) else
  let n := set_conv n false (n_alpha n) in
  if pe_unsupplied e then (n, NotConverged, []) else
  if pe_conn_raise e then (n, OtherException, []) else
  let after (x : netst * outcome * list state) :=
    let '(n', o, sts) := x in
    match o with
    | Returned => if pe_extract_raise e          (* except: converged = False; init_all_result_tables; raise *)
                  then (set_conv (set_tables n' AllNaN) false (n_alpha n'), OtherException, sts)
                  else (set_tables n' Written, Returned, sts)
    | _ => x
    end in
  match m with
  | MBad => (n, OtherException, [])
  | MHeat => if n_hyd_flag n
             then after (stage KHeat (pe_reuse e) (pe_heat_unsupplied e) (fst (pe_heat e)) (snd (pe_heat e)) n)
             else (n, OtherException, [])
  | MBidirectional => after (stage KBid (pe_reuse e) false (pe_bid e) [] n)
  | MHydraulics => after (stage KHyd (pe_reuse e) false (fst (pe_hyd e)) (snd (pe_hyd e)) n)
  | MSequential =>
      let '(n1, o1, s1) := stage KHyd (pe_reuse e) false (fst (pe_hyd e)) (snd (pe_hyd e)) n in
      match o1 with
      | Returned =>
          let '(n2, o2, s2) := stage KHeat (pe_reuse e) (pe_heat_unsupplied e) (fst (pe_heat e)) (snd (pe_heat e)) n1 in
          after (n2, o2, (s2 ++ s1)%list)
      | _ => (n1, o1, s1)
      end
  end.

(* ------------------------------------------------------------------------------------------ *)
(* helpers for the generated correspondence cases                                              *)
Fixpoint all2 {A B} (f : A -> B -> bool) (a : list A) (b : list B) : bool :=
  match a, b with
  | [], [] => true
  | x :: a', y :: b' => f x y && all2 f a' b'
  | _, _ => false
  end.

(* observation of the pit after an iteration: 0 = holds the new vector, 1 = holds the old vector,
   2 = both (new = old), 3 = neither *)
Definition rest_code_ok (restored : bool) (code : Z) : bool :=
  if Z.eqb code 2 then true else if restored then Z.eqb code 1 else Z.eqb code 0.

Record dcase := {
  d_cfg : config; d_conv0 : bool; d_alpha0 : Q;
  d_script : list vobs;                      (* what funct returns at call 0, 1, ... *)
  d_obs_conv : bool; d_obs_niter : nat; d_obs_alpha : Q;
  d_obs_hist : list (list fl);               (* net._internal_results errors, latest first *)
  d_obs_codes : list (list Z)                (* per iteration (latest first), per restorable variable *)
}.

Definition empty_vobs : vobs := {| v_pairs := []; v_res := NaN |}.

Definition pad_codes (n : nat) (r : list bool) : list bool := firstn n (r ++ repeat false n)%list.

Definition dcase_ok (c : dcase) : bool :=
  let st := newton_v (d_cfg c) (fun st => nth (s_niter st) (d_script c) empty_vobs) (d_conv0 c) (d_alpha0 c) in
  Bool.eqb (s_conv st) (d_obs_conv c) && Nat.eqb (s_niter st) (d_obs_niter c) &&
  Qeq_bool (s_alpha st) (d_obs_alpha c) &&
  all2 (all2 feq) (s_hist st) (d_obs_hist c) &&
  all2 (fun r codes => all2 rest_code_ok (pad_codes (length codes) r) codes) (s_rest st) (d_obs_codes c).

Fixpoint first_bad {A} (ok : A -> bool) (cs : list A) (i : nat) : option nat :=
  match cs with [] => None | c :: r => if ok c then first_bad ok r (S i) else Some i end.

Definition summary {A} (ok : A -> bool) (cs : list A) : nat * nat * Z :=
  (length cs, length (filter (fun c => negb (ok c)) cs),
   match first_bad ok cs 0 with Some i => Z.of_nat i | None => (-1)%Z end).

(* pipeflow-level case: a sequence of calls on ONE net object.  Per call: the mode, the events seen
   (which branch of the control flow was taken, read off the real run) and what was observed after *)
Record pcall := {
  pc_mode : pmode; pc_env : penv;
  pc_obs_outcome : outcome; pc_obs_conv : bool; pc_obs_tables : tables;
  pc_obs_idata : bool                 (* "_internal_data" in net after the call *)
}.

Definition outcome_eqb (a b : outcome) : bool :=
  match a, b with Returned, Returned | NotConverged, NotConverged | OtherException, OtherException => true | _, _ => false end.
Definition tables_eqb (a b : tables) : bool :=
  match a, b with AllNaN, AllNaN | Written, Written => true | _, _ => false end.

Fixpoint pseq_ok (calls : list pcall) (n : netst) : bool :=
  match calls with
  | [] => true
  | c :: r =>
      let '(n', o, _) := pipeflow (pc_mode c) (pc_env c) n in
      outcome_eqb o (pc_obs_outcome c) && Bool.eqb (n_conv n') (pc_obs_conv c) &&
      tables_eqb (n_tables n') (pc_obs_tables c) && Bool.eqb (n_idata n') (pc_obs_idata c) && pseq_ok r n'
  end.

(* a sequence with the net state it starts from (fresh net, or the state observed after a call the
   model does not cover, e.g. an exception escaping from inside a solve function) *)
Definition nseq_ok (x : netst * list pcall) : bool := pseq_ok (snd x) (fst x).
