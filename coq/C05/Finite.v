(* C05 - "every supplied in-service element has finite results": the converged last iteration (Proofs.v)
   combined with C04's write-back theorem (extract_results_active_pit puts the active vector into the rows
   marked by the connectivity mask and NaN everywhere else).  C04 is only Required, never Imported. *)
From Coq Require Import String Ascii QArith List Bool ZArith Lia.
From PP Require Import C05.Model C05.Proofs.
From PP Require C06.Model C04.Model C04.ProofsReduce.
Import ListNotations.
Open Scope nat_scope.

Lemma writeback_of_numbers (mask : list bool) (active : list fl) :
  Forall is_num active -> length active = PP.C06.Model.count_true mask ->
  length (PP.C04.Model.writeback mask active) = length mask /\
  forall i, i < length mask ->
    (PP.C04.Model.nthb mask i = true -> exists q, nth i (PP.C04.Model.writeback mask active) None = Some (Fin q)) /\
    (PP.C04.Model.nthb mask i = false -> nth i (PP.C04.Model.writeback mask active) None = None).
Proof.
  intros N L. destruct (PP.C04.ProofsReduce.writeback_nan_pattern NaN mask active L) as [H1 H2].
  split; auto. intros i Hi. rewrite (H2 i Hi). split; intros E; rewrite E; auto.
  pose proof (PP.C04.ProofsReduce.rank_lt_count mask i Hi E) as R. rewrite <- L in R.
  rewrite Forall_forall in N. destruct (N (nth (PP.C04.ProofsReduce.rank mask i) active NaN)) as [q Hq].
  - now apply nth_In.
  - exists q. now rewrite Hq.
Qed.
