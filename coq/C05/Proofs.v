(* C05 - proofs about the driver / stage / pipeflow model.  All statements are for arbitrary
   oracles (observation sequences), budgets, tolerances and prior net states. *)
From Coq Require Import String Ascii QArith Qabs Qminmax List Bool ZArith Lia.
From PP Require Import C05.Model.
Import ListNotations.
Open Scope nat_scope.

(* ------------------------------------------------------------------------------------------ *)
(* the loop                                                                                    *)
Lemma step_niter cfg o st : s_niter (step cfg o st) = S (s_niter st).
Proof. unfold step. destruct (finalize cfg o st) as [[c a] r]. reflexivity. Qed.

Lemma nr_loop_budget fuel : forall cfg orc st,
  s_niter (nr_loop fuel cfg orc st) <= s_niter st + fuel /\
  (s_conv (nr_loop fuel cfg orc st) = false -> s_niter (nr_loop fuel cfg orc st) = s_niter st + fuel).
Proof.
  induction fuel as [|f IH]; intros cfg orc st; simpl.
  - split; intros; lia.
  - destruct (s_conv st) eqn:E.
    + split; [lia | intros H; congruence].
    + destruct (IH cfg orc (step cfg (orc st) st)) as [H1 H2]. rewrite step_niter in *. split.
      * lia.
      * intros H. rewrite (H2 H). lia.
Qed.

Lemma loop_terminates_lemma cfg orc c0 a0 :
  s_niter (newton cfg orc c0 a0) <= c_max_iter cfg /\
  (s_conv (newton cfg orc c0 a0) = false -> s_niter (newton cfg orc c0 a0) = c_max_iter cfg).
Proof. unfold newton. pose proof (nr_loop_budget (c_max_iter cfg) cfg orc (init_state c0 a0)) as H. simpl in H. exact H. Qed.

(* the loop ends either in its start state or right after a step *)
Lemma nr_loop_last fuel : forall cfg orc st,
  nr_loop fuel cfg orc st = st \/
  exists prev, s_conv prev = false /\ nr_loop fuel cfg orc st = step cfg (orc prev) prev.
Proof.
  induction fuel as [|f IH]; intros cfg orc st; simpl; auto.
  destruct (s_conv st) eqn:E; auto.
  destruct (IH cfg orc (step cfg (orc st) st)) as [H | [prev [Hp H]]].
  - right. exists st. split; auto.
  - right. exists prev. split; auto.
Qed.

(* ------------------------------------------------------------------------------------------ *)
(* tolerance test                                                                              *)
Definition errs_within (errs tols : list fl) : Prop :=
  forall i e, nth_error errs i = Some e -> exists t, nth_error tols i = Some t /\ fle e t = true.

Lemma errs_ok_within : forall errs tols,
  errs_ok errs tols = true -> length errs <= length tols -> errs_within errs tols.
Proof.
  unfold errs_ok, errs_within. induction errs as [|e errs IH]; intros tols H L i e0 Hn.
  - destruct i; discriminate.
  - destruct tols as [|t tols]; [simpl in L; lia|]. simpl in H. apply andb_true_iff in H. destruct H as [H0 H1].
    destruct i as [|i]; simpl in Hn.
    + inversion Hn; subst. exists t. split; auto.
    + simpl in L. destruct (IH tols H1 ltac:(lia) i e0 Hn) as [t' [Ht Hle]]. exists t'. split; auto.
Qed.

Lemma finalize_conv cfg o st c a r :
  finalize cfg o st = (c, a, r) -> c = true ->
  tol_test cfg o = true /\ (c_meth cfg = Automatic -> Qeq_bool a 1 = true).
Proof.
  unfold finalize. intros H Hc. subst c. destruct (c_meth cfg).
  - destruct (Qeq_bool (damp _ _) 1) eqn:E; simpl in H.
    + injection H as H1 H2 H3. subst a. split; auto.
    + discriminate H.
  - injection H as H1 H2 H3. split; auto. discriminate.
  - injection H as H1 H2 H3. split; auto. discriminate.
Qed.

Lemma step_conv cfg o st :
  s_conv (step cfg o st) = true ->
  tol_test cfg o = true /\ (c_meth cfg = Automatic -> Qeq_bool (s_alpha (step cfg o st)) 1 = true) /\
  hd_error (s_hist (step cfg o st)) = Some (o_errs o).
Proof.
  unfold step. destruct (finalize cfg o st) as [[c a] r] eqn:F. simpl. intros Hc.
  destruct (finalize_conv _ _ _ _ _ _ F Hc) as [H1 H2]. auto.
Qed.

Lemma converged_lemma cfg orc a0 :
  (forall st, length (o_errs (orc st)) <= length (c_tols cfg)) ->
  let fin := newton cfg orc false a0 in
  s_conv fin = true ->
  exists prev, let o := orc prev in
    fin = step cfg o prev /\ s_niter fin = S (s_niter prev) /\ s_niter fin <= c_max_iter cfg /\
    errs_within (o_errs o) (c_tols cfg) /\ fle (o_res o) (c_tol_res cfg) = true /\
    (c_meth cfg = Automatic -> (s_alpha fin == 1)%Q) /\
    hd_error (s_hist fin) = Some (o_errs o).
Proof.
  intros L fin Hc. unfold fin, newton in *.
  destruct (nr_loop_last (c_max_iter cfg) cfg orc (init_state false a0)) as [H | [prev [Hp H]]].
  - rewrite H in Hc. simpl in Hc. discriminate.
  - exists prev. simpl. rewrite H in *. destruct (step_conv _ _ _ Hc) as [T [A Hh]].
    unfold tol_test in T. apply andb_true_iff in T. destruct T as [T1 T2].
    split; auto. split; [apply step_niter|]. split.
    + rewrite <- H. pose proof (nr_loop_budget (c_max_iter cfg) cfg orc (init_state false a0)) as B.
      simpl in B. apply B.
    + split; [apply errs_ok_within; auto|]. split; auto. split; auto.
      intros M. apply Qeq_bool_iff. auto.
Qed.

(* what "<= a finite tolerance" says about a value: it is a number (never NaN, never +inf) *)
Lemma fle_fin e t : fle e (Fin t) = true -> e = NInf \/ exists q, e = Fin q /\ (q <= t)%Q.
Proof.
  destruct e; simpl; intros H; try discriminate; auto.
  right. exists q. split; auto. now apply Qle_bool_iff.
Qed.

Lemma nan_never_within e t : e = NaN -> fle e t = false.
Proof. intros ->. reflexivity. Qed.

Lemma inf_never_within_finite t : fle PInf (Fin t) = false.
Proof. reflexivity. Qed.

(* ------------------------------------------------------------------------------------------ *)
(* damping ladder                                                                              *)
Definition on_ladder (a : Q) : Prop := a = 1%Q \/ a = (1 # 10)%Q \/ a = (1 # 100)%Q.

Lemma damp_ladder a b : on_ladder a -> on_ladder (damp a b).
Proof.
  intros [-> | [-> | ->]]; destruct b; vm_compute; auto.
Qed.

Lemma damp_decreases_only_if_all_grew a b : on_ladder a -> (damp a b < a)%Q -> b = true.
Proof.
  intros [-> | [-> | ->]]; destruct b; auto; vm_compute; intros H; discriminate.
Qed.

Lemma damp_recovers a : on_ladder a -> (damp a false == Qmin 1 (a * (10 # 1)))%Q.
Proof. intros [-> | [-> | ->]]; vm_compute; reflexivity. Qed.

Lemma damp_down a : on_ladder a -> (damp a true == Qmax (1 # 100) (a / (10 # 1)))%Q.
Proof. intros [-> | [-> | ->]]; vm_compute; reflexivity. Qed.

Definition prev_errs (o : obs) (st : state) : list fl :=
  match s_hist st with [] => o_errs o | p :: _ => p end.

Lemma step_alpha cfg o st :
  s_alpha (step cfg o st) =
  match c_meth cfg with
  | Automatic => damp (s_alpha st) (all_true (increased (o_errs o) (prev_errs o st)))
  | _ => s_alpha st
  end.
Proof.
  unfold step, finalize, prev_errs. destruct (c_meth cfg); simpl; auto.
  destruct (negb _); reflexivity.
Qed.

Lemma step_ladder cfg o st :
  on_ladder (s_alpha st) ->
  on_ladder (s_alpha (step cfg o st)) /\
  ((s_alpha (step cfg o st) < s_alpha st)%Q ->
     c_meth cfg = Automatic /\ all_true (increased (o_errs o) (prev_errs o st)) = true) /\
  (c_meth cfg = Automatic -> all_true (increased (o_errs o) (prev_errs o st)) = false ->
     (s_alpha (step cfg o st) == Qmin 1 (s_alpha st * (10 # 1)))%Q) /\
  (c_meth cfg <> Automatic -> s_alpha (step cfg o st) = s_alpha st).
Proof.
  intros L. rewrite step_alpha. destruct (c_meth cfg) eqn:M.
  - split; [now apply damp_ladder|]. split.
    + intros H. split; auto. eapply damp_decreases_only_if_all_grew; eauto.
    + split; [|congruence]. intros _ H. rewrite H. now apply damp_recovers.
  - split; auto. split; [intros H; exfalso; eapply Qlt_irrefl; eauto|]. split; [discriminate|auto].
  - split; auto. split; [intros H; exfalso; eapply Qlt_irrefl; eauto|]. split; [discriminate|auto].
Qed.

Lemma nr_loop_ladder fuel : forall cfg orc st,
  on_ladder (s_alpha st) -> on_ladder (s_alpha (nr_loop fuel cfg orc st)).
Proof.
  induction fuel as [|f IH]; intros cfg orc st L; simpl; auto.
  destruct (s_conv st); auto. apply IH. now apply step_ladder.
Qed.

Lemma newton_ladder cfg orc c0 a0 : on_ladder a0 -> on_ladder (s_alpha (newton cfg orc c0 a0)).
Proof. intros L. unfold newton. now apply nr_loop_ladder. Qed.

(* ------------------------------------------------------------------------------------------ *)
(* restoring rejected variables                                                                *)
Lemma nth_map2 {A B C} (f : A -> B -> C) d : forall a b i,
  nth_error (map2 f a b) i = Some d <->
  exists x y, nth_error a i = Some x /\ nth_error b i = Some y /\ d = f x y.
Proof.
  induction a as [|x a IH]; intros b i.
  - simpl. split; [destruct i; discriminate | intros [x [y [H _]]]; destruct i; discriminate].
  - destruct b as [|y b]; simpl.
    + split; [destruct i; discriminate | intros [x' [y' [_ [H _]]]]; destruct i; discriminate].
    + destruct i as [|i]; simpl.
      * split; [intros H; inversion H; eauto | intros [x' [y' [H1 [H2 ->]]]]; inversion H1; inversion H2; auto].
      * apply IH.
Qed.

Lemma nth_firstn {A} : forall n (l : list A) i, nth_error (firstn n l) i = if Nat.ltb i n then nth_error l i else None.
Proof.
  induction n as [|n IH]; intros l i; simpl.
  - destruct i; reflexivity.
  - destruct l as [|x l]; simpl.
    + destruct i; simpl; [reflexivity|]. destruct (Nat.ltb (S i) (S n)); reflexivity.
    + destruct i as [|i]; simpl; auto. rewrite IH. reflexivity.
Qed.

Lemma step_rest cfg o st :
  hd [] (s_rest (step cfg o st)) =
  match c_meth cfg with
  | Automatic => firstn (c_nrestore cfg) (increased (o_errs o) (prev_errs o st))
  | _ => []
  end.
Proof.
  unfold step, finalize, prev_errs. destruct (c_meth cfg); simpl; auto.
  destruct (negb _); reflexivity.
Qed.

Lemma restored_lemma cfg o st i :
  nth_error (hd [] (s_rest (step cfg o st))) i = Some true <->
  (c_meth cfg = Automatic /\ i < c_nrestore cfg /\
   exists e p, nth_error (o_errs o) i = Some e /\ nth_error (prev_errs o st) i = Some p /\ fgt e p = true).
Proof.
  rewrite step_rest. destruct (c_meth cfg) eqn:M.
  - rewrite nth_firstn. destruct (Nat.ltb i (c_nrestore cfg)) eqn:E.
    + apply Nat.ltb_lt in E. unfold increased. rewrite nth_map2. split.
      * intros [x [y [H1 [H2 H3]]]]. split; auto. split; auto. exists x, y. auto.
      * intros [_ [_ [e [p [H1 [H2 H3]]]]]]. exists e, p. auto.
    + apply Nat.ltb_ge in E. split; [discriminate | intros [_ [H _]]; lia].
  - split; [destruct i; discriminate | intros [H _]; discriminate].
  - split; [destruct i; discriminate | intros [H _]; discriminate].
Qed.

(* first iteration: nothing is rejected (error[0] > error[-1] compares an entry with itself) *)
Lemma fgt_irrefl e : fgt e e = false.
Proof.
  destruct e; simpl; auto. unfold fgt, flt. destruct (Qle_bool q q) eqn:E; auto.
  exfalso. assert (Qle_bool q q = true) by (apply Qle_bool_iff; apply Qle_refl). congruence.
Qed.

Lemma first_iteration_rejects_nothing cfg o a0 c0 i :
  nth_error (hd [] (s_rest (step cfg o (init_state c0 a0)))) i <> Some true.
Proof.
  intros H. apply restored_lemma in H. destruct H as [_ [_ [e [p [H1 [H2 H3]]]]]].
  unfold prev_errs in H2. simpl in H2. rewrite H1 in H2. inversion H2; subst. rewrite fgt_irrefl in H3. discriminate.
Qed.

(* ------------------------------------------------------------------------------------------ *)
(* vector level: float64 rows (ragged result list) - the error bounds every component          *)
Lemma fle_trans a b t : fle a b = true -> fle b (Fin t) = true -> fle a (Fin t) = true.
Proof.
  destruct a, b; simpl; intros H1 H2; try discriminate; auto.
  apply Qle_bool_iff in H1. apply Qle_bool_iff in H2. apply Qle_bool_iff. eapply Qle_trans; eauto.
Qed.

Lemma fle_total a b : a <> NaN -> b <> NaN -> fle a b = false -> fle b a = true.
Proof.
  destruct a, b; simpl; intros Ha Hb H; try congruence; auto.
  apply Qle_bool_iff. destruct (Qle_bool q q0) eqn:E; try discriminate.
  destruct (Qlt_le_dec q0 q) as [L | L].
  - now apply Qlt_le_weak.
  - apply Qle_bool_iff in L. congruence.
Qed.

Lemma nanmax2_le acc x t :
  fle (nanmax2 acc x) (Fin t) = true -> fle acc (Fin t) = true /\ fle x (Fin t) = true.
Proof.
  unfold nanmax2. destruct acc eqn:Ea; destruct x eqn:Ex; try (simpl; intros; discriminate);
    (destruct (fge _ _) eqn:G; intros H; unfold fge in G;
     [ split; auto; eapply fle_trans; eauto
     | split; auto; apply fle_total in G; try discriminate; eapply fle_trans; eauto ]).
Qed.

Lemma fold_nanmax_le t : forall l acc,
  fle (fold_left nanmax2 l acc) (Fin t) = true ->
  fle acc (Fin t) = true /\ Forall (fun x => fle x (Fin t) = true) l.
Proof.
  induction l as [|x l IH]; intros acc H; simpl in *; auto.
  destruct (IH _ H) as [H1 H2]. apply nanmax2_le in H1. destruct H1. split; auto.
Qed.

Lemma reduce_nanmax_le t l : l <> [] ->
  fle (reduce nanmax2 l) (Fin t) = true -> Forall (fun x => fle x (Fin t) = true) l.
Proof.
  destruct l as [|h l]; [congruence|]. intros _ H. simpl in H. apply fold_nanmax_le in H. destruct H. auto.
Qed.

Definition change_within (t : Q) (a b : fl) : Prop :=
  exists d, fsub a b = Fin d /\ (Qabs d <= t)%Q.

Lemma fabs_le_fin x t : fle (fabs x) (Fin t) = true -> exists d, x = Fin d /\ (Qabs d <= t)%Q.
Proof.
  destruct x; simpl; intros H; try discriminate. exists q. split; auto. now apply Qle_bool_iff.
Qed.

Lemma forall_map2_change t : forall new old,
  length new = length old ->
  Forall (fun x => fle x (Fin t) = true) (map fabs (map2 fsub new old)) ->
  Forall2 (change_within t) new old.
Proof.
  induction new as [|a new IH]; intros old L H; destruct old as [|b old]; simpl in *; try discriminate; auto.
  inversion H; subst. constructor.
  - apply fabs_le_fin in H2. exact H2.
  - apply IH; auto.
Qed.

Lemma error_bounds_every_component_lemma t new old :
  length new = length old ->
  fle (err_of (new, old)) (Fin t) = true ->
  Forall2 (change_within t) new old.
Proof.
  intros L H. unfold err_of in H. simpl in H.
  destruct new as [|a new]; destruct old as [|b old]; simpl in L; try discriminate; [constructor|].
  apply forall_map2_change; auto.
  apply reduce_nanmax_le; auto. simpl. discriminate.
Qed.

(* a NaN change anywhere makes the error NaN, whatever the shape of the result list *)
Lemma fold_nanmax_nan : forall l, fold_left nanmax2 l NaN = NaN.
Proof. induction l as [|x l IH]; simpl; auto. Qed.

Lemma fold_nanmax_in_nan : forall l acc, In NaN l -> fold_left nanmax2 l acc = NaN.
Proof.
  induction l as [|x l IH]; intros acc H; simpl in *; [contradiction|].
  destruct H as [-> | H].
  - assert (E : nanmax2 acc NaN = NaN) by (destruct acc; reflexivity). rewrite E. apply fold_nanmax_nan.
  - now apply IH.
Qed.

Lemma nan_change_gives_nan_error new old :
  In NaN (map2 fsub new old) -> err_of (new, old) = NaN.
Proof.
  unfold err_of. simpl. intros H.
  assert (H' : In NaN (map fabs (map2 fsub new old))).
  { apply in_map_iff. exists NaN. split; auto. }
  destruct (map fabs (map2 fsub new old)) as [|h l]; [contradiction|]. simpl.
  destruct H' as [-> | H']; [apply fold_nanmax_nan | now apply fold_nanmax_in_nan].
Qed.

(* ------------------------------------------------------------------------------------------ *)
(* stage wiring                                                                                *)
Lemma all4_spec : forall vars tols pits pairs,
  all4 vars tols pits pairs = true ->
  length vars = length pairs /\ length tols = length pairs /\ length pits = length pairs /\
  forall i q, nth_error pairs i = Some q ->
    exists v t p, nth_error vars i = Some v /\ nth_error tols i = Some t /\ nth_error pits i = Some p /\
                  pair_ok v t p q = true.
Proof.
  induction vars as [|v vars IH]; intros tols pits pairs H.
  - destruct tols, pits, pairs; simpl in H; try discriminate.
    repeat split; auto. intros i q Hq. destruct i; discriminate.
  - destruct tols as [|t tols], pits as [|p pits], pairs as [|q pairs]; simpl in H; try discriminate.
    apply andb_true_iff in H. destruct H as [H0 H1]. destruct (IH _ _ _ H1) as [L1 [L2 [L3 Hn]]].
    simpl. repeat split; try lia.
    intros i q0 Hq. destruct i as [|i]; simpl in *.
    + inversion Hq; subst. exists v, t, p. auto.
    + apply Hn. auto.
Qed.

Lemma nodup_str_spec : forall l, nodup_str l = true -> NoDup l.
Proof.
  induction l as [|x l IH]; simpl; intros H; constructor.
  - apply andb_true_iff in H. destruct H as [H _]. intros Hin.
    assert (existsb (String.eqb x) l = true).
    { apply existsb_exists. exists x. split; auto. apply String.eqb_refl. }
    rewrite H0 in H. discriminate.
  - apply andb_true_iff in H. destruct H. auto.
Qed.

Definition wiring_spec (w : stage_wiring) : Prop :=
  sw_vars w <> [] /\ NoDup (sw_vars w) /\
  length (sw_vars w) = length (sw_pairs w) /\ length (sw_tols w) = length (sw_pairs w) /\
  length (sw_pits w) = length (sw_pairs w) /\
  firstn (length (sw_vars w)) (sw_pairs w) = sw_pairs w /\
  forall i q, nth_error (sw_pairs w) i = Some q ->
    exists v t p, nth_error (sw_vars w) i = Some v /\ nth_error (sw_tols w) i = Some t /\
                  nth_error (sw_pits w) i = Some p /\
      (* pair i is read from, and a rejected step is restored into, pit p, column VAR+"INIT", rows = filter *)
      ps_new_pit q = p /\ ps_old_pit q = p /\ ps_new_col q = restore_col v /\ ps_old_col q = restore_col v /\
      ps_new_rows q = ps_filter q /\ ps_old_rows q = ps_filter q /\
      (* and is tested against the tolerance that belongs to that column *)
      t = tol_for_col (ps_new_col q).

Lemma opt_str_eqb_eq a b : opt_str_eqb a b = true -> a = b.
Proof. destruct a, b; simpl; intros H; try discriminate; auto. apply String.eqb_eq in H. now subst. Qed.

Lemma wiring_ok_spec w : wiring_ok w = true -> wiring_spec w.
Proof.
  unfold wiring_ok, wiring_spec. intros H.
  apply andb_true_iff in H. destruct H as [H H4]. apply andb_true_iff in H. destruct H as [Hnd Hne].
  destruct (all4_spec _ _ _ _ H4) as [L1 [L2 [L3 Hn]]].
  split. { intros E. rewrite E in Hne. discriminate. }
  split. { now apply nodup_str_spec. }
  repeat split; auto.
  - rewrite L1. apply firstn_all.
  - intros i q Hq. destruct (Hn i q Hq) as [v [t [p [A [B [C D]]]]]]. exists v, t, p.
    unfold pair_ok in D. repeat (apply andb_true_iff in D; destruct D as [D ?]).
    repeat split; auto; try (now apply String.eqb_eq); try (now apply opt_str_eqb_eq).
Qed.

(* ------------------------------------------------------------------------------------------ *)
(* stages and pipeflow                                                                         *)
Definition ran (st : state) : Prop := exists r a, st = newton (ri_cfg r) (ri_orc r) false a.

Definition nopost (r : run_in) (more : list run_in) : Prop :=
  ri_post r = NoPost /\ Forall (fun x => ri_post x = NoPost) more.

Definition stage_post (r : run_in) (more : list run_in) (n : netst) (res : netst * outcome * list state) : Prop :=
  let '(n', o, sts) := res in
  n_tables n' = n_tables n /\
  (n_hyd_flag n = true -> n_hyd_flag n' = true) /\
  Forall ran sts /\
  (o = Returned -> n_conv n' = true /\ sts <> [] /\ Forall (fun st => s_conv st = true) sts) /\
  (o = NotConverged -> n_conv n' = false) /\
  (* an exception of another class: the flag is False unless it was raised after the loop had converged *)
  (o = OtherException -> nopost r more -> n_conv n' = false).

Ltac fin := simpl; repeat split; intros; auto; try discriminate; try congruence;
            try (repeat constructor; auto; fail).

Ltac grab r := match goal with |- context [newton ?c ?o false ?a] =>
        assert (R : ran (newton c o false a)) by (exists r, a; reflexivity);
        remember (newton c o false a) as st end.

Ltac nop := match goal with H : nopost _ _ |- _ => destruct H as [? ?]; congruence end.

Lemma stage_spec k reuse hu : forall more r n, stage_post r more n (stage k reuse hu r more n).
Proof.
  induction more as [|r' more IH]; intros r n.
  - destruct k; simpl.
    + destruct (ri_escape r); [|destruct reuse; fin|destruct reuse; fin].
      grab r. destruct (s_conv st) eqn:E; [destruct (ri_post r) eqn:EP; [destruct (ri_rerun r)| |]|];
        destruct reuse; fin; try nop.
    + destruct hu; [fin|]. destruct (ri_escape r); [|destruct reuse; fin|destruct reuse; fin].
      grab r. destruct (s_conv st) eqn:E; [destruct (ri_post r) eqn:EP; [destruct (ri_rerun r)| |]|]; fin; try nop.
    + destruct (ri_escape r); [|destruct reuse; fin|destruct reuse; fin].
      grab r. destruct (s_conv st) eqn:E; destruct reuse; fin.
  - destruct k; simpl.
    + (* hydraulics *)
      destruct (ri_escape r); [|destruct reuse; fin|destruct reuse; fin].
      grab r. destruct (s_conv st) eqn:E; [|destruct reuse; fin].
      destruct (ri_post r) eqn:EP; [|destruct reuse; fin; try nop|destruct reuse; fin; try nop].
      destruct (ri_rerun r); [|destruct reuse; fin].
      match goal with |- context [stage KHyd reuse hu r' more ?n3] =>
        pose proof (IH r' n3) as P; destruct (stage KHyd reuse hu r' more n3) as [[n4 o] sts] end.
      unfold stage_post in P. simpl in P. destruct P as [T [HF [RN [RT [NC OC]]]]].
      destruct o.
      * destruct (RT eq_refl) as [C [NE FA]]. destruct reuse; simpl; rewrite C; fin;
          try (apply Forall_app; split; auto); try (destruct sts; simpl in *; congruence).
      * destruct reuse; fin; try (apply Forall_app; split; auto).
      * destruct reuse; fin; try (apply Forall_app; split; auto);
          match goal with H : nopost _ _ |- _ => destruct H as [? HF']; inversion HF'; subst; apply OC; auto; split; auto end.
    + (* heat *)
      destruct hu; [fin|]. destruct (ri_escape r); [|destruct reuse; fin|destruct reuse; fin].
      grab r. destruct (s_conv st) eqn:E; [|fin].
      destruct (ri_post r) eqn:EP; [|fin; try nop|fin; try nop].
      destruct (ri_rerun r); [|fin].
      match goal with |- context [stage KHeat reuse false r' more ?n3] =>
        pose proof (IH r' n3) as P; destruct (stage KHeat reuse false r' more n3) as [[n4 o] sts] end.
      unfold stage_post in P. simpl in P. destruct P as [T [HF [RN [RT [NC OC]]]]].
      destruct o.
      * destruct (RT eq_refl) as [C [NE FA]]. simpl; rewrite C; fin;
          try (apply Forall_app; split; auto); try (destruct sts; simpl in *; congruence).
      * fin; try (apply Forall_app; split; auto).
      * fin; try (apply Forall_app; split; auto);
          match goal with H : nopost _ _ |- _ => destruct H as [? HF']; inversion HF'; subst; apply OC; auto; split; auto end.
    + destruct (ri_escape r); [|destruct reuse; fin|destruct reuse; fin].
      grab r. destruct (s_conv st) eqn:E; destruct reuse; fin.
Qed.

Definition nopost_env (e : penv) : Prop :=
  nopost (fst (pe_hyd e)) (snd (pe_hyd e)) /\ nopost (fst (pe_heat e)) (snd (pe_heat e)).

Definition pipeflow_post (e : penv) (n : netst) (res : netst * outcome * list state) : Prop :=
  let '(n', o, sts) := res in
  (o = Returned -> n_conv n' = true /\ n_tables n' = Written /\ sts <> [] /\
                   Forall ran sts /\ Forall (fun st => s_conv st = true) sts) /\
  (o = NotConverged -> n_conv n' = false /\ n_tables n' = AllNaN) /\
  (n_tables n' = Written -> o = Returned \/ (o = OtherException /\ n' = n)) /\
  (* any other exception: nothing was touched (init_options), or the tables are all NaN ... *)
  (o = OtherException -> n' = n \/ n_tables n' = AllNaN) /\
  (* ... and once the set-up phase is through (net.converged = False executed) - in particular when the
     exception is raised while the results are extracted or escapes from a Newton loop - the net is marked not
     converged; the one exception: raised inside a stage after its loop had converged (nopost_env excludes it) *)
  (o = OtherException -> pe_options_raise e = false -> pe_setup_raise e = false -> nopost_env e ->
     n_conv n' = false /\ n_tables n' = AllNaN).

Definition after_extract (e : penv) (x : netst * outcome * list state) : netst * outcome * list state :=
  let '(n', o, sts) := x in
  match o with
  | Returned => if pe_extract_raise e
                then (set_conv (set_tables n' AllNaN) false (n_alpha n'), OtherException, sts)
                else (set_tables n' Written, Returned, sts)
  | _ => x
  end.

(* what the last stage hands to the extraction step *)
Definition last_post (np : Prop) (n : netst) (res : netst * outcome * list state) : Prop :=
  let '(n', o, sts) := res in
  n_tables n' = n_tables n /\ Forall ran sts /\
  (o = Returned -> n_conv n' = true /\ sts <> [] /\ Forall (fun st => s_conv st = true) sts) /\
  (o = NotConverged -> n_conv n' = false) /\ (o = OtherException -> np -> n_conv n' = false).

Lemma after_post e n0 n x :
  n_tables n = AllNaN -> last_post (nopost_env e) n x -> pipeflow_post e n0 (after_extract e x).
Proof.
  intros TN. destruct x as [[n' o] sts]. unfold last_post, after_extract, pipeflow_post.
  intros [T [RN [RT [NC OC]]]]. destruct o.
  - destruct (RT eq_refl) as [C [NE FA]]. destruct (pe_extract_raise e); simpl; repeat split; auto; try discriminate.
  - repeat split; auto; try discriminate; try congruence.
  - repeat split; auto; try discriminate; try congruence; try (right; congruence).
Qed.

Lemma stage_last e k reuse hu r more n :
  (nopost_env e -> nopost r more) -> last_post (nopost_env e) n (stage k reuse hu r more n).
Proof.
  intros NP. pose proof (stage_spec k reuse hu more r n) as P.
  destruct (stage k reuse hu r more n) as [[n' o] sts]. unfold stage_post in P. unfold last_post.
  destruct P as [T [HF [RN [RT [NC OC]]]]]. repeat split; auto; try (apply RT; auto).
Qed.

Lemma pipeflow_outcome_lemma m e n : pipeflow_post e n (pipeflow m e n).
Proof.
  unfold pipeflow. destruct (pe_options_raise e) eqn:EO.
  { simpl. repeat split; intros; try discriminate; try congruence; auto. }
  destruct (pe_setup_raise e) eqn:ES.
  { simpl. repeat split; intros; try discriminate; try congruence; auto. }
  destruct (pe_unsupplied e).
  { simpl. repeat split; intros; try discriminate; try congruence; auto. }
  destruct (pe_conn_raise e).
  { simpl. repeat split; intros; try discriminate; try congruence; auto. }
  match goal with |- context [set_conv ?a false ?b] => set (n1 := set_conv a false b) end.
  assert (TN : n_tables n1 = AllNaN) by reflexivity.
  destruct m.
  - apply (after_post e n n1 _ TN). apply stage_last. intros [H _]; exact H.
  - simpl n_hyd_flag. destruct (n_hyd_flag n).
    + apply (after_post e n n1 _ TN). apply stage_last. intros [_ H]; exact H.
    + simpl. repeat split; intros; try discriminate; try congruence; auto.
  - pose proof (stage_spec KHyd (pe_reuse e) false (snd (pe_hyd e)) (fst (pe_hyd e)) n1) as P.
    destruct (stage KHyd (pe_reuse e) false (fst (pe_hyd e)) (snd (pe_hyd e)) n1) as [[n2 o1] s1].
    unfold stage_post in P. destruct P as [T [HF [RN [RT [NC OC]]]]]. destruct o1.
    + destruct (RT eq_refl) as [C [NE FA]].
      pose proof (stage_spec KHeat (pe_reuse e) (pe_heat_unsupplied e) (snd (pe_heat e)) (fst (pe_heat e)) n2) as P2.
      destruct (stage KHeat (pe_reuse e) (pe_heat_unsupplied e) (fst (pe_heat e)) (snd (pe_heat e)) n2) as [[n3 o2] s2].
      assert (TN2 : n_tables n2 = AllNaN) by congruence.
      apply (after_post e n n2 (n3, o2, (s2 ++ s1)%list) TN2).
      unfold stage_post in P2. unfold last_post. destruct P2 as [T2 [HF2 [RN2 [RT2 [NC2 OC2]]]]].
      repeat split; auto; try (apply Forall_app; split; auto); try (apply RT2; auto; fail).
      all: try (intros H; destruct (RT2 H) as [C2 [NE2 FA2]]; auto).
      all: try (destruct s2; simpl; congruence).
      all: try (intros HO [_ H']; apply OC2; auto).
    + simpl. repeat split; intros; try discriminate; auto; try (apply NC; auto); try congruence.
    + simpl. repeat split; intros; try discriminate; auto; try congruence; try (right; congruence).
      match goal with H : nopost_env e |- _ => destruct H as [H' _]; apply OC; auto end.
  - apply (after_post e n n1 _ TN).
    pose proof (stage_spec KBid (pe_reuse e) false [] (pe_bid e) n1) as P.
    destruct (stage KBid (pe_reuse e) false (pe_bid e) [] n1) as [[n' o] sts] eqn:E. unfold stage_post in P. unfold last_post.
    destruct P as [T [HF [RN [RT [NC OC]]]]]. repeat split; auto; try (apply RT; auto).
    (* bidirectional(): nothing runs between the loop and the return *)
    intros -> _. unfold stage in E. simpl in E.
    destruct (ri_escape (pe_bid e)); [| |inversion E; subst; destruct (pe_reuse e); reflexivity].
    + destruct (s_conv _); destruct (pe_reuse e); inversion E.
    + inversion E.
  - simpl. repeat split; intros; try discriminate; try congruence; auto.
Qed.

(* refuted at full strength: an exception raised inside a stage after its loop converged (rerun_*,
   extract_results_active_pit) is outside pipeflow's try/except; the flag stays True (tables all NaN) *)
Lemma post_loop_exception_keeps_flag :
  exists m e n, pe_options_raise e = false /\ pe_setup_raise e = false /\
    let '(n', o, _) := pipeflow m e n in
    o = OtherException /\ n_conv n' = true /\ n_tables n' = AllNaN.
Proof.
  set (cfg := {| c_max_iter := 1; c_meth := Constant; c_nvars := 1; c_tols := [Fin 1]; c_tol_res := Fin 1; c_nrestore := 0 |}).
  set (r := {| ri_cfg := cfg; ri_orc := fun _ => {| o_errs := [Fin 0]; o_res := Fin 0 |}; ri_rerun := false;
               ri_escape := NoEscape; ri_post := PostExtract |}).
  exists MHydraulics,
    {| pe_options_raise := false; pe_setup_raise := false; pe_unsupplied := false; pe_conn_raise := false;
       pe_heat_unsupplied := false; pe_extract_raise := false; pe_reuse := false; pe_alpha0 := 1;
       pe_hyd := (r, []); pe_heat := (r, []); pe_bid := r |},
    {| n_conv := false; n_tables := AllNaN; n_hyd_flag := false; n_idata := false; n_alpha := 1 |}.
  vm_compute. auto.
Qed.

(* _internal_data does not survive a hydraulic / bidirectional stage - however it ends, exceptions
   escaping from the Newton loop included - unless reuse_internal_data is set (or rerun_* raises) *)
Lemma stage_idata k hu : forall more r n, k <> KHeat ->
  (forall x, In x (r :: more) -> ri_post x <> PostRerun) ->
  n_idata (fst (fst (stage k false hu r more n))) = false.
Proof.
  induction more as [|r' more IH]; intros r n Hk NP.
  - destruct k; try congruence; simpl; destruct (ri_escape r); try reflexivity.
    + destruct (s_conv _); [|reflexivity]. destruct (ri_post r) eqn:EP; [destruct (ri_rerun r)| |]; try reflexivity.
      exfalso. apply (NP r); [left; auto|auto].
    + destruct (s_conv _); reflexivity.
  - destruct k; try congruence; simpl; destruct (ri_escape r); try reflexivity.
    + destruct (s_conv _); [|reflexivity].
      destruct (ri_post r) eqn:EP; [|exfalso; apply (NP r); [left; auto|auto]|reflexivity].
      destruct (ri_rerun r); [|reflexivity].
      match goal with |- context [stage KHyd false hu r' more ?n3] =>
        pose proof (IH r' n3 Hk) as P; destruct (stage KHyd false hu r' more n3) as [[n4 o] sts] end.
      simpl in P. rewrite <- P by (intros x Hx; apply NP; right; auto). destruct o; simpl; auto.
    + destruct (s_conv _); reflexivity.
Qed.

(* ------------------------------------------------------------------------------------------ *)
(* finite results: what a converged last iteration says about the vectors themselves           *)
Definition is_num (x : fl) : Prop := exists q, x = Fin q.

Lemma change_within_num t a b : change_within t a b -> is_num a /\ is_num b.
Proof.
  intros [d [H _]]. destruct a, b; simpl in H; try discriminate; split; eexists; eauto.
Qed.

Lemma forall2_change_nums t : forall new old, Forall2 (change_within t) new old -> Forall is_num new /\ Forall is_num old.
Proof.
  induction 1 as [|a b new old H _ [IH1 IH2]]; [split; constructor|].
  destruct (change_within_num _ _ _ H). split; constructor; auto.
Qed.

(* the update lines: a NaN in the solution of the linear system makes the error NaN *)
Lemma upd_nth alpha : forall old x i o xi, nth_error old i = Some o -> nth_error x i = Some xi ->
  nth_error (map2 fsub (upd alpha old x) old) i = Some (fsub (fsub o (fscale alpha xi)) o).
Proof.
  unfold upd. induction old as [|o0 old IH]; intros x i o xi Ho Hx; [destruct i; discriminate|].
  destruct x as [|x0 x]; [destruct i; discriminate|]. destruct i as [|i]; simpl in *.
  - inversion Ho; inversion Hx; subst. reflexivity.
  - now apply IH.
Qed.

Lemma nan_in_solution_gives_nan_error alpha old x i o :
  nth_error old i = Some o -> nth_error x i = Some NaN -> err_of (upd alpha old x, old) = NaN.
Proof.
  intros Ho Hx. apply nan_change_gives_nan_error.
  pose proof (upd_nth alpha old x i o NaN Ho Hx) as H. simpl in H.
  apply nth_error_In in H. destruct o; exact H.
Qed.

Lemma in_firstn {A} : forall n (l : list A) x, In x (firstn n l) -> In x l.
Proof.
  induction n as [|n IH]; intros l x H; simpl in H; [contradiction|].
  destruct l as [|y l]; [contradiction|]. destruct H as [-> | H]; [left; auto | right; auto].
Qed.

Lemma converged_vectors_lemma cfg vorc a0 :
  Forall is_num (c_tols cfg) -> c_nvars cfg <= length (c_tols cfg) ->
  (forall st p, In p (v_pairs (vorc st)) -> length (fst p) = length (snd p)) ->
  let fin := newton_v cfg vorc false a0 in
  s_conv fin = true ->
  exists prev, fin = step cfg (obs_of (c_nvars cfg) (vorc prev)) prev /\
    fle (v_res (vorc prev)) (c_tol_res cfg) = true /\
    (c_meth cfg = Automatic -> (s_alpha fin == 1)%Q) /\
    forall p, In p (firstn (c_nvars cfg) (v_pairs (vorc prev))) -> Forall is_num (fst p) /\ Forall is_num (snd p).
Proof.
  intros TN LN LP fin Hc. unfold fin, newton_v in *.
  assert (L : forall st, length (o_errs (obs_of (c_nvars cfg) (vorc st))) <= length (c_tols cfg)).
  { intros st. unfold obs_of. simpl. rewrite map_length. pose proof (firstn_le_length (c_nvars cfg) (v_pairs (vorc st))). lia. }
  destruct (converged_lemma cfg (fun st => obs_of (c_nvars cfg) (vorc st)) a0 L Hc) as [prev [E [_ [_ [W [R [A _]]]]]]].
  exists prev. split; [exact E|]. split; [exact R|]. split; [exact A|].
  intros p Hp. destruct (In_nth_error _ _ Hp) as [i Hi].
  assert (Hm : nth_error (o_errs (obs_of (c_nvars cfg) (vorc prev))) i = Some (err_of p)).
  { unfold obs_of. simpl. now apply map_nth_error. }
  destruct (W i (err_of p) Hm) as [t [Ht Hle]].
  assert (Tn : is_num t). { rewrite Forall_forall in TN. apply TN. eapply nth_error_In; eauto. }
  destruct Tn as [q ->]. destruct p as [new old]. simpl.
  assert (Hl : length new = length old).
  { apply (LP prev (new, old)). eapply in_firstn; eauto. }
  exact (forall2_change_nums q new old (error_bounds_every_component_lemma q new old Hl Hle)).
Qed.

(* ------------------------------------------------------------------------------------------ *)
(* both damping strategies accept an iteration only through the same test (for C08)            *)
Lemma step_conv_char cfg o st :
  s_conv (step cfg o st) =
  match c_meth cfg with
  | Automatic => Qeq_bool (damp (s_alpha st) (all_true (increased (o_errs o) (prev_errs o st)))) 1 && tol_test cfg o
  | _ => tol_test cfg o
  end.
Proof.
  unfold step, finalize, prev_errs. destruct (c_meth cfg); simpl; auto.
  destruct (Qeq_bool _ 1); reflexivity.
Qed.

Lemma damping_same_fixed_points_lemma cfgA cfgC o stA stC :
  c_meth cfgA = Automatic -> c_meth cfgC <> Automatic ->
  c_tols cfgA = c_tols cfgC -> c_tol_res cfgA = c_tol_res cfgC ->
  (s_conv (step cfgA o stA) = true ->
     s_conv (step cfgC o stC) = true /\ (s_alpha (step cfgA o stA) == 1)%Q) /\
  (s_conv (step cfgC o stC) = true -> (s_alpha (step cfgA o stA) == 1)%Q ->
     s_conv (step cfgA o stA) = true).
Proof.
  intros MA MC T R. rewrite !step_conv_char, step_alpha, MA.
  assert (TT : tol_test cfgA o = tol_test cfgC o) by (unfold tol_test; now rewrite T, R).
  split.
  - intros H. apply andb_true_iff in H. destruct H as [H1 H2]. split.
    + destruct (c_meth cfgC); congruence.
    + now apply Qeq_bool_iff.
  - intros H A. apply andb_true_iff. split.
    + now apply Qeq_bool_iff.
    + destruct (c_meth cfgC); congruence.
Qed.
