(* C05 - property theorems only.  Each is closed by [exact] of a lemma of Proofs.v (hand model, tied by
   the scripted-driver and pipeflow correspondences) or decided by computation on Gen/StageWiring.v
   (regenerated from pandapipes/pipeflow.py on every run). *)
From Coq Require Import String Ascii QArith Qabs Qminmax List Bool ZArith Lia PrimFloat.
From PP Require Import C05.Model C05.Proofs C05.Finite Gen.StageWiring.
From PP Require C06.Model C04.Model.
Import ListNotations.
Open Scope nat_scope.

(* 1. the Newton loop makes at most max_iter iterations; it stops early only when converged *)
Theorem loop_terminates : forall cfg orc c0 a0,
  s_niter (newton cfg orc c0 a0) <= c_max_iter cfg /\
  (s_conv (newton cfg orc c0 a0) = false -> s_niter (newton cfg orc c0 a0) = c_max_iter cfg).
Proof. exact loop_terminates_lemma. Qed.
Print Assumptions loop_terminates.

(* 2. for every observation oracle: if the loop (started unconverged, as every stage does) ends
   converged, its last iteration saw every error <= its tolerance, the residual <= tol_res, and with
   automatic damping the step was undamped.  A NaN or +inf error never passes a finite tolerance. *)
Theorem converged_implies_last_within_tol : forall cfg orc a0,
  (forall st, length (o_errs (orc st)) <= length (c_tols cfg)) ->
  let fin := newton cfg orc false a0 in
  s_conv fin = true ->
  exists prev, let o := orc prev in
    fin = step cfg o prev /\ s_niter fin = S (s_niter prev) /\ s_niter fin <= c_max_iter cfg /\
    errs_within (o_errs o) (c_tols cfg) /\ fle (o_res o) (c_tol_res cfg) = true /\
    (c_meth cfg = Automatic -> (s_alpha fin == 1)%Q) /\
    hd_error (s_hist fin) = Some (o_errs o).
Proof. exact converged_lemma. Qed.
Print Assumptions converged_implies_last_within_tol.

Theorem within_finite_tolerance_is_a_number : forall e t,
  fle e (Fin t) = true -> e <> NaN /\ e <> PInf /\ (e = NInf \/ exists q, e = Fin q /\ (q <= t)%Q).
Proof.
  intros e t H. split; [intros ->; discriminate|]. split; [intros ->; discriminate|]. now apply fle_fin.
Qed.
Print Assumptions within_finite_tolerance_is_a_number.

(* 2b. vector level, for ANY shape of the result list: an error within tolerance bounds the change of
   every component, and a NaN change of any component makes the error NaN (so it never counts) *)
Theorem error_bounds_every_component : forall t new old,
  length new = length old ->
  fle (err_of (new, old)) (Fin t) = true ->
  Forall2 (change_within t) new old.
Proof. exact error_bounds_every_component_lemma. Qed.
Print Assumptions error_bounds_every_component.

Theorem nan_never_counts : forall new old tol,
  In NaN (map2 fsub new old) -> fle (err_of (new, old)) tol = false.
Proof. intros new old tol H. rewrite (nan_change_gives_nan_error _ _ H). reflexivity. Qed.
Print Assumptions nan_never_counts.

(* 2d. the update lines  pit[:, COL] -= x * alpha : a NaN entry of the solution x of the linear system makes
   the error of that variable NaN - such an iteration is never the converged one *)
Theorem nan_in_solution_never_converges : forall alpha old x i o tol,
  nth_error old i = Some o -> nth_error x i = Some NaN -> fle (err_of (upd alpha old x, old)) tol = false.
Proof. intros. rewrite (nan_in_solution_gives_nan_error alpha old x i o); auto. Qed.
Print Assumptions nan_in_solution_never_converges.

(* 2e. finite results.  Any vector-level oracle, finite tolerances for every examined variable: if the loop
   ends converged then in its last iteration every component of every examined (new, old) pair is a number
   (no NaN, no inf) ... *)
Theorem converged_vectors_are_numbers : forall cfg vorc a0,
  Forall is_num (c_tols cfg) -> c_nvars cfg <= length (c_tols cfg) ->
  (forall st p, In p (v_pairs (vorc st)) -> length (fst p) = length (snd p)) ->
  let fin := newton_v cfg vorc false a0 in
  s_conv fin = true ->
  exists prev, fin = step cfg (obs_of (c_nvars cfg) (vorc prev)) prev /\
    fle (v_res (vorc prev)) (c_tol_res cfg) = true /\
    (c_meth cfg = Automatic -> (s_alpha fin == 1)%Q) /\
    forall p, In p (firstn (c_nvars cfg) (v_pairs (vorc prev))) -> Forall is_num (fst p) /\ Forall is_num (snd p).
Proof. exact converged_vectors_lemma. Qed.
Print Assumptions converged_vectors_are_numbers.

(* ... and (C04 writeback_nan_pattern) extract_results_active_pit then puts a number into every row the
   connectivity mask marks as supplied and in service, and NaN into every other row *)
Theorem supplied_rows_get_numbers : forall (mask : list bool) (active : list fl),
  Forall is_num active -> length active = PP.C06.Model.count_true mask ->
  length (PP.C04.Model.writeback mask active) = length mask /\
  forall i, i < length mask ->
    (PP.C04.Model.nthb mask i = true -> exists q, nth i (PP.C04.Model.writeback mask active) None = Some (Fin q)) /\
    (PP.C04.Model.nthb mask i = false -> nth i (PP.C04.Model.writeback mask active) None = None).
Proof. exact writeback_of_numbers. Qed.
Print Assumptions supplied_rows_get_numbers.

(* 2f. for C08: both damping strategies accept an iteration only through the same tolerance test, the
   automatic one additionally only undamped - so they have the same accepted states *)
Theorem damping_same_fixed_points : forall cfgA cfgC o stA stC,
  c_meth cfgA = Automatic -> c_meth cfgC <> Automatic ->
  c_tols cfgA = c_tols cfgC -> c_tol_res cfgA = c_tol_res cfgC ->
  (s_conv (step cfgA o stA) = true ->
     s_conv (step cfgC o stC) = true /\ (s_alpha (step cfgA o stA) == 1)%Q) /\
  (s_conv (step cfgC o stC) = true -> (s_alpha (step cfgA o stA) == 1)%Q ->
     s_conv (step cfgA o stA) = true).
Proof. exact damping_same_fixed_points_lemma. Qed.
Print Assumptions damping_same_fixed_points.

(* 3. damping ladder *)
Theorem alpha_ladder : forall cfg o st,
  on_ladder (s_alpha st) ->
  on_ladder (s_alpha (step cfg o st)) /\
  ((s_alpha (step cfg o st) < s_alpha st)%Q ->
     c_meth cfg = Automatic /\ all_true (increased (o_errs o) (prev_errs o st)) = true) /\
  (c_meth cfg = Automatic -> all_true (increased (o_errs o) (prev_errs o st)) = false ->
     (s_alpha (step cfg o st) == Qmin 1 (s_alpha st * (10 # 1)))%Q) /\
  (c_meth cfg <> Automatic -> s_alpha (step cfg o st) = s_alpha st).
Proof. exact step_ladder. Qed.
Print Assumptions alpha_ladder.

Theorem alpha_stays_on_ladder : forall cfg orc c0 a0,
  on_ladder a0 -> on_ladder (s_alpha (newton cfg orc c0 a0)).
Proof. exact newton_ladder. Qed.
Print Assumptions alpha_stays_on_ladder.

(* the float facts behind the ladder (IEEE double, evaluated by Coq's primitive floats) *)
Example float_ladder :
  (PrimFloat.eqb (1 / 10) 0x1.999999999999ap-4 = true /\            (* 1.0 / 10 is the double 0.1 *)
   PrimFloat.eqb (0x1.999999999999ap-4 / 10) 0x1.47ae147ae147bp-7 = true /\   (* 0.1 / 10 is the double 0.01 *)
   PrimFloat.eqb (0x1.47ae147ae147bp-7 * 10) 0x1.999999999999ap-4 = true /\   (* 0.01 * 10 is the double 0.1 *)
   PrimFloat.eqb (0x1.999999999999ap-4 * 10) 1 = true /\                       (* 0.1 * 10 is 1.0 *)
   PrimFloat.leb 0x1.999999999999ap-4 0x1.999999999999ap-4 = true /\
   PrimFloat.leb 0x1.999999999999ap-4 0x1.47ae147ae147bp-7 = false /\         (* 0.01 >= 0.1 is false *)
   PrimFloat.leb nan 1 = false /\ PrimFloat.leb 1 nan = false /\ PrimFloat.ltb nan nan = false /\
   PrimFloat.leb infinity infinity = true /\ PrimFloat.leb infinity 1 = false)%float.
Proof. vm_compute. repeat split. Qed.

(* 4. with automatic damping exactly the variables whose error grew are reset to their old value *)
Theorem rejected_vars_restored : forall cfg o st i,
  nth_error (hd [] (s_rest (step cfg o st))) i = Some true <->
  (c_meth cfg = Automatic /\ i < c_nrestore cfg /\
   exists e p, nth_error (o_errs o) i = Some e /\ nth_error (prev_errs o st) i = Some p /\ fgt e p = true).
Proof. exact restored_lemma. Qed.
Print Assumptions rejected_vars_restored.

(* 5. pipeflow: a normal return means every executed Newton loop ended converged, the net is marked
   converged and the tables were written by the final extraction; PipeflowNotConverged means the net is
   marked not converged and every table is all-NaN; any other exception either touched nothing
   (init_options) or left all-NaN tables, and once the set-up phase is through - in particular when it is
   raised while the results are extracted, or escapes from a solve function - the net is marked not
   converged as well, unless it was raised inside a stage after that stage's loop had converged
   (nopost_env excludes exactly that; 5c shows why).  For ANY prior net state. *)
Theorem pipeflow_outcome : forall m e n,
  let '(n', o, sts) := pipeflow m e n in
  (o = Returned -> n_conv n' = true /\ n_tables n' = Written /\ sts <> [] /\
                   Forall ran sts /\ Forall (fun st => s_conv st = true) sts) /\
  (o = NotConverged -> n_conv n' = false /\ n_tables n' = AllNaN) /\
  (n_tables n' = Written -> o = Returned \/ (o = OtherException /\ n' = n)) /\
  (o = OtherException -> n' = n \/ n_tables n' = AllNaN) /\
  (o = OtherException -> pe_options_raise e = false -> pe_setup_raise e = false -> nopost_env e ->
     n_conv n' = false /\ n_tables n' = AllNaN).
Proof. exact pipeflow_outcome_lemma. Qed.
Print Assumptions pipeflow_outcome.

(* 5b. the extraction clause on its own: whatever the stages did, an exception raised by a component's
   extract_results leaves converged = False and all-NaN tables *)
Theorem extraction_failure_leaves_no_results : forall m e n,
  pe_options_raise e = false -> pe_setup_raise e = false -> pe_extract_raise e = true -> nopost_env e ->
  let '(n', o, _) := pipeflow m e n in
  o <> Returned /\ n_conv n' = false /\ n_tables n' = AllNaN.
Proof.
  intros m e n EO ES EX NP. pose proof (pipeflow_outcome_lemma m e n) as P.
  destruct (pipeflow m e n) as [[n' o] sts] eqn:E. unfold pipeflow_post in P.
  destruct P as [P1 [P2 [P3 [P4 P5]]]].
  assert (NR : o <> Returned).
  { intros ->. unfold pipeflow in E. rewrite EO, ES in E.
    destruct (pe_unsupplied e); [inversion E|]. destruct (pe_conn_raise e); [inversion E|].
    destruct m; try (destruct (n_hyd_flag _)); try (inversion E; fail);
      repeat match type of E with
             | context [stage ?k ?a ?b ?c ?d ?x] => destruct (stage k a b c d x) as [[? o'] ?]; destruct o'
             end; rewrite ?EX in E; inversion E. }
  split; auto. destruct o; [congruence | apply P2; auto | apply P5; auto].
Qed.
Print Assumptions extraction_failure_leaves_no_results.

(* 5c. refuted at full strength (kept visible): an exception raised inside a stage AFTER its loop converged
   - by rerun_* or extract_results_active_pit - is outside pipeflow's try/except: the tables are all NaN
   but net.converged stays True.  (No component overrides rerun_hydraulics and extract_results_active_pit
   is plain indexing: no API-level input reaches this path today.) *)
Theorem post_loop_exception_keeps_converged_flag_refuted :
  exists m e n, pe_options_raise e = false /\ pe_setup_raise e = false /\
    let '(n', o, _) := pipeflow m e n in
    o = OtherException /\ n_conv n' = true /\ n_tables n' = AllNaN.
Proof. exact post_loop_exception_keeps_flag. Qed.
Print Assumptions post_loop_exception_keeps_converged_flag_refuted.

(* 6. _internal_data does not survive a hydraulic / bidirectional stage, however the stage ends (return,
   PipeflowNotConverged, any exception escaping from the Newton loop), unless reuse_internal_data is set
   (or rerun_* itself raises, which happens before the pop) *)
Theorem internal_data_dropped : forall k hu more r n, k <> KHeat ->
  (forall x, In x (r :: more) -> ri_post x <> PostRerun) ->
  n_idata (fst (fst (stage k false hu r more n))) = false.
Proof. exact stage_idata. Qed.
Print Assumptions internal_data_dropped.

(* 7. stage wiring, over the table regenerated from the source: for every stage the names, tolerances
   and pit names handed to newton_raphson pair up one-to-one, in order, with the (new, old) vectors the
   stage's solve function returns; each pair is tested against the tolerance of its own column and a
   rejected step is restored into the very pit selection the pair was read from *)
Theorem stage_wiring_checks_every_unknown : forall w, In w stages -> wiring_spec w.
Proof.
  assert (H : forallb wiring_ok stages = true) by (vm_compute; reflexivity).
  intros w Hin. apply wiring_ok_spec. rewrite forallb_forall in H. now apply H.
Qed.
Print Assumptions stage_wiring_checks_every_unknown.

(* 7b. where a rejected step is restored.  finalize_iteration writes the old vector into net["_active_pit"];
   that is the pit the vector was read from iff the last reduce_pit before finalize_iteration has the mode of
   the reduce_pit the pair was read under.  Holds for hydraulics and heat_transfer ... *)
Theorem restore_targets_own_pit_partial : forall w q, In w stages -> sw_name w <> "bidirectional"%string ->
  In q (sw_pairs w) -> ps_reduce_mode q = sw_final_reduce_mode w.
Proof.
  assert (H : forallb (fun w => String.eqb (sw_name w) "bidirectional" || forallb (restore_in_own_pit w) (sw_pairs w)) stages = true)
    by (vm_compute; reflexivity).
  intros w q Hw Hn Hq. rewrite forallb_forall in H. specialize (H w Hw).
  apply orb_true_iff in H. destruct H as [H | H].
  - apply String.eqb_eq in H. contradiction.
  - rewrite forallb_forall in H. specialize (H q Hq). unfold restore_in_own_pit in H. now apply String.eqb_eq.
Qed.
Print Assumptions restore_targets_own_pit_partial.

(* ... in bidirectional mode what IS guaranteed: the thermal pairs are restored into the pit they came from,
   the restore of every pair goes to pit / column / rows of wiring_spec inside the heat-transfer selection ... *)
Theorem bidirectional_restore_guarantee : forall w q, In w stages -> sw_name w = "bidirectional"%string ->
  In q (sw_pairs w) ->
  sw_final_reduce_mode w = "heat_transfer"%string /\
  (ps_reduce_mode q = "heat_transfer"%string \/ ps_reduce_mode q = "hydraulics"%string) /\
  (ps_new_col q = "TOUTINIT"%string \/ ps_new_col q = "TINIT"%string -> ps_reduce_mode q = sw_final_reduce_mode w).
Proof.
  assert (H : forallb (fun w => negb (String.eqb (sw_name w) "bidirectional") ||
      (String.eqb (sw_final_reduce_mode w) "heat_transfer" &&
       forallb (fun q => (String.eqb (ps_reduce_mode q) "heat_transfer" || String.eqb (ps_reduce_mode q) "hydraulics") &&
                         (negb (String.eqb (ps_new_col q) "TOUTINIT" || String.eqb (ps_new_col q) "TINIT") ||
                          restore_in_own_pit w q)) (sw_pairs w))) stages = true) by (vm_compute; reflexivity).
  intros w q Hw Hn Hq. rewrite forallb_forall in H. specialize (H w Hw). rewrite Hn in H. simpl in H.
  apply andb_true_iff in H. destruct H as [H1 H2]. apply String.eqb_eq in H1.
  rewrite forallb_forall in H2. specialize (H2 q Hq). apply andb_true_iff in H2. destruct H2 as [H2 H3].
  split; auto. split.
  - apply orb_true_iff in H2. destruct H2 as [H2 | H2]; apply String.eqb_eq in H2; auto.
  - intros C. apply orb_true_iff in H3. destruct H3 as [H3 | H3].
    + exfalso. apply negb_true_iff in H3. apply orb_false_iff in H3. destruct H3 as [A B].
      destruct C as [C | C]; rewrite C in *; simpl in *; discriminate.
    + unfold restore_in_own_pit in H3. now apply String.eqb_eq.
Qed.
Print Assumptions bidirectional_restore_guarantee.

(* ... and what is NOT (known finding C05-bidirectional-automatic-restore-shape): the hydraulic pairs of the
   bidirectional stage are restored into the heat-transfer selection *)
Theorem bidirectional_restore_targets_other_pit_refuted :
  exists w q, In w stages /\ In q (sw_pairs w) /\ ps_reduce_mode q <> sw_final_reduce_mode w.
Proof.
  assert (H : existsb (fun w => existsb (fun q => negb (restore_in_own_pit w q)) (sw_pairs w)) stages = true)
    by (vm_compute; reflexivity).
  apply existsb_exists in H. destruct H as [w [Hw H]]. apply existsb_exists in H. destruct H as [q [Hq H]].
  exists w, q. split; auto. split; auto. intros E. unfold restore_in_own_pit in H. rewrite E, String.eqb_refl in H. discriminate.
Qed.
Print Assumptions bidirectional_restore_targets_other_pit_refuted.

(* 8. the statement skeletons the hand model follows are the ones the source has today *)
Theorem control_flow_skeleton_matches_model :
  map sw_name stages = ["hydraulics"; "heat_transfer"; "bidirectional"]%string /\
  (forall w, In w stages -> sw_body w = expected_body (sw_name w)) /\
  pipeflow_body = body_pipeflow /\
  rerun_hydraulics_body = body_rerun_hydraulics /\ rerun_heat_transfer_body = body_rerun_heat.
Proof.
  split; [reflexivity|]. split; [|repeat split; reflexivity].
  assert (H : forallb (fun w => list_str_eqb (sw_body w) (expected_body (sw_name w))) stages = true)
    by (vm_compute; reflexivity).
  intros w Hin. rewrite forallb_forall in H. specialize (H w Hin).
  revert H. generalize (sw_body w) (expected_body (sw_name w)).
  induction l as [|x l IH]; intros [|y l0] H; simpl in H; try discriminate; auto.
  apply andb_true_iff in H. destruct H as [H1 H2]. apply String.eqb_eq in H1. subst. f_equal. now apply IH.
Qed.
Print Assumptions control_flow_skeleton_matches_model.

(* non-vacuity: a scripted run that converges late after a rejected step (automatic damping) *)
Example driver_nontrivial :
  let cfg := {| c_max_iter := 10; c_meth := Automatic; c_nvars := 2; c_tols := [Fin (1 # 10); Fin (1 # 10)];
                c_tol_res := Fin (1 # 100); c_nrestore := 2 |} in
  let script := [ {| o_errs := [Fin 5; Fin 5]; o_res := Fin 1 |}; {| o_errs := [Fin 7; Fin 9]; o_res := Fin 1 |};
                  {| o_errs := [Fin 1; Fin 1]; o_res := Fin 1 |}; {| o_errs := [Fin (1 # 20); NaN]; o_res := Fin 0 |};
                  {| o_errs := [Fin (1 # 20); Fin 0]; o_res := PInf |}; {| o_errs := [Fin 0; Fin 0]; o_res := Fin 0 |} ] in
  let fin := newton cfg (fun st => nth (s_niter st) script {| o_errs := []; o_res := NaN |}) false 1 in
  s_conv fin = true /\ s_niter fin = 6 /\ s_alpha fin = 1%Q /\
  nth 4 (s_rest fin) [] = [true; true] /\ length stages = 3.
Proof. vm_compute. repeat split. Qed.

(* non-vacuity of the pipeflow theorems: a sequential call that returns, one whose extraction raises, one
   whose thermal stage fails after a converged hydraulic stage - on a net that was converged before *)
Example pipeflow_nontrivial :
  let cfg := {| c_max_iter := 3; c_meth := Constant; c_nvars := 1; c_tols := [Fin 1]; c_tol_res := Fin 1; c_nrestore := 0 |} in
  let good := {| ri_cfg := cfg; ri_orc := fun st => {| o_errs := [if Nat.eqb (s_niter st) 0 then Fin 5 else Fin 0]; o_res := Fin 0 |};
                 ri_rerun := false; ri_escape := NoEscape; ri_post := NoPost |} in
  let bad := {| ri_cfg := cfg; ri_orc := fun _ => {| o_errs := [NaN]; o_res := Fin 0 |};
                ri_rerun := false; ri_escape := NoEscape; ri_post := NoPost |} in
  let env x hr := {| pe_options_raise := false; pe_setup_raise := false; pe_unsupplied := false; pe_conn_raise := false;
                     pe_heat_unsupplied := false; pe_extract_raise := x; pe_reuse := false; pe_alpha0 := 1;
                     pe_hyd := (good, []); pe_heat := (hr, []); pe_bid := good |} in
  let n0 := {| n_conv := true; n_tables := Written; n_hyd_flag := true; n_idata := false; n_alpha := 1 |} in
  (let '(n', o, sts) := pipeflow MSequential (env false good) n0 in
     o = Returned /\ n_conv n' = true /\ n_tables n' = Written /\ length sts = 2 /\ map s_niter sts = [2; 2]) /\
  (let '(n', o, _) := pipeflow MSequential (env true good) n0 in o = OtherException /\ n_conv n' = false /\ n_tables n' = AllNaN) /\
  (let '(n', o, _) := pipeflow MSequential (env false bad) n0 in o = NotConverged /\ n_conv n' = false /\ n_tables n' = AllNaN) /\
  nopost_env (env true good).
Proof. vm_compute. repeat split; auto. Qed.

(* non-vacuity of the vector-level theorems: a two-variable run over ragged vectors converging in its third
   iteration; the active vector written back under a mask with an unsupplied row *)
Example vectors_nontrivial :
  let cfg := {| c_max_iter := 5; c_meth := Automatic; c_nvars := 2; c_tols := [Fin (1 # 100); Fin (1 # 10)];
                c_tol_res := Fin (1 # 1000); c_nrestore := 2 |} in
  let it (a b : Q) := {| v_pairs := [([Fin a; Fin 2; Fin 3], [Fin 1; Fin 2; Fin 3]); ([Fin b], [Fin 0])]; v_res := Fin 0 |} in
  let script := [it 4%Q 9%Q; it 2%Q 1%Q; it (101 # 100)%Q (1 # 20)%Q] in
  let fin := newton_v cfg (fun st => nth (s_niter st) script {| v_pairs := []; v_res := NaN |}) false 1 in
  s_conv fin = true /\ s_niter fin = 3 /\
  PP.C04.Model.writeback [true; false; true; true] [Fin (101 # 100); Fin 2; Fin 3] =
    [Some (Fin (101 # 100)); None; Some (Fin 2); Some (Fin 3)] /\
  err_of (upd 1 [Fin 1; Fin 2] [Fin 0; NaN], [Fin 1; Fin 2]) = NaN.
Proof. vm_compute. repeat split; auto. Qed.
