(* C05 - property theorems only.  Each is closed by [exact] of a lemma of Proofs.v (hand model, tied by
   the scripted-driver and pipeflow correspondences) or decided by computation on Gen/StageWiring.v
   (regenerated from pandapipes/pipeflow.py on every run). *)
From Coq Require Import String Ascii QArith Qabs Qminmax List Bool ZArith Lia PrimFloat.
From PP Require Import C05.Model C05.Proofs Gen.StageWiring.
Import ListNotations.
Open Scope nat_scope.

(* 1. the Newton loop makes at most max_iter iterations; it stops early only when converged *)
Theorem loop_terminates : forall cfg orc c0 a0,
  s_niter (newton cfg orc c0 a0) <= c_max_iter cfg /\
  (s_conv (newton cfg orc c0 a0) = false -> s_niter (newton cfg orc c0 a0) = c_max_iter cfg).
Proof. exact loop_terminates_lemma. Qed.
Print Assumptions loop_terminates.

(* 2. for every observation oracle: if the loop (started unconverged, as every stage does) ends
   converged, its last iteration saw every error <= its tolerance, the residual <= tol_res, and with
   automatic damping the step was undamped.  A NaN or +inf error never passes a finite tolerance. *)
Theorem converged_implies_last_within_tol : forall cfg orc a0,
  (forall st, length (o_errs (orc st)) <= length (c_tols cfg)) ->
  let fin := newton cfg orc false a0 in
  s_conv fin = true ->
  exists prev, let o := orc prev in
    fin = step cfg o prev /\ s_niter fin = S (s_niter prev) /\ s_niter fin <= c_max_iter cfg /\
    errs_within (o_errs o) (c_tols cfg) /\ fle (o_res o) (c_tol_res cfg) = true /\
    (c_meth cfg = Automatic -> (s_alpha fin == 1)%Q) /\
    hd_error (s_hist fin) = Some (o_errs o).
Proof. exact converged_lemma. Qed.
Print Assumptions converged_implies_last_within_tol.

Theorem within_finite_tolerance_is_a_number : forall e t,
  fle e (Fin t) = true -> e <> NaN /\ e <> PInf /\ (e = NInf \/ exists q, e = Fin q /\ (q <= t)%Q).
Proof.
  intros e t H. split; [intros ->; discriminate|]. split; [intros ->; discriminate|]. now apply fle_fin.
Qed.
Print Assumptions within_finite_tolerance_is_a_number.

(* 2b. vector level, for ANY shape of the result list: an error within tolerance bounds the change of
   every component, and a NaN change of any component makes the error NaN (so it never counts) *)
Theorem error_bounds_every_component : forall t new old,
  length new = length old ->
  fle (err_of (new, old)) (Fin t) = true ->
  Forall2 (change_within t) new old.
Proof. exact error_bounds_every_component_lemma. Qed.
Print Assumptions error_bounds_every_component.

Theorem nan_never_counts : forall new old tol,
  In NaN (map2 fsub new old) -> fle (err_of (new, old)) tol = false.
Proof. intros new old tol H. rewrite (nan_change_gives_nan_error _ _ H). reflexivity. Qed.
Print Assumptions nan_never_counts.

(* 3. damping ladder *)
Theorem alpha_ladder : forall cfg o st,
  on_ladder (s_alpha st) ->
  on_ladder (s_alpha (step cfg o st)) /\
  ((s_alpha (step cfg o st) < s_alpha st)%Q ->
     c_meth cfg = Automatic /\ all_true (increased (o_errs o) (prev_errs o st)) = true) /\
  (c_meth cfg = Automatic -> all_true (increased (o_errs o) (prev_errs o st)) = false ->
     (s_alpha (step cfg o st) == Qmin 1 (s_alpha st * (10 # 1)))%Q) /\
  (c_meth cfg <> Automatic -> s_alpha (step cfg o st) = s_alpha st).
Proof. exact step_ladder. Qed.
Print Assumptions alpha_ladder.

Theorem alpha_stays_on_ladder : forall cfg orc c0 a0,
  on_ladder a0 -> on_ladder (s_alpha (newton cfg orc c0 a0)).
Proof. exact newton_ladder. Qed.
Print Assumptions alpha_stays_on_ladder.

(* the float facts behind the ladder (IEEE double, evaluated by Coq's primitive floats) *)
Example float_ladder :
  (PrimFloat.eqb (1 / 10) 0x1.999999999999ap-4 = true /\            (* 1.0 / 10 is the double 0.1 *)
   PrimFloat.eqb (0x1.999999999999ap-4 / 10) 0x1.47ae147ae147bp-7 = true /\   (* 0.1 / 10 is the double 0.01 *)
   PrimFloat.eqb (0x1.47ae147ae147bp-7 * 10) 0x1.999999999999ap-4 = true /\   (* 0.01 * 10 is the double 0.1 *)
   PrimFloat.eqb (0x1.999999999999ap-4 * 10) 1 = true /\                       (* 0.1 * 10 is 1.0 *)
   PrimFloat.leb 0x1.999999999999ap-4 0x1.999999999999ap-4 = true /\
   PrimFloat.leb 0x1.999999999999ap-4 0x1.47ae147ae147bp-7 = false /\         (* 0.01 >= 0.1 is false *)
   PrimFloat.leb nan 1 = false /\ PrimFloat.leb 1 nan = false /\ PrimFloat.ltb nan nan = false /\
   PrimFloat.leb infinity infinity = true /\ PrimFloat.leb infinity 1 = false)%float.
Proof. vm_compute. repeat split. Qed.

(* 4. with automatic damping exactly the variables whose error grew are reset to their old value *)
Theorem rejected_vars_restored : forall cfg o st i,
  nth_error (hd [] (s_rest (step cfg o st))) i = Some true <->
  (c_meth cfg = Automatic /\ i < c_nrestore cfg /\
   exists e p, nth_error (o_errs o) i = Some e /\ nth_error (prev_errs o st) i = Some p /\ fgt e p = true).
Proof. exact restored_lemma. Qed.
Print Assumptions rejected_vars_restored.

(* 5. pipeflow: a normal return means every executed Newton loop ended converged, the net is marked
   converged and the tables were written by the final extraction; PipeflowNotConverged means the net is
   marked not converged and every table is all-NaN; any other exception either touched nothing
   (init_options) or left all-NaN tables, and once the set-up phase is through - in particular when it is
   raised while the results are extracted, or escapes from a solve function - the net is marked not
   converged as well.  For ANY prior net state. *)
Theorem pipeflow_outcome : forall m e n,
  let '(n', o, sts) := pipeflow m e n in
  (o = Returned -> n_conv n' = true /\ n_tables n' = Written /\ sts <> [] /\
                   Forall ran sts /\ Forall (fun st => s_conv st = true) sts) /\
  (o = NotConverged -> n_conv n' = false /\ n_tables n' = AllNaN) /\
  (n_tables n' = Written -> o = Returned \/ (o = OtherException /\ n' = n)) /\
  (o = OtherException -> n' = n \/ n_tables n' = AllNaN) /\
  (o = OtherException -> pe_options_raise e = false -> pe_setup_raise e = false ->
     n_conv n' = false /\ n_tables n' = AllNaN).
Proof. exact pipeflow_outcome_lemma. Qed.
Print Assumptions pipeflow_outcome.

(* 5b. the extraction clause on its own: whatever the stages did, an exception raised by a component's
   extract_results leaves converged = False and all-NaN tables *)
Theorem extraction_failure_leaves_no_results : forall m e n,
  pe_options_raise e = false -> pe_setup_raise e = false -> pe_extract_raise e = true ->
  let '(n', o, _) := pipeflow m e n in
  o <> Returned /\ n_conv n' = false /\ n_tables n' = AllNaN.
Proof.
  intros m e n EO ES EX. pose proof (pipeflow_outcome_lemma m e n) as P.
  destruct (pipeflow m e n) as [[n' o] sts] eqn:E. unfold pipeflow_post in P.
  destruct P as [P1 [P2 [P3 [P4 P5]]]].
  assert (NR : o <> Returned).
  { intros ->. unfold pipeflow in E. rewrite EO, ES in E.
    destruct (pe_unsupplied e); [inversion E|]. destruct (pe_conn_raise e); [inversion E|].
    destruct m; try (destruct (n_hyd_flag _)); try (inversion E; fail);
      repeat match type of E with
             | context [stage ?k ?a ?b ?c ?d ?x] => destruct (stage k a b c d x) as [[? o'] ?]; destruct o'
             end; rewrite ?EX in E; inversion E. }
  split; auto. destruct o; [congruence | apply P2; auto | apply P5; auto].
Qed.
Print Assumptions extraction_failure_leaves_no_results.

(* 6. _internal_data does not survive a hydraulic / bidirectional stage, however the stage ends (return,
   PipeflowNotConverged, any exception escaping from the Newton loop), unless reuse_internal_data is set *)
Theorem internal_data_dropped : forall k hu more r n, k <> KHeat ->
  n_idata (fst (fst (stage k false hu r more n))) = false.
Proof. exact stage_idata. Qed.
Print Assumptions internal_data_dropped.

(* 7. stage wiring, over the table regenerated from the source: for every stage the names, tolerances
   and pit names handed to newton_raphson pair up one-to-one, in order, with the (new, old) vectors the
   stage's solve function returns; each pair is tested against the tolerance of its own column and a
   rejected step is restored into the very pit selection the pair was read from *)
Theorem stage_wiring_checks_every_unknown : forall w, In w stages -> wiring_spec w.
Proof.
  assert (H : forallb wiring_ok stages = true) by (vm_compute; reflexivity).
  intros w Hin. apply wiring_ok_spec. rewrite forallb_forall in H. now apply H.
Qed.
Print Assumptions stage_wiring_checks_every_unknown.

(* 8. the statement skeletons the hand model follows are the ones the source has today *)
Theorem control_flow_skeleton_matches_model :
  map sw_name stages = ["hydraulics"; "heat_transfer"; "bidirectional"]%string /\
  (forall w, In w stages -> sw_body w = expected_body (sw_name w)) /\
  pipeflow_body = body_pipeflow /\
  rerun_hydraulics_body = body_rerun_hydraulics /\ rerun_heat_transfer_body = body_rerun_heat.
Proof.
  split; [reflexivity|]. split; [|repeat split; reflexivity].
  assert (H : forallb (fun w => list_str_eqb (sw_body w) (expected_body (sw_name w))) stages = true)
    by (vm_compute; reflexivity).
  intros w Hin. rewrite forallb_forall in H. specialize (H w Hin).
  revert H. generalize (sw_body w) (expected_body (sw_name w)).
  induction l as [|x l IH]; intros [|y l0] H; simpl in H; try discriminate; auto.
  apply andb_true_iff in H. destruct H as [H1 H2]. apply String.eqb_eq in H1. subst. f_equal. now apply IH.
Qed.
Print Assumptions control_flow_skeleton_matches_model.

(* non-vacuity: a scripted run that converges late after a rejected step (automatic damping) *)
Example driver_nontrivial :
  let cfg := {| c_max_iter := 10; c_meth := Automatic; c_nvars := 2; c_tols := [Fin (1 # 10); Fin (1 # 10)];
                c_tol_res := Fin (1 # 100); c_nrestore := 2 |} in
  let script := [ {| o_errs := [Fin 5; Fin 5]; o_res := Fin 1 |}; {| o_errs := [Fin 7; Fin 9]; o_res := Fin 1 |};
                  {| o_errs := [Fin 1; Fin 1]; o_res := Fin 1 |}; {| o_errs := [Fin (1 # 20); NaN]; o_res := Fin 0 |};
                  {| o_errs := [Fin (1 # 20); Fin 0]; o_res := PInf |}; {| o_errs := [Fin 0; Fin 0]; o_res := Fin 0 |} ] in
  let fin := newton cfg (fun st => nth (s_niter st) script {| o_errs := []; o_res := NaN |}) false 1 in
  s_conv fin = true /\ s_niter fin = 6 /\ s_alpha fin = 1%Q /\
  nth 4 (s_rest fin) [] = [true; true] /\ length stages = 3.
Proof. vm_compute. repeat split. Qed.
