(* C02 - further property theorems: zero-length branches (valves, heat exchangers, pumps), Colebrook-White, closeness of the
   two Nikuradse forms.  Proofs: Proofs.v (stdlib), ProofsColebrook.v (Coquelicot), ProofsBounds.v (coq-interval). *)
From Coq Require Import Reals Bool Lra.
From Coquelicot Require Import Coquelicot.
From PP Require Import Kern.RBool C02.Spec Gen.KHydIncompNp Gen.KHydIncompNb Gen.KColebrook Gen.KLambdaNp.
From PP Require C02.Proofs C02.ProofsColebrook C02.ProofsBounds.
Open Scope R_scope.

(* valves, heat exchangers, pumps, compressor-free liquid branches are pit rows of length 0: the law reduces to
   p_from - p_to + lift + [rho g dh - zeta rho v|v|/2] / 1e5 (lift = pump pressure; zeta = valve / heat exchanger loss
   coefficient), whatever lambda and D are *)
Theorem zero_length_branch_law :
  forall (nb : bool) (bp_AREA bp_D bp_LAMBDA bp_LOSS_COEFFICIENT bp_MDOTINIT bp_PL der_lambda height_difference
          p_init_i1_abs p_init_i_abs rho : R),
  bp_AREA <> 0 -> bp_D <> 0 -> rho <> 0 -> 0 <= bp_MDOTINIT ->
  let lv := if nb then hyd_incomp_nb_load_vec bp_AREA bp_D bp_LAMBDA 0 bp_LOSS_COEFFICIENT bp_MDOTINIT bp_PL
                         der_lambda height_difference p_init_i1_abs p_init_i_abs rho
            else hyd_incomp_np_load_vec bp_AREA bp_D bp_LAMBDA 0 bp_LOSS_COEFFICIENT bp_MDOTINIT bp_PL
                         der_lambda height_difference p_init_i1_abs p_init_i_abs rho in
  let v := bp_MDOTINIT / (rho * bp_AREA) in
  lv * bar = (p_init_i_abs - p_init_i1_abs + bp_PL) * bar + rho * g_doc * height_difference
             - bp_LOSS_COEFFICIENT * (rho * v ^ 2 / 2).
Proof. exact C02.Proofs.zero_length_lemma. Qed.
Print Assumptions zero_length_branch_law.

(* friction_model = "colebrook": the function handed to scipy.optimize.newton vanishes exactly at the solutions of the documented
   equation 1/sqrt(lambda) = -2 log(2.51 / (Re sqrt(lambda)) + k / (3.71 d)) *)
Theorem colebrook_implicit_is_documented_equation : forall d k lam re : R, 0 < lam ->
  cw_implicit_f d k lam re = 0 <-> 1 / sqrt lam = - 2 * log10 (251 / 100 / (re * sqrt lam) + k / (371 / 100 * d)).
Proof. exact C02.ProofsColebrook.colebrook_iff_lemma. Qed.
Print Assumptions colebrook_implicit_is_documented_equation.

(* ... the fprime argument is its exact derivative with respect to lambda ... *)
Theorem colebrook_derivative_is_exact : forall d k lam re : R,
  0 < lam -> 0 < re -> 0 < 251 / 100 / (re * sqrt lam) + k / (371 / 100 * d) ->
  is_derive (fun x => cw_implicit_f d k x re) lam (cw_derivative_df d k lam re).
Proof. exact C02.ProofsColebrook.colebrook_derivative_lemma. Qed.
Print Assumptions colebrook_derivative_is_exact.

(* ... and any fixed point of the Newton step is a root.  That newton() reaches one within its tolerance is an oracle
   (monitor: |f(reported lambda)| <= 2e-2). *)
Theorem colebrook_newton_fixed_point_is_root : forall d k lam re : R,
  cw_derivative_df d k lam re <> 0 ->
  lam - cw_implicit_f d k lam re / cw_derivative_df d k lam re = lam -> cw_implicit_f d k lam re = 0.
Proof. exact C02.ProofsColebrook.colebrook_newton_lemma. Qed.
Print Assumptions colebrook_newton_fixed_point_is_root.

(* gases use 1/(2 log(d/k) + 1.14)^2, the documentation (and the liquid kernel) 1/(-2 log(k/(3.71 d)))^2: within 1e-3 relative
   for every relative roughness 1e-6 <= k/d <= 0.1 *)
Theorem nikuradse_forms_close : forall area d eta k m : R,
  0 < k -> 10 <= d / k <= 1000000 ->
  Rabs (lambda_comp_np_lambda_nikuradse area d eta k m - lambda_incomp_np_lambda_nikuradse area d eta k m)
  <= 1 / 1000 * lambda_incomp_np_lambda_nikuradse area d eta k m.
Proof. exact C02.ProofsBounds.nikuradse_forms_close_lemma. Qed.
Print Assumptions nikuradse_forms_close.

(* hypotheses are satisfiable: DN100, k = 0.1 mm (d/k = 1000), Re = 1e5, lambda = 0.02 *)
Example colebrook_guards_example :
  0 < (2 / 100 : R) /\ 0 < (100000 : R) /\
  0 < 251 / 100 / (100000 * sqrt (2 / 100)) + (1 / 10000) / (371 / 100 * (1 / 10)) /\
  10 <= (1 / 10) / (1 / 10000) <= 1000000.
Proof.
  assert (Hs : 0 < sqrt (2 / 100)) by (apply sqrt_lt_R0; lra).
  repeat split; try lra.
  apply Rplus_lt_0_compat; [| lra]. apply Rdiv_lt_0_compat; [lra |]. apply Rmult_lt_0_compat; lra.
Qed.
