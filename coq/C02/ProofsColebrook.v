(* C02 - Colebrook-White: the function scipy.optimize.newton iterates (nested in colebrook_white, translated to
   Gen/KColebrook.v) against the documented implicit equation; its derivative argument is the exact derivative. Coquelicot style. *)
From Coq Require Import Reals Lra.
From Coquelicot Require Import Coquelicot.
From PP Require Import Kern.RBool Gen.KColebrook.
Open Scope R_scope.

Lemma Rpower_mhalf x : 0 < x -> Rpower x (- (1 / 2)) = / sqrt x.
Proof. intros H. rewrite Rpower_Ropp. replace (1 / 2) with (/ 2) by lra. rewrite Rpower_sqrt by exact H. reflexivity. Qed.

Lemma colebrook_iff_lemma d k lam re : 0 < lam ->
  cw_implicit_f d k lam re = 0 <-> 1 / sqrt lam = - 2 * log10 (251 / 100 / (re * sqrt lam) + k / (371 / 100 * d)).
Proof. intros H. unfold cw_implicit_f. rewrite Rpower_mhalf by exact H. split; intros E; lra. Qed.

Lemma exp_mhalf x : 0 < x -> exp (- (1 / 2) * ln x) = / sqrt x.
Proof. intros H. rewrite <- (Rpower_mhalf x H). unfold Rpower. reflexivity. Qed.
Lemma exp_m3half x : 0 < x -> exp (- (3 / 2) * ln x) = / (x * sqrt x).
Proof.
  intros H. change (exp (- (3 / 2) * ln x)) with (Rpower x (- (3 / 2))). rewrite Rpower_Ropp.
  replace (3 / 2) with (1 + / 2) by lra. rewrite Rpower_plus, Rpower_1, Rpower_sqrt by exact H. reflexivity.
Qed.

Lemma colebrook_derivative_lemma d k lam re : 0 < lam -> 0 < re -> 0 < 251 / 100 / (re * sqrt lam) + k / (371 / 100 * d) ->
  is_derive (fun x => cw_implicit_f d k x re) lam (cw_derivative_df d k lam re).
Proof.
  intros Hl Hr Ha. unfold cw_implicit_f, cw_derivative_df, log10, Rpower.
  assert (Hs : 0 < sqrt lam) by (apply sqrt_lt_R0; exact Hl).
  assert (Hln : 0 < ln 10) by (rewrite <- ln_1; apply ln_increasing; lra).
  auto_derive.
  - repeat split; try assumption. apply Rgt_not_eq. apply Rmult_lt_0_compat; assumption.
  - rewrite exp_mhalf, exp_m3half by exact Hl.
    set (q := k / (371 / 100 * d)) in *. set (s := sqrt lam) in *.
    assert (El : lam = s * s) by (unfold s; rewrite sqrt_sqrt; lra). rewrite El.
    assert (Hq : 251 / 100 * / (re * s) + q <> 0) by (unfold Rdiv in Ha; lra).
    assert (Hrs : 0 < re * s) by (apply Rmult_lt_0_compat; assumption).
    assert (Hp : 0 < (251 / 100 / (re * s) + q) * (100 * (re * s))) by (apply Rmult_lt_0_compat; lra).
    replace ((251 / 100 / (re * s) + q) * (100 * (re * s))) with (251 + q * (100 * (re * s))) in Hp by (field; lra).
    field. repeat split; lra.
Qed.

(* a fixed point of the Newton step x - f(x)/f'(x) is a root (whatever scipy's iteration does to find it) *)
Lemma colebrook_newton_lemma d k lam re :
  cw_derivative_df d k lam re <> 0 ->
  lam - cw_implicit_f d k lam re / cw_derivative_df d k lam re = lam -> cw_implicit_f d k lam re = 0.
Proof.
  intros Hd Hfix. assert (E : cw_implicit_f d k lam re / cw_derivative_df d k lam re = 0) by lra.
  unfold Rdiv in E. apply Rmult_integral in E. destruct E as [E | E]; [exact E |].
  exfalso. revert E. apply Rinv_neq_0_compat. exact Hd.
Qed.
