(* C02 - the documented pressure-loss law, hand-written from doc/source/components/pipe/pipe_component.rst
   (sections "Incompressible media", "Compressible media", "Friction models") in the documented variables.
   Definitions only.  SI units (Pa, m, kg, s, K); the code works in bar: 1 bar = 100000 Pa. *)
From Coq Require Import Reals.
From PP Require Import Kern.RBool.
Open Scope R_scope.

Definition g_doc : R := 981 / 100.                 (* gravitational acceleration *)
Definition pN_pa : R := 101325.                    (* normal pressure in Pa *)
Definition TN_k : R := 27315 / 100.                (* normal temperature *)
Definition bar : R := 100000.

(* "p_loss = rho g dh - rho lambda(v) l v^2 / (2 d) - zeta rho v^2 / 2"   (Pa; dh = h_from - h_to, v in flow direction) *)
Definition doc_p_loss (rho dh lambda l d zeta v : R) : R :=
  rho * g_doc * dh - rho * lambda * l * v ^ 2 / (2 * d) - zeta * (rho * v ^ 2 / 2).

(* "dp_loss = - lambda(v) rho_N v_N^2 / (2 d) * p_N / p * T / T_N * K dl"  : the coefficient C of  p dp = - C dl  (Pa^2 / m) *)
Definition doc_gas_coeff (lambda rhoN vN d T K : R) : R :=
  lambda * (rhoN * vN ^ 2 / (2 * d)) * pN_pa * (T / TN_k) * K.

(* "v = T p_N / (p T_N) * v_N" : the factor between reference and real velocity, times the compressibility *)
Definition doc_normfactor (p_bar T K : R) : R := (T * (pN_pa / bar)) / (p_bar * TN_k) * K.

(* friction models *)
Definition doc_lambda_nikuradse (re k d : R) : R := 64 / re + 1 / (- 2 * log10 (k / (371 / 100 * d))) ^ 2.
Definition doc_lambda_swamee_jain (re k d : R) : R :=
  (25 / 100) / (log10 (k / (37 / 10 * d) + (574 / 100) / Rpower re (9 / 10))) ^ 2.

(* barometric formula with the constants of constants.py: p0 (1 - L h / T0)^n *)
Definition doc_p_air (h : R) : R := (101325 / 100000) * Rpower (1 - h * (65 / 10000) / (28815 / 100)) (5255 / 1000).
