(* C02 - property theorems only.  Statements relate the GENERATED kernels (Gen/K*.v, regenerated from the source on
   every run) to the hand-written documented law (C02/Spec.v); each is closed by [exact] of a lemma of Proofs.v. *)
From Coq Require Import Reals Bool Lra.
From PP Require Import Kern.RBool C02.Spec Gen.KHydIncompNp Gen.KHydIncompNb Gen.KHydCompNp Gen.KHydCompNb Gen.KPmNp
  Gen.KFriction Gen.KBasicRes Gen.KGasResNp Gen.KGasResNb Gen.KPamb Gen.KBranchProps.
From PP Require C02.Proofs.
Open Scope R_scope.

(* liquid residual of both engines (nb = true: numba) = p_from - p_to + lift + documented p_loss, in bar * 1e5, for forward and for reverse flow (law applied in flow direction); hence load_vec = 0 iff the documented law holds *)
Theorem incomp_residual_is_darcy_weisbach :
  forall nb : bool,
  forall bp_AREA bp_D bp_LAMBDA bp_LENGTH bp_LOSS_COEFFICIENT bp_MDOTINIT bp_PL der_lambda height_difference
         p_init_i1_abs p_init_i_abs rho : R,
  bp_AREA <> 0 -> bp_D <> 0 -> rho <> 0 ->
  let lv := if nb then hyd_incomp_nb_load_vec bp_AREA bp_D bp_LAMBDA bp_LENGTH bp_LOSS_COEFFICIENT bp_MDOTINIT bp_PL
                         der_lambda height_difference p_init_i1_abs p_init_i_abs rho
            else hyd_incomp_np_load_vec bp_AREA bp_D bp_LAMBDA bp_LENGTH bp_LOSS_COEFFICIENT bp_MDOTINIT bp_PL
                         der_lambda height_difference p_init_i1_abs p_init_i_abs rho in
  let v := bp_MDOTINIT / (rho * bp_AREA) in
  (0 <= bp_MDOTINIT ->
   lv * bar = (p_init_i_abs - p_init_i1_abs + bp_PL) * bar
              + doc_p_loss rho height_difference bp_LAMBDA bp_LENGTH bp_D bp_LOSS_COEFFICIENT v) /\
  (bp_MDOTINIT <= 0 ->
   - lv * bar = (p_init_i1_abs - p_init_i_abs - bp_PL) * bar
                + doc_p_loss rho (- height_difference) bp_LAMBDA bp_LENGTH bp_D bp_LOSS_COEFFICIENT (- v)).
Proof. exact C02.Proofs.incomp_lemma. Qed.
Print Assumptions incomp_residual_is_darcy_weisbach.

(* gas residual of both engines = integrated documented law  (P_i^2 - P_{i+1}^2)/2 = C L  (+ lift, height, lumped loss), P in Pa *)
Theorem comp_residual_is_gas_law :
  forall nb : bool,
  forall bp_AREA bp_D bp_LENGTH bp_LOSS_COEFFICIENT bp_MDOTINIT bp_PL bp_TOUTINIT comp_fact der_comp der_comp1 der_lambda
         height_difference lambda_ np_from_TINIT p_init_i1_abs p_init_i_abs rho rho_n : R,
  bp_AREA <> 0 -> bp_D <> 0 -> rho_n <> 0 -> p_init_i_abs + p_init_i1_abs <> 0 -> 0 <= bp_MDOTINIT ->
  let lv := if nb then hyd_comp_nb_load_vec bp_AREA bp_D bp_LENGTH bp_LOSS_COEFFICIENT bp_MDOTINIT bp_PL bp_TOUTINIT comp_fact
                         der_comp der_comp1 der_lambda height_difference lambda_ np_from_TINIT p_init_i1_abs p_init_i_abs rho rho_n
            else hyd_comp_np_load_vec bp_AREA bp_D bp_LENGTH bp_LOSS_COEFFICIENT bp_MDOTINIT bp_PL bp_TOUTINIT comp_fact
                         der_comp der_comp1 der_lambda height_difference lambda_ np_from_TINIT p_init_i1_abs p_init_i_abs rho rho_n in
  let vN := bp_MDOTINIT / (rho_n * bp_AREA) in
  let Tm := (np_from_TINIT + bp_TOUTINIT) / 2 in
  let Pi := p_init_i_abs * bar in let Pi1 := p_init_i1_abs * bar in
  lv * bar * ((Pi + Pi1) / 2) =
    (Pi ^ 2 - Pi1 ^ 2) / 2 + (bp_PL * bar + rho * g_doc * height_difference) * ((Pi + Pi1) / 2)
    - (doc_gas_coeff lambda_ rho_n vN bp_D Tm comp_fact * bp_LENGTH
       + bp_LOSS_COEFFICIENT * (rho_n * vN ^ 2 / 2) * pN_pa * (Tm / TN_k) * comp_fact).
Proof. exact C02.Proofs.comp_lemma. Qed.
Print Assumptions comp_residual_is_gas_law.

(* gas residual against the declared direction (m <= 0): the same integrated law from node i+1 to node i *)
Theorem comp_residual_is_gas_law_reverse :
  forall nb : bool,
  forall bp_AREA bp_D bp_LENGTH bp_LOSS_COEFFICIENT bp_MDOTINIT bp_PL bp_TOUTINIT comp_fact der_comp der_comp1 der_lambda
         height_difference lambda_ np_from_TINIT p_init_i1_abs p_init_i_abs rho rho_n : R,
  bp_AREA <> 0 -> bp_D <> 0 -> rho_n <> 0 -> p_init_i_abs + p_init_i1_abs <> 0 -> bp_MDOTINIT <= 0 ->
  let lv := if nb then hyd_comp_nb_load_vec bp_AREA bp_D bp_LENGTH bp_LOSS_COEFFICIENT bp_MDOTINIT bp_PL bp_TOUTINIT comp_fact
                         der_comp der_comp1 der_lambda height_difference lambda_ np_from_TINIT p_init_i1_abs p_init_i_abs rho rho_n
            else hyd_comp_np_load_vec bp_AREA bp_D bp_LENGTH bp_LOSS_COEFFICIENT bp_MDOTINIT bp_PL bp_TOUTINIT comp_fact
                         der_comp der_comp1 der_lambda height_difference lambda_ np_from_TINIT p_init_i1_abs p_init_i_abs rho rho_n in
  let vN := bp_MDOTINIT / (rho_n * bp_AREA) in
  let Tm := (np_from_TINIT + bp_TOUTINIT) / 2 in
  let Pi := p_init_i_abs * bar in let Pi1 := p_init_i1_abs * bar in
  - lv * bar * ((Pi + Pi1) / 2) =
    (Pi1 ^ 2 - Pi ^ 2) / 2 - (bp_PL * bar + rho * g_doc * height_difference) * ((Pi + Pi1) / 2)
    - (doc_gas_coeff lambda_ rho_n vN bp_D Tm comp_fact * bp_LENGTH
       + bp_LOSS_COEFFICIENT * (rho_n * vN ^ 2 / 2) * pN_pa * (Tm / TN_k) * comp_fact).
Proof. exact C02.Proofs.comp_lemma_rev. Qed.
Print Assumptions comp_residual_is_gas_law_reverse.

(* mean pressure = 2/3 (p_i + p_{i+1} - p_i p_{i+1}/(p_i + p_{i+1})), the mean of a profile with linear p^2 *)
Theorem pm_is_quadratic_mean : forall p_init_i1_abs p_init_i_abs : R,
  p_init_i_abs <> p_init_i1_abs -> p_init_i_abs + p_init_i1_abs <> 0 ->
  pm_np_p_m p_init_i1_abs p_init_i_abs =
    2 / 3 * (p_init_i_abs + p_init_i1_abs - p_init_i_abs * p_init_i1_abs / (p_init_i_abs + p_init_i1_abs)).
Proof. exact C02.Proofs.pm_lemma. Qed.
Print Assumptions pm_is_quadratic_mean.

(* ... and lies strictly between the end pressures *)
Theorem pm_between_end_pressures : forall b a : R, 0 < b -> b < a -> b < pm_np_p_m b a < a.
Proof. exact C02.Proofs.pm_between. Qed.
Print Assumptions pm_between_end_pressures.

(* liquids, friction_model nikuradse: lambda used by the solver (both engines) = 64/Re + 1/(-2 log(k/(3.71 d)))^2 for Re > 1e-8 *)
Theorem lambda_nikuradse_doc : forall area d eta k m : R,
  1 / 100000000 < Rabs m * d / (eta * area) ->
  let re := calc_lambda_nik_liq_np_re area d eta k m in
  re = Rabs m * d / (eta * area) /\
  calc_lambda_nik_liq_np_lambda_ area d eta k m = doc_lambda_nikuradse re k d /\
  calc_lambda_nik_liq_nb_lambda_ area d eta k m = doc_lambda_nikuradse re k d /\
  calc_lambda_nik_liq_nb_re area d eta k m = re.
Proof. exact C02.Proofs.lambda_nikuradse_lemma. Qed.
Print Assumptions lambda_nikuradse_doc.

(* friction_model swamee-jain (liquids and gases, both engines) = 0.25 / log(k/(3.7 d) + 5.74/Re^0.9)^2 *)
Theorem lambda_swamee_jain_doc : forall area d eta k m : R,
  let re := calc_lambda_sj_liq_np_re area d eta k m in
  re = Rabs m * d / (eta * area) /\
  calc_lambda_sj_liq_np_lambda_ area d eta k m = doc_lambda_swamee_jain re k d /\
  calc_lambda_sj_liq_nb_lambda_ area d eta k m = doc_lambda_swamee_jain re k d /\
  calc_lambda_sj_gas_np_lambda_ area d eta k m = doc_lambda_swamee_jain re k d /\
  calc_lambda_sj_gas_nb_lambda_ area d eta k m = doc_lambda_swamee_jain re k d.
Proof. exact C02.Proofs.lambda_swamee_jain_lemma. Qed.
Print Assumptions lambda_swamee_jain_doc.

(* gases, nikuradse: the code's 1/(2 log(d/k) + 1.14)^2 is the documented form with 10^0.57 in place of 3.71 *)
Theorem lambda_nikuradse_gas_form : forall area d eta k m : R, 0 < d -> 0 < k ->
  1 / 100000000 < Rabs m * d / (eta * area) ->
  calc_lambda_nik_gas_np_lambda_ area d eta k m =
    64 / (Rabs m * d / (eta * area)) + 1 / (- 2 * log10 (k / (Rpower 10 (57 / 100) * d))) ^ 2 /\
  calc_lambda_nik_gas_nb_lambda_ area d eta k m = calc_lambda_nik_gas_np_lambda_ area d eta k m.
Proof. exact C02.Proofs.lambda_nikuradse_gas_lemma. Qed.
Print Assumptions lambda_nikuradse_gas_form.

(* reported values: v rho A = m (liquid: real density; gas: normal density), p/m/Re/lambda are the solver's columns, Re eta A = |m| D, v_gas = v * normfactor, normfactor = p_N T / (T_N p) * K(p, T) *)
Theorem reported_values_consistent :
  (forall bp_AREA bp_DP_FRICT_LOSS bp_LAMBDA bp_LOSS_COEFFICIENT bp_MDOTINIT bp_PL bp_QEXT bp_RE bp_TOUTINIT
          np_from_PINIT np_from_TINIT np_to_PINIT np_to_TINIT rho_real : R, bp_AREA <> 0 -> rho_real <> 0 ->
     basic_liq_v_mps bp_AREA bp_DP_FRICT_LOSS bp_LAMBDA bp_LOSS_COEFFICIENT bp_MDOTINIT bp_PL bp_QEXT bp_RE bp_TOUTINIT
          np_from_PINIT np_from_TINIT np_to_PINIT np_to_TINIT rho_real * rho_real * bp_AREA = bp_MDOTINIT /\
     basic_liq_p_from bp_AREA bp_DP_FRICT_LOSS bp_LAMBDA bp_LOSS_COEFFICIENT bp_MDOTINIT bp_PL bp_QEXT bp_RE bp_TOUTINIT
          np_from_PINIT np_from_TINIT np_to_PINIT np_to_TINIT rho_real = np_from_PINIT /\
     basic_liq_p_to bp_AREA bp_DP_FRICT_LOSS bp_LAMBDA bp_LOSS_COEFFICIENT bp_MDOTINIT bp_PL bp_QEXT bp_RE bp_TOUTINIT
          np_from_PINIT np_from_TINIT np_to_PINIT np_to_TINIT rho_real = np_to_PINIT /\
     basic_liq_mf_from bp_AREA bp_DP_FRICT_LOSS bp_LAMBDA bp_LOSS_COEFFICIENT bp_MDOTINIT bp_PL bp_QEXT bp_RE bp_TOUTINIT
          np_from_PINIT np_from_TINIT np_to_PINIT np_to_TINIT rho_real = bp_MDOTINIT /\
     basic_liq_reynolds bp_AREA bp_DP_FRICT_LOSS bp_LAMBDA bp_LOSS_COEFFICIENT bp_MDOTINIT bp_PL bp_QEXT bp_RE bp_TOUTINIT
          np_from_PINIT np_from_TINIT np_to_PINIT np_to_TINIT rho_real = bp_RE /\
     basic_liq_lambda bp_AREA bp_DP_FRICT_LOSS bp_LAMBDA bp_LOSS_COEFFICIENT bp_MDOTINIT bp_PL bp_QEXT bp_RE bp_TOUTINIT
          np_from_PINIT np_from_TINIT np_to_PINIT np_to_TINIT rho_real = bp_LAMBDA) /\
  (forall (bp_AREA bp_DP_FRICT_LOSS bp_LAMBDA bp_LOSS_COEFFICIENT bp_MDOTINIT bp_PL bp_QEXT bp_RE bp_TOUTINIT : R)
          (fl_density : R -> R) (np_from_PINIT np_from_TINIT np_to_PINIT np_to_TINIT : R),
     bp_AREA <> 0 -> fl_density TN_k <> 0 ->
     basic_gas_v_mps bp_AREA bp_DP_FRICT_LOSS bp_LAMBDA bp_LOSS_COEFFICIENT bp_MDOTINIT bp_PL bp_QEXT bp_RE bp_TOUTINIT
          fl_density np_from_PINIT np_from_TINIT np_to_PINIT np_to_TINIT * fl_density TN_k * bp_AREA = bp_MDOTINIT) /\
  (forall area d eta k m : R, eta <> 0 -> area <> 0 ->
     calc_lambda_nik_liq_np_re area d eta k m * eta * area = Rabs m * d) /\
  (forall (bp_FROM_NODE_T_SWITCHED bp_TOUTINIT : R) (fl_compressibility : R -> R -> R)
          (np_from_PAMB np_from_TINIT np_to_PAMB np_to_TINIT p_from p_to v_mps : R),
     np_from_PAMB + p_from <> 0 -> np_to_PAMB + p_to <> 0 ->
     let tf := if negb (Reqb bp_FROM_NODE_T_SWITCHED 0) then np_to_TINIT else np_from_TINIT in
     gasres_np_v_gas_from bp_FROM_NODE_T_SWITCHED bp_TOUTINIT fl_compressibility np_from_PAMB np_from_TINIT np_to_PAMB
          np_to_TINIT p_from p_to v_mps
       = v_mps * gasres_np_normfactor_from bp_FROM_NODE_T_SWITCHED bp_TOUTINIT fl_compressibility np_from_PAMB np_from_TINIT
          np_to_PAMB np_to_TINIT p_from p_to v_mps /\
     gasres_np_normfactor_from bp_FROM_NODE_T_SWITCHED bp_TOUTINIT fl_compressibility np_from_PAMB np_from_TINIT
          np_to_PAMB np_to_TINIT p_from p_to v_mps
       = doc_normfactor (np_from_PAMB + p_from) tf (fl_compressibility (np_from_PAMB + p_from) tf) /\
     gasres_np_normfactor_to bp_FROM_NODE_T_SWITCHED bp_TOUTINIT fl_compressibility np_from_PAMB np_from_TINIT
          np_to_PAMB np_to_TINIT p_from p_to v_mps
       = doc_normfactor (np_to_PAMB + p_to) bp_TOUTINIT (fl_compressibility (np_to_PAMB + p_to) bp_TOUTINIT)).
Proof. exact C02.Proofs.reported_lemma. Qed.
Print Assumptions reported_values_consistent.

(* numba engine: norm factors and gas velocities of get_gas_vel_numba = p_N T/(T_N p) K and v * normfactor at the from end, the to end (outlet temperature) and the mean state *)
Theorem reported_values_consistent_numba :
  forall bp_TOUTINIT comp_from comp_mean comp_to p_abs_from p_abs_mean p_abs_to t_from_in v_mps : R,
  p_abs_from <> 0 -> p_abs_to <> 0 -> p_abs_mean <> 0 ->
  gasvel_nb_normfactor_from bp_TOUTINIT comp_from comp_mean comp_to p_abs_from p_abs_mean p_abs_to t_from_in v_mps
    = doc_normfactor p_abs_from t_from_in comp_from /\
  gasvel_nb_normfactor_to bp_TOUTINIT comp_from comp_mean comp_to p_abs_from p_abs_mean p_abs_to t_from_in v_mps
    = doc_normfactor p_abs_to bp_TOUTINIT comp_to /\
  gasvel_nb_normfactor_mean bp_TOUTINIT comp_from comp_mean comp_to p_abs_from p_abs_mean p_abs_to t_from_in v_mps
    = doc_normfactor p_abs_mean ((t_from_in + bp_TOUTINIT) / 2) comp_mean /\
  gasvel_nb_v_gas_from bp_TOUTINIT comp_from comp_mean comp_to p_abs_from p_abs_mean p_abs_to t_from_in v_mps
    = v_mps * doc_normfactor p_abs_from t_from_in comp_from /\
  gasvel_nb_v_gas_to bp_TOUTINIT comp_from comp_mean comp_to p_abs_from p_abs_mean p_abs_to t_from_in v_mps
    = v_mps * doc_normfactor p_abs_to bp_TOUTINIT comp_to /\
  gasvel_nb_v_gas_mean bp_TOUTINIT comp_from comp_mean comp_to p_abs_from p_abs_mean p_abs_to t_from_in v_mps
    = v_mps * doc_normfactor p_abs_mean ((t_from_in + bp_TOUTINIT) / 2) comp_mean.
Proof. exact C02.Proofs.reported_numba_lemma. Qed.
Print Assumptions reported_values_consistent_numba.

(* fluid properties of a branch are taken at: viscosity - mean of inlet (flow-corrected from node) and outlet temperature;
   liquid density - mean of the densities at these two; gas density - mean of the real-gas densities at both ends *)
Theorem branch_property_states :
  (forall (bp_TOUTINIT : R) (fl_viscosity : R -> R -> R) (np_inlet_TINIT pm : R),
     real_eta_eta bp_TOUTINIT fl_viscosity np_inlet_TINIT pm = fl_viscosity ((np_inlet_TINIT + bp_TOUTINIT) / 2) pm) /\
  (forall (bp_TOUTINIT : R) (fl_density : R -> R) (np_inlet_TINIT : R),
     real_rho_liq_rho bp_TOUTINIT fl_density np_inlet_TINIT = (fl_density np_inlet_TINIT + fl_density bp_TOUTINIT) / 2) /\
  (forall (bp_TOUTINIT : R) (fl_compressibility : R -> R -> R) (fl_density : R -> R)
          (np_inlet_PAMB np_inlet_PINIT np_inlet_TINIT np_outlet_PAMB np_outlet_PINIT : R),
     let rho_at p T := fl_density TN_k * TN_k * p / (T * (pN_pa / bar) * fl_compressibility p T) in
     real_rho_gas_rho bp_TOUTINIT fl_compressibility fl_density np_inlet_PAMB np_inlet_PINIT np_inlet_TINIT np_outlet_PAMB
                      np_outlet_PINIT
       = (rho_at (np_inlet_PINIT + np_inlet_PAMB) np_inlet_TINIT + rho_at (np_outlet_PINIT + np_outlet_PAMB) bp_TOUTINIT) / 2).
Proof. exact C02.Proofs.branch_props_lemma. Qed.
Print Assumptions branch_property_states.

(* ambient pressure at height h = barometric formula with the constants of constants.py *)
Theorem pamb_formula : forall h : R, p_correction_height_air_p h = doc_p_air h.
Proof. exact C02.Proofs.pamb_lemma. Qed.
Print Assumptions pamb_formula.

(* the guards are satisfiable: DN100 water pipe, 1 kg/s *)
Example incomp_guard_example :
  (PI * (1 / 10) ^ 2 / 4) <> 0 /\ (1 / 10 : R) <> 0 /\ (998 : R) <> 0.
Proof. repeat split; try lra. pose proof PI_RGT_0. nra. Qed.

(* gas: DN100, rho_N = 0.8 kg/m3, end pressures 4 / 3.9 bar abs, 0.05 kg/s; friction guard Re > 1e-8 *)
Example gas_guard_example :
  (PI * (1 / 10) ^ 2 / 4) <> 0 /\ (8 / 10 : R) <> 0 /\ (4 + 39 / 10 : R) <> 0 /\ 0 <= (5 / 100 : R) /\
  (4 : R) <> 39 / 10 /\ 1 / 100000000 < Rabs (5 / 100) * (1 / 10) / (1 / 100000 * (1 / 100)).
Proof.
  rewrite (Rabs_right (5 / 100)) by lra. repeat split; try lra. pose proof PI_RGT_0. nra.
Qed.
