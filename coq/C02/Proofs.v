From Coq Require Import Reals Bool Lra.
From PP Require Import Kern.RBool C02.Spec Gen.KHydIncompNp Gen.KHydIncompNb Gen.KHydCompNp Gen.KHydCompNb Gen.KPmNp
  Gen.KFriction Gen.KBasicRes Gen.KGasResNp Gen.KGasResNb Gen.KPamb Gen.KBranchProps.
Open Scope R_scope.

Lemma Rabs_sq_pos m : 0 <= m -> Rabs m * m = m ^ 2.
Proof. intros H. rewrite Rabs_right by lra. ring. Qed.
Lemma Rabs_sq_neg m : m <= 0 -> Rabs m * m = - m ^ 2.
Proof. intros H. rewrite Rabs_left1 by lra. ring. Qed.

(* liquid residual (both engines) = documented law; v = m / (rho A) *)
Lemma incomp_lemma (nb : bool) :
  forall bp_AREA bp_D bp_LAMBDA bp_LENGTH bp_LOSS_COEFFICIENT bp_MDOTINIT bp_PL der_lambda height_difference
         p_init_i1_abs p_init_i_abs rho : R,
  bp_AREA <> 0 -> bp_D <> 0 -> rho <> 0 ->
  let lv := if nb then hyd_incomp_nb_load_vec bp_AREA bp_D bp_LAMBDA bp_LENGTH bp_LOSS_COEFFICIENT bp_MDOTINIT bp_PL
                         der_lambda height_difference p_init_i1_abs p_init_i_abs rho
            else hyd_incomp_np_load_vec bp_AREA bp_D bp_LAMBDA bp_LENGTH bp_LOSS_COEFFICIENT bp_MDOTINIT bp_PL
                         der_lambda height_difference p_init_i1_abs p_init_i_abs rho in
  let v := bp_MDOTINIT / (rho * bp_AREA) in
  (0 <= bp_MDOTINIT ->
   lv * bar = (p_init_i_abs - p_init_i1_abs + bp_PL) * bar
              + doc_p_loss rho height_difference bp_LAMBDA bp_LENGTH bp_D bp_LOSS_COEFFICIENT v) /\
  (bp_MDOTINIT <= 0 ->
   - lv * bar = (p_init_i1_abs - p_init_i_abs - bp_PL) * bar
                + doc_p_loss rho (- height_difference) bp_LAMBDA bp_LENGTH bp_D bp_LOSS_COEFFICIENT (- v)).
Proof.
  intros until rho. intros HA HD Hr lv v. subst lv v.
  unfold doc_p_loss, g_doc, bar.
  destruct nb; unfold hyd_incomp_nb_load_vec, hyd_incomp_np_load_vec; cbv zeta; split; intros Hm.
  - rewrite (Rabs_right bp_MDOTINIT) by lra. field. repeat split; assumption.
  - rewrite (Rabs_left1 bp_MDOTINIT) by exact Hm. field. repeat split; assumption.
  - rewrite (Rabs_right bp_MDOTINIT) by lra. field. repeat split; assumption.
  - rewrite (Rabs_left1 bp_MDOTINIT) by exact Hm. field. repeat split; assumption.
Qed.

(* zero-length rows (valves, heat exchangers, pumps) *)
Lemma zero_length_lemma :
  forall (nb : bool) (bp_AREA bp_D bp_LAMBDA bp_LOSS_COEFFICIENT bp_MDOTINIT bp_PL der_lambda height_difference
          p_init_i1_abs p_init_i_abs rho : R),
  bp_AREA <> 0 -> bp_D <> 0 -> rho <> 0 -> 0 <= bp_MDOTINIT ->
  let lv := if nb then hyd_incomp_nb_load_vec bp_AREA bp_D bp_LAMBDA 0 bp_LOSS_COEFFICIENT bp_MDOTINIT bp_PL
                         der_lambda height_difference p_init_i1_abs p_init_i_abs rho
            else hyd_incomp_np_load_vec bp_AREA bp_D bp_LAMBDA 0 bp_LOSS_COEFFICIENT bp_MDOTINIT bp_PL
                         der_lambda height_difference p_init_i1_abs p_init_i_abs rho in
  let v := bp_MDOTINIT / (rho * bp_AREA) in
  lv * bar = (p_init_i_abs - p_init_i1_abs + bp_PL) * bar + rho * g_doc * height_difference
             - bp_LOSS_COEFFICIENT * (rho * v ^ 2 / 2).
Proof.
  intros nb A D lam zeta m PL dl dh p1 p0 rho HA HD Hr Hm lv v.
  destruct (incomp_lemma nb A D lam 0 zeta m PL dl dh p1 p0 rho HA HD Hr) as [Hf _].
  specialize (Hf Hm). subst lv v. rewrite Hf. unfold doc_p_loss. unfold Rdiv. ring.
Qed.

(* gas residual = integrated form of the documented differential law:  p dp = -C dl  =>  (P_i^2 - P_{i+1}^2)/2 = C L,
   with the lumped loss coefficient entering like lambda L / d, pressures P in Pa, v_N = m / (rho_N A) *)
Lemma comp_lemma (nb : bool) :
  forall bp_AREA bp_D bp_LENGTH bp_LOSS_COEFFICIENT bp_MDOTINIT bp_PL bp_TOUTINIT comp_fact der_comp der_comp1 der_lambda
         height_difference lambda_ np_from_TINIT p_init_i1_abs p_init_i_abs rho rho_n : R,
  bp_AREA <> 0 -> bp_D <> 0 -> rho_n <> 0 -> p_init_i_abs + p_init_i1_abs <> 0 -> 0 <= bp_MDOTINIT ->
  let lv := if nb then hyd_comp_nb_load_vec bp_AREA bp_D bp_LENGTH bp_LOSS_COEFFICIENT bp_MDOTINIT bp_PL bp_TOUTINIT comp_fact
                         der_comp der_comp1 der_lambda height_difference lambda_ np_from_TINIT p_init_i1_abs p_init_i_abs rho rho_n
            else hyd_comp_np_load_vec bp_AREA bp_D bp_LENGTH bp_LOSS_COEFFICIENT bp_MDOTINIT bp_PL bp_TOUTINIT comp_fact
                         der_comp der_comp1 der_lambda height_difference lambda_ np_from_TINIT p_init_i1_abs p_init_i_abs rho rho_n in
  let vN := bp_MDOTINIT / (rho_n * bp_AREA) in
  let Tm := (np_from_TINIT + bp_TOUTINIT) / 2 in
  let Pi := p_init_i_abs * bar in let Pi1 := p_init_i1_abs * bar in
  lv * bar * ((Pi + Pi1) / 2) =
    (Pi ^ 2 - Pi1 ^ 2) / 2 + (bp_PL * bar + rho * g_doc * height_difference) * ((Pi + Pi1) / 2)
    - (doc_gas_coeff lambda_ rho_n vN bp_D Tm comp_fact * bp_LENGTH
       + bp_LOSS_COEFFICIENT * (rho_n * vN ^ 2 / 2) * pN_pa * (Tm / TN_k) * comp_fact).
Proof.
  intros until rho_n. intros HA HD Hr Hp Hm lv vN Tm Pi Pi1. subst lv vN Tm Pi Pi1.
  unfold doc_gas_coeff, g_doc, bar, pN_pa, TN_k.
  destruct nb; unfold hyd_comp_nb_load_vec, hyd_comp_np_load_vec; cbv zeta;
    rewrite (Rabs_right bp_MDOTINIT) by lra; field; repeat split; assumption.
Qed.

(* ... and against the declared direction (m <= 0): the same law from node i+1 to node i *)
Lemma comp_lemma_rev (nb : bool) :
  forall bp_AREA bp_D bp_LENGTH bp_LOSS_COEFFICIENT bp_MDOTINIT bp_PL bp_TOUTINIT comp_fact der_comp der_comp1 der_lambda
         height_difference lambda_ np_from_TINIT p_init_i1_abs p_init_i_abs rho rho_n : R,
  bp_AREA <> 0 -> bp_D <> 0 -> rho_n <> 0 -> p_init_i_abs + p_init_i1_abs <> 0 -> bp_MDOTINIT <= 0 ->
  let lv := if nb then hyd_comp_nb_load_vec bp_AREA bp_D bp_LENGTH bp_LOSS_COEFFICIENT bp_MDOTINIT bp_PL bp_TOUTINIT comp_fact
                         der_comp der_comp1 der_lambda height_difference lambda_ np_from_TINIT p_init_i1_abs p_init_i_abs rho rho_n
            else hyd_comp_np_load_vec bp_AREA bp_D bp_LENGTH bp_LOSS_COEFFICIENT bp_MDOTINIT bp_PL bp_TOUTINIT comp_fact
                         der_comp der_comp1 der_lambda height_difference lambda_ np_from_TINIT p_init_i1_abs p_init_i_abs rho rho_n in
  let vN := bp_MDOTINIT / (rho_n * bp_AREA) in
  let Tm := (np_from_TINIT + bp_TOUTINIT) / 2 in
  let Pi := p_init_i_abs * bar in let Pi1 := p_init_i1_abs * bar in
  - lv * bar * ((Pi + Pi1) / 2) =
    (Pi1 ^ 2 - Pi ^ 2) / 2 - (bp_PL * bar + rho * g_doc * height_difference) * ((Pi + Pi1) / 2)
    - (doc_gas_coeff lambda_ rho_n vN bp_D Tm comp_fact * bp_LENGTH
       + bp_LOSS_COEFFICIENT * (rho_n * vN ^ 2 / 2) * pN_pa * (Tm / TN_k) * comp_fact).
Proof.
  intros until rho_n. intros HA HD Hr Hp Hm lv vN Tm Pi Pi1. subst lv vN Tm Pi Pi1.
  unfold doc_gas_coeff, g_doc, bar, pN_pa, TN_k.
  destruct nb; unfold hyd_comp_nb_load_vec, hyd_comp_np_load_vec; cbv zeta;
    rewrite (Rabs_left1 bp_MDOTINIT) by exact Hm; field; repeat split; assumption.
Qed.

(* mean pressure: the standard form 2/3 (p_i + p_{i+1} - p_i p_{i+1} / (p_i + p_{i+1})) of the mean of a profile with
   linear p^2, and it lies between the end pressures *)
Lemma pm_lemma : forall p_init_i1_abs p_init_i_abs : R,
  p_init_i_abs <> p_init_i1_abs -> p_init_i_abs + p_init_i1_abs <> 0 ->
  pm_np_p_m p_init_i1_abs p_init_i_abs =
    2 / 3 * (p_init_i_abs + p_init_i1_abs - p_init_i_abs * p_init_i1_abs / (p_init_i_abs + p_init_i1_abs)).
Proof.
  intros b a Hne Hs. unfold pm_np_p_m. cbv zeta. destruct (Reqb_spec a b) as [E | _]; [contradiction |]. simpl.
  assert (a - b <> 0) by lra. field. split; [assumption |].
  replace (a * a - b * b) with ((a - b) * (a + b)) by ring. apply Rmult_integral_contrapositive_currified; assumption.
Qed.

Lemma pm_between : forall b a : R, 0 < b -> b < a -> b < pm_np_p_m b a < a.
Proof.
  intros b a Hb Hab. rewrite pm_lemma by lra.
  assert (Hs : 0 < a + b) by lra.
  assert (E : 2 / 3 * (a + b - a * b / (a + b)) = 2 / 3 * (a * a + a * b + b * b) / (a + b)) by (field; lra).
  rewrite E. split.
  - apply (Rmult_lt_reg_r (a + b)); [exact Hs |]. unfold Rdiv at 1. rewrite Rmult_assoc, Rinv_l by lra. nra.
  - apply (Rmult_lt_reg_r (a + b)); [exact Hs |]. unfold Rdiv at 1. rewrite Rmult_assoc, Rinv_l by lra. nra.
Qed.

(* friction factor: the value the solver uses (calc_lambda, both engines) = documented formula *)
Lemma lambda_nikuradse_lemma : forall area d eta k m : R,
  1 / 100000000 < Rabs m * d / (eta * area) ->
  let re := calc_lambda_nik_liq_np_re area d eta k m in
  re = Rabs m * d / (eta * area) /\
  calc_lambda_nik_liq_np_lambda_ area d eta k m = doc_lambda_nikuradse re k d /\
  calc_lambda_nik_liq_nb_lambda_ area d eta k m = doc_lambda_nikuradse re k d /\
  calc_lambda_nik_liq_nb_re area d eta k m = re.
Proof.
  intros area d eta k m Hre re. subst re.
  unfold calc_lambda_nik_liq_np_re, calc_lambda_nik_liq_nb_re, calc_lambda_nik_liq_np_lambda_,
    calc_lambda_nik_liq_nb_lambda_, doc_lambda_nikuradse. cbv zeta.
  rewrite Rltb_negb_Rleb.
  assert (Hpos : 0 < Rabs m * d / (eta * area)) by lra.
  rewrite (Rabs_right (Rabs m * d / (eta * area))) by lra.
  destruct (Rleb_spec (Rabs m * d / (eta * area)) (1 / 100000000)); [lra |]. simpl. repeat split; reflexivity.
Qed.

Lemma lambda_swamee_jain_lemma : forall area d eta k m : R,
  let re := calc_lambda_sj_liq_np_re area d eta k m in
  re = Rabs m * d / (eta * area) /\
  calc_lambda_sj_liq_np_lambda_ area d eta k m = doc_lambda_swamee_jain re k d /\
  calc_lambda_sj_liq_nb_lambda_ area d eta k m = doc_lambda_swamee_jain re k d /\
  calc_lambda_sj_gas_np_lambda_ area d eta k m = doc_lambda_swamee_jain re k d /\
  calc_lambda_sj_gas_nb_lambda_ area d eta k m = doc_lambda_swamee_jain re k d.
Proof.
  intros area d eta k m re. subst re.
  unfold calc_lambda_sj_liq_np_re, calc_lambda_sj_liq_np_lambda_, calc_lambda_sj_liq_nb_lambda_,
    calc_lambda_sj_gas_np_lambda_, calc_lambda_sj_gas_nb_lambda_, doc_lambda_swamee_jain. cbv zeta.
  replace (25 / 100) with (1 / 4) by lra. replace (574 / 100) with (287 / 50) by lra. repeat split; reflexivity.
Qed.

(* gases: the code uses 2 log(d/k) + 1.14; this is the documented form with 10^0.57 (= 3.7154) in place of 3.71 *)
Lemma log10_Rpower10 x : log10 (Rpower 10 x) = x.
Proof.
  unfold log10, Rpower. rewrite ln_exp. field.
  assert (0 < ln 10) by (rewrite <- ln_1; apply ln_increasing; lra). lra.
Qed.

Lemma ln10_pos : 0 < ln 10.
Proof. rewrite <- ln_1. apply ln_increasing; lra. Qed.
Lemma log10_div a b : 0 < a -> 0 < b -> log10 (a / b) = log10 a - log10 b.
Proof.
  intros. unfold log10. unfold Rdiv. rewrite ln_mult by (try apply Rinv_0_lt_compat; assumption).
  rewrite ln_Rinv by assumption. field. pose proof ln10_pos. lra.
Qed.
Lemma log10_mult a b : 0 < a -> 0 < b -> log10 (a * b) = log10 a + log10 b.
Proof. intros. unfold log10. rewrite ln_mult by assumption. field. pose proof ln10_pos. lra. Qed.

Lemma lambda_nikuradse_gas_lemma : forall area d eta k m : R, 0 < d -> 0 < k ->
  1 / 100000000 < Rabs m * d / (eta * area) ->
  calc_lambda_nik_gas_np_lambda_ area d eta k m =
    64 / (Rabs m * d / (eta * area)) + 1 / (- 2 * log10 (k / (Rpower 10 (57 / 100) * d))) ^ 2 /\
  calc_lambda_nik_gas_nb_lambda_ area d eta k m = calc_lambda_nik_gas_np_lambda_ area d eta k m.
Proof.
  intros area d eta k m Hd Hk Hre.
  unfold calc_lambda_nik_gas_np_lambda_, calc_lambda_nik_gas_nb_lambda_. cbv zeta.
  rewrite Rltb_negb_Rleb.
  rewrite (Rabs_right (Rabs m * d / (eta * area))) by lra.
  destruct (Rleb_spec (Rabs m * d / (eta * area)) (1 / 100000000)); [lra |]. simpl. split; [| reflexivity].
  assert (Hc : 0 < Rpower 10 (57 / 100)) by (unfold Rpower; apply exp_pos).
  assert (E : 2 * log10 (d / k) + 57 / 50 = - 2 * log10 (k / (Rpower 10 (57 / 100) * d))).
  { rewrite (log10_div d k), (log10_div k) by (try apply Rmult_lt_0_compat; assumption).
    rewrite log10_mult, log10_Rpower10 by assumption. lra. }
  rewrite E. reflexivity.
Qed.

(* reported values *)
Lemma reported_lemma :
  (forall bp_AREA bp_DP_FRICT_LOSS bp_LAMBDA bp_LOSS_COEFFICIENT bp_MDOTINIT bp_PL bp_QEXT bp_RE bp_TOUTINIT
          np_from_PINIT np_from_TINIT np_to_PINIT np_to_TINIT rho_real : R, bp_AREA <> 0 -> rho_real <> 0 ->
     basic_liq_v_mps bp_AREA bp_DP_FRICT_LOSS bp_LAMBDA bp_LOSS_COEFFICIENT bp_MDOTINIT bp_PL bp_QEXT bp_RE bp_TOUTINIT
          np_from_PINIT np_from_TINIT np_to_PINIT np_to_TINIT rho_real * rho_real * bp_AREA = bp_MDOTINIT /\
     basic_liq_p_from bp_AREA bp_DP_FRICT_LOSS bp_LAMBDA bp_LOSS_COEFFICIENT bp_MDOTINIT bp_PL bp_QEXT bp_RE bp_TOUTINIT
          np_from_PINIT np_from_TINIT np_to_PINIT np_to_TINIT rho_real = np_from_PINIT /\
     basic_liq_p_to bp_AREA bp_DP_FRICT_LOSS bp_LAMBDA bp_LOSS_COEFFICIENT bp_MDOTINIT bp_PL bp_QEXT bp_RE bp_TOUTINIT
          np_from_PINIT np_from_TINIT np_to_PINIT np_to_TINIT rho_real = np_to_PINIT /\
     basic_liq_mf_from bp_AREA bp_DP_FRICT_LOSS bp_LAMBDA bp_LOSS_COEFFICIENT bp_MDOTINIT bp_PL bp_QEXT bp_RE bp_TOUTINIT
          np_from_PINIT np_from_TINIT np_to_PINIT np_to_TINIT rho_real = bp_MDOTINIT /\
     basic_liq_reynolds bp_AREA bp_DP_FRICT_LOSS bp_LAMBDA bp_LOSS_COEFFICIENT bp_MDOTINIT bp_PL bp_QEXT bp_RE bp_TOUTINIT
          np_from_PINIT np_from_TINIT np_to_PINIT np_to_TINIT rho_real = bp_RE /\
     basic_liq_lambda bp_AREA bp_DP_FRICT_LOSS bp_LAMBDA bp_LOSS_COEFFICIENT bp_MDOTINIT bp_PL bp_QEXT bp_RE bp_TOUTINIT
          np_from_PINIT np_from_TINIT np_to_PINIT np_to_TINIT rho_real = bp_LAMBDA) /\
  (forall (bp_AREA bp_DP_FRICT_LOSS bp_LAMBDA bp_LOSS_COEFFICIENT bp_MDOTINIT bp_PL bp_QEXT bp_RE bp_TOUTINIT : R)
          (fl_density : R -> R) (np_from_PINIT np_from_TINIT np_to_PINIT np_to_TINIT : R),
     bp_AREA <> 0 -> fl_density TN_k <> 0 ->
     basic_gas_v_mps bp_AREA bp_DP_FRICT_LOSS bp_LAMBDA bp_LOSS_COEFFICIENT bp_MDOTINIT bp_PL bp_QEXT bp_RE bp_TOUTINIT
          fl_density np_from_PINIT np_from_TINIT np_to_PINIT np_to_TINIT * fl_density TN_k * bp_AREA = bp_MDOTINIT) /\
  (forall area d eta k m : R, eta <> 0 -> area <> 0 ->
     calc_lambda_nik_liq_np_re area d eta k m * eta * area = Rabs m * d) /\
  (forall (bp_FROM_NODE_T_SWITCHED bp_TOUTINIT : R) (fl_compressibility : R -> R -> R)
          (np_from_PAMB np_from_TINIT np_to_PAMB np_to_TINIT p_from p_to v_mps : R),
     np_from_PAMB + p_from <> 0 -> np_to_PAMB + p_to <> 0 ->
     let tf := if negb (Reqb bp_FROM_NODE_T_SWITCHED 0) then np_to_TINIT else np_from_TINIT in
     gasres_np_v_gas_from bp_FROM_NODE_T_SWITCHED bp_TOUTINIT fl_compressibility np_from_PAMB np_from_TINIT np_to_PAMB
          np_to_TINIT p_from p_to v_mps
       = v_mps * gasres_np_normfactor_from bp_FROM_NODE_T_SWITCHED bp_TOUTINIT fl_compressibility np_from_PAMB np_from_TINIT
          np_to_PAMB np_to_TINIT p_from p_to v_mps /\
     gasres_np_normfactor_from bp_FROM_NODE_T_SWITCHED bp_TOUTINIT fl_compressibility np_from_PAMB np_from_TINIT
          np_to_PAMB np_to_TINIT p_from p_to v_mps
       = doc_normfactor (np_from_PAMB + p_from) tf (fl_compressibility (np_from_PAMB + p_from) tf) /\
     gasres_np_normfactor_to bp_FROM_NODE_T_SWITCHED bp_TOUTINIT fl_compressibility np_from_PAMB np_from_TINIT
          np_to_PAMB np_to_TINIT p_from p_to v_mps
       = doc_normfactor (np_to_PAMB + p_to) bp_TOUTINIT (fl_compressibility (np_to_PAMB + p_to) bp_TOUTINIT)).
Proof.
  split; [| split; [| split]].
  - intros. unfold basic_liq_v_mps, basic_liq_p_from, basic_liq_p_to, basic_liq_mf_from, basic_liq_reynolds,
      basic_liq_lambda. cbv zeta. repeat split; try reflexivity. field. split; assumption.
  - intros. unfold basic_gas_v_mps, TN_k in *. cbv zeta. replace (5463 / 20) with (27315 / 100) by lra.
    field. split; assumption.
  - intros. unfold calc_lambda_nik_liq_np_re. cbv zeta. field. split; assumption.
  - intros until v_mps. intros Hf Ht tf. subst tf.
    unfold gasres_np_v_gas_from, gasres_np_normfactor_from, gasres_np_normfactor_to, doc_normfactor, pN_pa, bar, TN_k.
    cbv zeta. split; [reflexivity |]. split.
    + destruct (negb (Reqb bp_FROM_NODE_T_SWITCHED 0)); field; lra.
    + field. lra.
Qed.

(* the numba engine's gas post-processing (get_gas_vel_numba; compressibilities are computed by its wrapper) *)
Lemma reported_numba_lemma :
  forall bp_TOUTINIT comp_from comp_mean comp_to p_abs_from p_abs_mean p_abs_to t_from_in v_mps : R,
  p_abs_from <> 0 -> p_abs_to <> 0 -> p_abs_mean <> 0 ->
  gasvel_nb_normfactor_from bp_TOUTINIT comp_from comp_mean comp_to p_abs_from p_abs_mean p_abs_to t_from_in v_mps
    = doc_normfactor p_abs_from t_from_in comp_from /\
  gasvel_nb_normfactor_to bp_TOUTINIT comp_from comp_mean comp_to p_abs_from p_abs_mean p_abs_to t_from_in v_mps
    = doc_normfactor p_abs_to bp_TOUTINIT comp_to /\
  gasvel_nb_normfactor_mean bp_TOUTINIT comp_from comp_mean comp_to p_abs_from p_abs_mean p_abs_to t_from_in v_mps
    = doc_normfactor p_abs_mean ((t_from_in + bp_TOUTINIT) / 2) comp_mean /\
  gasvel_nb_v_gas_from bp_TOUTINIT comp_from comp_mean comp_to p_abs_from p_abs_mean p_abs_to t_from_in v_mps
    = v_mps * doc_normfactor p_abs_from t_from_in comp_from /\
  gasvel_nb_v_gas_to bp_TOUTINIT comp_from comp_mean comp_to p_abs_from p_abs_mean p_abs_to t_from_in v_mps
    = v_mps * doc_normfactor p_abs_to bp_TOUTINIT comp_to /\
  gasvel_nb_v_gas_mean bp_TOUTINIT comp_from comp_mean comp_to p_abs_from p_abs_mean p_abs_to t_from_in v_mps
    = v_mps * doc_normfactor p_abs_mean ((t_from_in + bp_TOUTINIT) / 2) comp_mean.
Proof.
  intros. unfold gasvel_nb_normfactor_from, gasvel_nb_normfactor_to, gasvel_nb_normfactor_mean, gasvel_nb_v_gas_from,
    gasvel_nb_v_gas_to, gasvel_nb_v_gas_mean, doc_normfactor, pN_pa, bar, TN_k. cbv zeta.
  repeat split; field; lra.
Qed.

(* which state enters the fluid properties of a branch (get_branch_real_eta / get_branch_real_density; the fluid functions are
   arbitrary): viscosity at the mean of the INLET temperature (node the flow comes from) and the branch's OUTLET temperature,
   liquid density = mean of the densities at these two temperatures, gas density = mean of the real-gas densities at
   (p, T) of the inlet node and (p of the outlet node, outlet temperature) *)
Lemma branch_props_lemma :
  (forall (bp_TOUTINIT : R) (fl_viscosity : R -> R -> R) (np_inlet_TINIT pm : R),
     real_eta_eta bp_TOUTINIT fl_viscosity np_inlet_TINIT pm = fl_viscosity ((np_inlet_TINIT + bp_TOUTINIT) / 2) pm) /\
  (forall (bp_TOUTINIT : R) (fl_density : R -> R) (np_inlet_TINIT : R),
     real_rho_liq_rho bp_TOUTINIT fl_density np_inlet_TINIT = (fl_density np_inlet_TINIT + fl_density bp_TOUTINIT) / 2) /\
  (forall (bp_TOUTINIT : R) (fl_compressibility : R -> R -> R) (fl_density : R -> R)
          (np_inlet_PAMB np_inlet_PINIT np_inlet_TINIT np_outlet_PAMB np_outlet_PINIT : R),
     let rho_at p T := fl_density TN_k * TN_k * p / (T * (pN_pa / bar) * fl_compressibility p T) in
     real_rho_gas_rho bp_TOUTINIT fl_compressibility fl_density np_inlet_PAMB np_inlet_PINIT np_inlet_TINIT np_outlet_PAMB
                      np_outlet_PINIT
       = (rho_at (np_inlet_PINIT + np_inlet_PAMB) np_inlet_TINIT + rho_at (np_outlet_PINIT + np_outlet_PAMB) bp_TOUTINIT) / 2).
Proof.
  split; [| split].
  - intros. unfold real_eta_eta. cbv zeta. reflexivity.
  - intros. unfold real_rho_liq_rho. cbv zeta. reflexivity.
  - intros. subst rho_at. unfold real_rho_gas_rho, TN_k, pN_pa, bar. cbv zeta beta.
    replace (27315 / 100) with (5463 / 20) by lra. replace (101325 / 100000) with (4053 / 4000) by lra. reflexivity.
Qed.

Lemma pamb_lemma : forall h : R, p_correction_height_air_p h = doc_p_air h.
Proof.
  intros h. unfold p_correction_height_air_p, doc_p_air.
  replace (101325 / 100000) with (4053 / 4000) by lra. replace (65 / 10000) with (13 / 2000) by lra.
  replace (28815 / 100) with (5763 / 20) by lra. replace (5255 / 1000) with (1051 / 200) by lra. reflexivity.
Qed.
