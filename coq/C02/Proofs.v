From Coq Require Import Reals Bool Lra.
From PP Require Import Kern.RBool C02.Spec Gen.KHydIncompNp Gen.KHydIncompNb Gen.KHydCompNp Gen.KHydCompNb Gen.KPmNp
  Gen.KCalcLambda Gen.KBasicRes Gen.KGasResNp Gen.KPamb.
Open Scope R_scope.

Lemma Rabs_sq_pos m : 0 <= m -> Rabs m * m = m ^ 2.
Proof. intros H. rewrite Rabs_right by lra. ring. Qed.
Lemma Rabs_sq_neg m : m <= 0 -> Rabs m * m = - m ^ 2.
Proof. intros H. rewrite Rabs_left1 by lra. ring. Qed.

(* liquid residual (both engines) = documented law; v = m / (rho A) *)
Lemma incomp_lemma (nb : bool) :
  forall bp_AREA bp_D bp_LAMBDA bp_LENGTH bp_LOSS_COEFFICIENT bp_MDOTINIT bp_PL der_lambda height_difference
         p_init_i1_abs p_init_i_abs rho : R,
  bp_AREA <> 0 -> bp_D <> 0 -> rho <> 0 ->
  let lv := if nb then hyd_incomp_nb_load_vec bp_AREA bp_D bp_LAMBDA bp_LENGTH bp_LOSS_COEFFICIENT bp_MDOTINIT bp_PL
                         der_lambda height_difference p_init_i1_abs p_init_i_abs rho
            else hyd_incomp_np_load_vec bp_AREA bp_D bp_LAMBDA bp_LENGTH bp_LOSS_COEFFICIENT bp_MDOTINIT bp_PL
                         der_lambda height_difference p_init_i1_abs p_init_i_abs rho in
  let v := bp_MDOTINIT / (rho * bp_AREA) in
  (0 <= bp_MDOTINIT ->
   lv * bar = (p_init_i_abs - p_init_i1_abs + bp_PL) * bar
              + doc_p_loss rho height_difference bp_LAMBDA bp_LENGTH bp_D bp_LOSS_COEFFICIENT v) /\
  (bp_MDOTINIT <= 0 ->
   - lv * bar = (p_init_i1_abs - p_init_i_abs - bp_PL) * bar
                + doc_p_loss rho (- height_difference) bp_LAMBDA bp_LENGTH bp_D bp_LOSS_COEFFICIENT (- v)).
Proof.
  intros until rho. intros HA HD Hr lv v. subst lv v.
  unfold doc_p_loss, g_doc, bar.
  destruct nb; unfold hyd_incomp_nb_load_vec, hyd_incomp_np_load_vec; cbv zeta; split; intros Hm.
  - rewrite Rabs_sq_pos by exact Hm. field. repeat split; assumption.
  - rewrite Rabs_sq_neg by exact Hm. field. repeat split; assumption.
  - rewrite Rabs_sq_pos by exact Hm. field. repeat split; assumption.
  - rewrite Rabs_sq_neg by exact Hm. field. repeat split; assumption.
Qed.

(* gas residual = integrated form of the documented differential law:  p dp = -C dl  =>  (P_i^2 - P_{i+1}^2)/2 = C L,
   with the lumped loss coefficient entering like lambda L / d, pressures P in Pa, v_N = m / (rho_N A) *)
Lemma comp_lemma (nb : bool) :
  forall bp_AREA bp_D bp_LENGTH bp_LOSS_COEFFICIENT bp_MDOTINIT bp_PL bp_TOUTINIT comp_fact der_comp der_comp1 der_lambda
         height_difference lambda_ np_from_TINIT p_init_i1_abs p_init_i_abs rho rho_n : R,
  bp_AREA <> 0 -> bp_D <> 0 -> rho_n <> 0 -> p_init_i_abs + p_init_i1_abs <> 0 -> 0 <= bp_MDOTINIT ->
  let lv := if nb then hyd_comp_nb_load_vec bp_AREA bp_D bp_LENGTH bp_LOSS_COEFFICIENT bp_MDOTINIT bp_PL bp_TOUTINIT comp_fact
                         der_comp der_comp1 der_lambda height_difference lambda_ np_from_TINIT p_init_i1_abs p_init_i_abs rho rho_n
            else hyd_comp_np_load_vec bp_AREA bp_D bp_LENGTH bp_LOSS_COEFFICIENT bp_MDOTINIT bp_PL bp_TOUTINIT comp_fact
                         der_comp der_comp1 der_lambda height_difference lambda_ np_from_TINIT p_init_i1_abs p_init_i_abs rho rho_n in
  let vN := bp_MDOTINIT / (rho_n * bp_AREA) in
  let Tm := (np_from_TINIT + bp_TOUTINIT) / 2 in
  let Pi := p_init_i_abs * bar in let Pi1 := p_init_i1_abs * bar in
  lv * bar * ((Pi + Pi1) / 2) =
    (Pi ^ 2 - Pi1 ^ 2) / 2 + (bp_PL * bar + rho * g_doc * height_difference) * ((Pi + Pi1) / 2)
    - (doc_gas_coeff lambda_ rho_n vN bp_D Tm comp_fact * bp_LENGTH
       + bp_LOSS_COEFFICIENT * (rho_n * vN ^ 2 / 2) * pN_pa * (Tm / TN_k) * comp_fact).
Proof.
  intros until rho_n. intros HA HD Hr Hp Hm lv vN Tm Pi Pi1. subst lv vN Tm Pi Pi1.
  unfold doc_gas_coeff, g_doc, bar, pN_pa, TN_k.
  destruct nb; unfold hyd_comp_nb_load_vec, hyd_comp_np_load_vec; cbv zeta;
    replace (bp_MDOTINIT * Rabs bp_MDOTINIT) with (bp_MDOTINIT ^ 2) by (rewrite Rabs_right by lra; ring);
    field; repeat split; assumption.
Qed.

(* mean pressure: the standard form 2/3 (p_i + p_{i+1} - p_i p_{i+1} / (p_i + p_{i+1})) of the mean of a profile with
   linear p^2, and it lies between the end pressures *)
Lemma pm_lemma : forall p_init_i1_abs p_init_i_abs : R,
  p_init_i_abs <> p_init_i1_abs -> p_init_i_abs + p_init_i1_abs <> 0 ->
  pm_np_p_m p_init_i1_abs p_init_i_abs =
    2 / 3 * (p_init_i_abs + p_init_i1_abs - p_init_i_abs * p_init_i1_abs / (p_init_i_abs + p_init_i1_abs)).
Proof.
  intros b a Hne Hs. unfold pm_np_p_m. cbv zeta. destruct (Reqb_spec a b) as [E | _]; [contradiction |]. simpl.
  assert (a - b <> 0) by lra. field. split; [assumption |].
  replace (a * a - b * b) with ((a - b) * (a + b)) by ring. apply Rmult_integral_contrapositive_currified; assumption.
Qed.

Lemma pm_between : forall b a : R, 0 < b -> b < a -> b < pm_np_p_m b a < a.
Proof.
  intros b a Hb Hab. rewrite pm_lemma by lra.
  assert (Hs : 0 < a + b) by lra.
  assert (E : 2 / 3 * (a + b - a * b / (a + b)) = 2 / 3 * (a * a + a * b + b * b) / (a + b)) by (field; lra).
  rewrite E. split.
  - apply (Rmult_lt_reg_r (a + b)); [exact Hs |]. unfold Rdiv at 1. rewrite Rmult_assoc, Rinv_l by lra. nra.
  - apply (Rmult_lt_reg_r (a + b)); [exact Hs |]. unfold Rdiv at 1. rewrite Rmult_assoc, Rinv_l by lra. nra.
Qed.
