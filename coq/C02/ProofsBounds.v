(* C02 - the two Nikuradse forms (documented 3.71 form used for liquids, 2 log(d/k) + 1.14 form used for gases) differ by less
   than 1e-3 relative for 10 <= d/k <= 1e6.  Interval-arithmetic proof (coq-interval). *)
From Coq Require Import Reals Lra.
From Interval Require Import Tactic.
From PP Require Import Kern.RBool Gen.KLambdaNp.
Open Scope R_scope.

Lemma nk_x : forall x, 23 / 10 <= x <= 139 / 10 ->
  Rabs (1 / (2 * x / ln 10 + 114 / 100) ^ 2 - 1 / (2 * (ln (371 / 100) + x) / ln 10) ^ 2)
  <= 1 / 1000 * (1 / (2 * (ln (371 / 100) + x) / ln 10) ^ 2).
Proof.
  intros x Hx.
  assert (H : Rabs (1 / (2 * x / ln 10 + 114 / 100) ^ 2 - 1 / (2 * (ln (371 / 100) + x) / ln 10) ^ 2)
              - 1 / 1000 * (1 / (2 * (ln (371 / 100) + x) / ln 10) ^ 2) <= 0).
  { interval with (i_bisect x, i_taylor x, i_prec 50). }
  lra.
Qed.

Lemma nikuradse_forms_close_lemma : forall area d eta k m : R,
  0 < k -> 10 <= d / k <= 1000000 ->
  Rabs (lambda_comp_np_lambda_nikuradse area d eta k m - lambda_incomp_np_lambda_nikuradse area d eta k m)
  <= 1 / 1000 * lambda_incomp_np_lambda_nikuradse area d eta k m.
Proof.
  intros area d eta k m Hk [Hlo Hhi].
  assert (Hr : 0 < d / k) by lra.
  assert (Hd : 0 < d).
  { replace d with (d / k * k) by (field; lra). apply Rmult_lt_0_compat; assumption. }
  unfold lambda_comp_np_lambda_nikuradse, lambda_incomp_np_lambda_nikuradse, log10. cbv zeta.
  set (x := ln (d / k)).
  assert (Hx : 23 / 10 <= x <= 139 / 10).
  { unfold x. split.
    - apply Rle_trans with (ln 10); [interval |]. destruct Hlo as [Hlt | Heq]; [left; apply ln_increasing; lra | rewrite Heq; lra].
    - apply Rle_trans with (ln 1000000); [| interval].
      destruct Hhi as [Hlt | Heq]; [left; apply ln_increasing; lra | rewrite Heq; lra]. }
  assert (E1 : ln (k / (371 / 100 * d)) = - (ln (371 / 100) + x)).
  { unfold x. replace (k / (371 / 100 * d)) with (/ (371 / 100 * (d / k))) by (field; lra).
    rewrite ln_Rinv by (apply Rmult_lt_0_compat; lra). rewrite ln_mult by lra. reflexivity. }
  rewrite E1.
  replace (-2 * (- (ln (371 / 100) + x) / ln 10)) with (2 * (ln (371 / 100) + x) / ln 10) by (unfold Rdiv; ring).
  replace (2 * (x / ln 10) + 57 / 50) with (2 * x / ln 10 + 114 / 100) by (unfold Rdiv; lra).
  apply nk_x. exact Hx.
Qed.
