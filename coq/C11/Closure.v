(* C11 - energy closure of a branched loop (any graph): nodes 0..n-1 with temperatures T, branches in flow
   direction with mass flow m, inlet = temperature of the from node, outlet temperature tout.
   Hypotheses: mass balance at every node (closed loop: no external in/outflow) and the mean-c_p mixing
   equation at every node (C10 node_mixing_law).  Conclusion: summed over ALL branches,
       sum m (c_p(T_from) T_from - c_p(tout) tout)  =  node discretisation term,
   hence  sum over the non-pump branches of the mean-c_p duties
          = heat reported by the pumps + branch discretisation + node discretisation. *)
From Coq Require Import Reals Lra Lia List Bool Arith.
From PP Require Import C10.Spec.
Import ListNotations.
Open Scope R_scope.

Record lbranch := mkLB { l_from : nat; l_to : nat; l_m : R; l_tout : R; l_pump : bool }.

Section Closure.
  Variable cp : R -> R.
  Variable T : nat -> R.

  Definition h (t : R) : R := cp t * t.                         (* what the pump formula differences *)
  Definition Hin (b : lbranch) : R := l_m b * h (T (l_from b)).
  Definition Hout (b : lbranch) : R := l_m b * h (l_tout b).
  Definition duty (b : lbranch) : R := l_m b * cbar cp (T (l_from b)) (l_tout b) * (T (l_from b) - l_tout b).
  Definition Dbranch (b : lbranch) : R :=
    - (1 / 2) * l_m b * (cp (T (l_from b)) - cp (l_tout b)) * (T (l_from b) + l_tout b).
  Definition Dnode (b : lbranch) : R :=
    - (1 / 2) * l_m b * (cp (l_tout b) - cp (T (l_to b))) * (l_tout b + T (l_to b)).
  Definition pump_q (b : lbranch) : R := l_m b * (cp (l_tout b) * l_tout b - cp (T (l_from b)) * T (l_from b)).

  Fixpoint sumb (f : lbranch -> R) (l : list lbranch) : R :=
    match l with [] => 0 | b :: r => f b + sumb f r end.
  Fixpoint sumn (k : nat) (g : nat -> R) : R := match k with O => 0 | S k' => sumn k' g + g k' end.

  Definition into (i : nat) (f : lbranch -> R) (l : list lbranch) : R :=
    sumb (fun b => if Nat.eqb (l_to b) i then f b else 0) l.
  Definition outof (i : nat) (f : lbranch -> R) (l : list lbranch) : R :=
    sumb (fun b => if Nat.eqb (l_from b) i then f b else 0) l.

  Lemma sumn_add k f g : sumn k (fun i => f i + g i) = sumn k f + sumn k g.
  Proof. induction k; simpl; [lra|]. rewrite IHk. lra. Qed.
  Lemma sumn_zero k : sumn k (fun _ => 0) = 0.
  Proof. induction k; simpl; lra. Qed.
  Lemma sumn_ext k f g : (forall i, (i < k)%nat -> f i = g i) -> sumn k f = sumn k g.
  Proof. induction k; intros H; simpl; [reflexivity|]. rewrite IHk, H by (intros; try apply H; lia). reflexivity. Qed.
  Lemma sumn_indicator k j a : (j < k)%nat -> sumn k (fun i => if Nat.eqb j i then a else 0) = a.
  Proof.
    induction k; intros H; [lia|]. simpl. destruct (Nat.eqb_spec j k) as [->|Hne].
    - rewrite (sumn_ext k _ (fun _ => 0)), sumn_zero; [lra|]. intros i Hi. destruct (Nat.eqb_spec k i); [lia|reflexivity].
    - rewrite IHk by lia. lra.
  Qed.

  (* grouping a sum over branches by their to node / from node *)
  Lemma group_into n f l : (forall b, In b l -> (l_to b < n)%nat) -> sumn n (fun i => into i f l) = sumb f l.
  Proof.
    induction l as [|b l IH]; intros H; unfold into in *; simpl.
    - apply sumn_zero.
    - rewrite sumn_add, IH by (intros; apply H; simpl; tauto).
      rewrite sumn_indicator by (apply H; simpl; tauto). reflexivity.
  Qed.
  Lemma group_outof n f l : (forall b, In b l -> (l_from b < n)%nat) -> sumn n (fun i => outof i f l) = sumb f l.
  Proof.
    induction l as [|b l IH]; intros H; unfold outof in *; simpl.
    - apply sumn_zero.
    - rewrite sumn_add, IH by (intros; apply H; simpl; tauto).
      rewrite sumn_indicator by (apply H; simpl; tauto). reflexivity.
  Qed.

  Lemma into_lin i (f g : lbranch -> R) c l :
    (forall b, l_to b = i -> f b = g b + c * l_m b) -> into i f l = into i g l + c * into i l_m l.
  Proof.
    intros H. unfold into. induction l as [|b l IH]; simpl; [lra|]. rewrite IH.
    destruct (Nat.eqb_spec (l_to b) i) as [E|]; [rewrite (H b E)|]; lra.
  Qed.
  Lemma outof_scal i (f : lbranch -> R) c l :
    (forall b, l_from b = i -> f b = c * l_m b) -> outof i f l = c * outof i l_m l.
  Proof.
    intros H. unfold outof. induction l as [|b l IH]; simpl; [lra|]. rewrite IH.
    destruct (Nat.eqb_spec (l_from b) i) as [E|]; [rewrite (H b E)|]; lra.
  Qed.

  Definition mixterm (b : lbranch) : R := l_m b * cbar cp (l_tout b) (T (l_to b)) * (l_tout b - T (l_to b)).

  Variable n : nat.
  Variable bs : list lbranch.
  Hypothesis H_range : forall b, In b bs -> (l_from b < n)%nat /\ (l_to b < n)%nat.
  Hypothesis H_mass : forall i, (i < n)%nat -> into i l_m bs = outof i l_m bs.
  Hypothesis H_mix : forall i, (i < n)%nat -> into i mixterm bs = 0.

  (* per node: enthalpy-like flow out of the node = flow into it + node discretisation of its inflows *)
  Lemma node_balance i : (i < n)%nat ->
    outof i Hin bs = into i Hout bs + into i Dnode bs.
  Proof.
    intros Hi.
    assert (E1 : into i mixterm bs = into i (fun b => Hout b + Dnode b) bs + (- h (T i)) * into i l_m bs).
    { apply into_lin. intros b Hb. unfold mixterm, Hout, Dnode, h, cbar. rewrite Hb. field. }
    assert (E2 : into i (fun b => Hout b + Dnode b) bs = into i Hout bs + into i Dnode bs).
    { unfold into. clear. induction bs as [|b l IH]; simpl; [lra|]. rewrite IH. destruct (Nat.eqb (l_to b) i); lra. }
    assert (E3 : outof i Hin bs = h (T i) * outof i l_m bs).
    { apply outof_scal. intros b Hb. unfold Hin. rewrite Hb. ring. }
    rewrite E3, <- (H_mass i Hi). rewrite (H_mix i Hi), E2 in E1. lra.
  Qed.

  Theorem enthalpy_closure : sumb Hin bs = sumb Hout bs + sumb Dnode bs.
  Proof.
    rewrite <- (group_outof n Hin bs), <- (group_into n Hout bs), <- (group_into n Dnode bs);
      try (intros b Hb; apply H_range; assumption).
    rewrite <- sumn_add. apply sumn_ext. intros i Hi. apply node_balance. assumption.
  Qed.

  Lemma duty_split b : duty b = Hin b - Hout b + Dbranch b.
  Proof. unfold duty, Hin, Hout, Dbranch, h, cbar. field. Qed.

  Definition nonpump (f : lbranch -> R) (b : lbranch) : R := if l_pump b then 0 else f b.
  Definition onpump (f : lbranch -> R) (b : lbranch) : R := if l_pump b then f b else 0.

  Lemma sumb_split f l : sumb f l = sumb (nonpump f) l + sumb (onpump f) l.
  Proof. induction l as [|b l IH]; simpl; [lra|]. rewrite IH. unfold nonpump, onpump. destruct (l_pump b); lra. Qed.
  Lemma sumb_plus f g l : sumb (fun b => f b + g b) l = sumb f l + sumb g l.
  Proof. induction l as [|b l IH]; simpl; [lra|]. rewrite IH. lra. Qed.
  Lemma sumb_ext f g l : (forall b, f b = g b) -> sumb f l = sumb g l.
  Proof. intros H. induction l as [|b l IH]; simpl; [lra|]. rewrite IH, H. lra. Qed.

  (* duties of all consumers, exchangers and pipes = heat reported by the pumps + discretisation terms *)
  Theorem branched_loop_closure :
    sumb (nonpump duty) bs = sumb (onpump pump_q) bs + sumb (nonpump Dbranch) bs + sumb Dnode bs.
  Proof.
    pose proof enthalpy_closure as E.
    rewrite (sumb_split Hin), (sumb_split Hout) in E.
    assert (E1 : sumb (nonpump duty) bs = sumb (nonpump Hin) bs - sumb (nonpump Hout) bs + sumb (nonpump Dbranch) bs).
    { clear. induction bs as [|b l IH]; simpl; [lra|]. rewrite IH. unfold nonpump. destruct (l_pump b); [lra|].
      rewrite duty_split. lra. }
    assert (E2 : sumb (onpump pump_q) bs = sumb (onpump Hout) bs - sumb (onpump Hin) bs).
    { clear. induction bs as [|b l IH]; simpl; [lra|]. rewrite IH. unfold onpump. destruct (l_pump b); [|lra].
      unfold pump_q, Hout, Hin, h. lra. }
    lra.
  Qed.

  (* constant c_p: both discretisation terms vanish *)
End Closure.

Lemma const_cp_no_discretisation : forall c T (l : list lbranch),
  sumb (nonpump (Dbranch (fun _ => c) T)) l = 0 /\ sumb (Dnode (fun _ => c) T) l = 0.
Proof.
  intros. split; induction l as [|b l IH]; simpl; try lra; rewrite IH; unfold nonpump, Dbranch, Dnode;
    destruct (l_pump b); lra.
Qed.
