(* C11 - property theorems only (each closed by [exact] of a lemma of C11/Proofs.v).  Generated inputs,
   regenerated from /repo on every run: Gen/KThermNp, KThermNb (thermal kernels), Gen/KThermExpr (get_branch_cp),
   Gen/KHooksHeat (HeatConsumer adaption_* / extract_results, CirculationPump extract_results, mode constants and
   the ordered decision table of create_component_array).  Hand model: C11/Model (mode decision procedure,
   admissibility guard), tied by an exhaustive correspondence over the 16 presence patterns. *)
From Coq Require Import Reals Lra List Bool Arith ZArith String.
From PP Require Import Kern.RBool Gen.KThermNp Gen.KThermNb Gen.KThermExpr Gen.KHooksHeat C10.Spec C10.Proofs
                       C11.Model C11.Proofs C11.Closure.
Import ListNotations.
Open Scope R_scope.

(* ---- 0. which pit / component-array column each positional input of the generated hook kernels is *)
Theorem hook_inputs_are_the_documented_columns :
  hook_kernel_inputs =
  [("hc_bh", ["bp_MDOTINIT"; "bp_QEXT"; "bp_TOUTINIT"; "ca_DELTAT"; "ca_MODE"; "fl_cp"; "np_from_TINIT"]);
   ("hc_ah", ["bp_MDOTINIT"; "bp_QEXT"; "bp_TOUTINIT"; "ca_MODE"; "fl_cp"; "np_from_TINIT"]);
   ("hc_bt", ["bp_MDOTINIT"; "bp_QEXT"; "bp_TOUTINIT"; "ca_DELTAT"; "ca_MODE"; "ca_TRETURN"; "fl_cp"; "np_from_TINIT"]);
   ("hc_at", ["bp_JAC_DERIV_DT"; "bp_JAC_DERIV_DTOUT"; "bp_LOAD_VEC_BRANCHES_T"; "bp_QEXT"; "ca_MODE"]);
   ("hc_res", ["bp_QEXT"; "bp_TOUTINIT"; "np_from_TINIT"]); ("cp_at", []);
   ("cp_res", ["bp_MDOTINIT"; "bp_TOUTINIT"; "fl_cp"; "np_from_TINIT"])]%string /\
  therm_kernel_inputs =
  [("therm_np", ["amb"; "bp_ALPHA"; "bp_DO"; "bp_LENGTH"; "bp_MDOTINIT"; "bp_QEXT"; "bp_TEXT"; "bp_TL"; "cp_b"; "cp_n";
                 "nodes_flow"; "t_init_i"; "t_init_i1"; "t_init_n"; "t_init_nt"]);
   ("therm_nb", ["amb"; "bp_ALPHA"; "bp_DO"; "bp_LENGTH"; "bp_MDOTINIT"; "bp_QEXT"; "bp_TEXT"; "bp_TL"; "cp_b"; "cp_n";
                 "nodes_flow"; "t_init_i"; "t_init_i1"; "t_init_n"; "t_init_nt"]);
   ("thermexpr", ["bp_TOUTINIT"; "fl_cp"; "np_from_TINIT"; "np_to_TINIT"]);
   ("branch_cp", ["bp_TOUTINIT"; "fl_cp"; "np_from_TINIT"])]%string.
Proof. split; reflexivity. Qed.
Print Assumptions hook_inputs_are_the_documented_columns.

(* ---- 1. duty of a zero-length / loss-free branch (exchanger, consumer): the generated thermal residual
        vanishes iff Q = |m| * mean c_p * (T_in - T_out), c_p mean = get_branch_cp *)
Theorem exchanger_duty_numpy : forall amb al d L m Q Text cpn nf tin tout tn tnt (cp : R -> R),
  flows m -> al * L = 0 -> branch_cp_cp tout cp tin * Rabs m <> 0 ->
  (therm_np_fb amb al d L m Q Text 0 (branch_cp_cp tout cp tin) cpn nf tin tout tn tnt = 0 <->
   Q = Rabs m * ((cp tin + cp tout) / 2) * (tin - tout)).
Proof. exact exchanger_duty_np. Qed.
Print Assumptions exchanger_duty_numpy.

Theorem exchanger_duty_numba : forall amb al d L m Q Text cpn nf tin tout tn tnt (cp : R -> R),
  flows m -> al * L = 0 -> branch_cp_cp tout cp tin * Rabs m <> 0 ->
  (therm_nb_fb amb al d L m Q Text 0 (branch_cp_cp tout cp tin) cpn nf tin tout tn tnt = 0 <->
   Q = Rabs m * ((cp tin + cp tout) / 2) * (tin - tout)).
Proof. exact exchanger_duty_nb. Qed.
Print Assumptions exchanger_duty_numba.

(* the consumer hooks use the same mean *)
Theorem consumer_hook_uses_branch_cp : forall m Q tout DT TR cp tin,
  hc_bt_QEXT m Q tout DT 1 TR cp tin = branch_cp_cp tout cp tin * m * DT /\
  hc_bt_QEXT m Q tout DT 2 TR cp tin = branch_cp_cp tout cp tin * m * (tin - TR).
Proof. exact hook_cp_is_branch_cp. Qed.
Print Assumptions consumer_hook_uses_branch_cp.

(* ---- 2. the five modes *)
Theorem consumer_mode_MF_DT : forall m Q0 tout DT TR cp tin,
  m <> 0 -> cbar cp tin tout <> 0 ->
  hc_bt_QEXT m Q0 tout DT 1 TR cp tin = m * cbar cp tin tout * (tin - tout) ->
  tin - tout = DT /\
  hc_bh_MDOTINIT m Q0 tout DT 1 cp tin = m /\ hc_ah_MDOTINIT m Q0 tout 1 cp tin = m.
Proof. exact mode_MF_DT. Qed.
Print Assumptions consumer_mode_MF_DT.

Theorem consumer_mode_MF_TR : forall m Q0 tout DT TR cp tin,
  m <> 0 -> cbar cp tin tout <> 0 ->
  hc_bt_QEXT m Q0 tout DT 2 TR cp tin = m * cbar cp tin tout * (tin - tout) ->
  tout = TR /\
  hc_bh_MDOTINIT m Q0 tout DT 2 cp tin = m /\ hc_ah_MDOTINIT m Q0 tout 2 cp tin = m.
Proof. exact mode_MF_TR. Qed.
Print Assumptions consumer_mode_MF_TR.

Theorem consumer_mode_QE_MF : forall m Q0 tout DT TR cp tin,
  hc_bt_QEXT m Q0 tout DT 3 TR cp tin = Q0 /\
  hc_bh_MDOTINIT m Q0 tout DT 3 cp tin = m /\ hc_ah_MDOTINIT m Q0 tout 3 cp tin = m /\
  hc_ah_JAC_DERIV_DM m Q0 tout 3 cp tin = 1 /\ hc_ah_LOAD_VEC_BRANCHES m Q0 tout 3 cp tin = 0 /\
  hc_ah_JAC_DERIV_DP m Q0 tout 3 cp tin = 0 /\ hc_ah_JAC_DERIV_DP1 m Q0 tout 3 cp tin = 0.
Proof. exact mode_QE_MF. Qed.
Print Assumptions consumer_mode_QE_MF.

Theorem consumer_hydraulic_row_identity : forall mode m Q0 tout cp tin,
  mode <> 5 ->
  hc_ah_JAC_DERIV_DM m Q0 tout mode cp tin = 1 /\ hc_ah_LOAD_VEC_BRANCHES m Q0 tout mode cp tin = 0 /\
  hc_ah_JAC_DERIV_DP m Q0 tout mode cp tin = 0 /\ hc_ah_JAC_DERIV_DP1 m Q0 tout mode cp tin = 0 /\
  hc_ah_MDOTINIT m Q0 tout mode cp tin = m.
Proof. exact hydraulic_row_identity. Qed.
Print Assumptions consumer_hydraulic_row_identity.

Theorem consumer_mode_QE_DT : forall m Q0 tout DT TR cp tin,
  Q0 <> 0 -> DT <> 0 -> cbar cp tin tout <> 0 ->
  hc_bh_MDOTINIT m Q0 tout DT 4 cp tin = m ->
  hc_bt_QEXT m Q0 tout DT 4 TR cp tin = m * cbar cp tin tout * (tin - tout) ->
  hc_bt_QEXT m Q0 tout DT 4 TR cp tin = Q0 /\ tin - tout = DT /\ m = Q0 / (cbar cp tin tout * DT).
Proof. exact mode_QE_DT. Qed.
Print Assumptions consumer_mode_QE_DT.

Theorem consumer_mode_QE_TR : forall m Q0 tout cp tin jdt jdtout lvb,
  Q0 <> 0 -> tout < tin ->
  (hc_at_JAC_DERIV_DT jdt jdtout lvb Q0 5 = 0 /\ hc_at_JAC_DERIV_DTOUT jdt jdtout lvb Q0 5 = 1 /\
   hc_at_LOAD_VEC_BRANCHES_T jdt jdtout lvb Q0 5 = 0) /\
  hc_ah_MDOTINIT m Q0 tout 5 cp tin = m /\
  hc_ah_JAC_DERIV_DM m Q0 tout 5 cp tin = cbar cp tin tout * (tin - tout) /\
  (hc_ah_LOAD_VEC_BRANCHES m Q0 tout 5 cp tin = 0 <-> Q0 = m * cbar cp tin tout * (tin - tout)).
Proof. exact mode_QE_TR. Qed.
Print Assumptions consumer_mode_QE_TR.

(* ---- 3. the mode table is total and injective on admissible pairs (all 16 presence patterns enumerated) *)
Theorem mode_table_total :
  forallb (fun p =>
    if admissible p
    then let m := mode_of hc_mode_assignments p in
         (1 <=? m)%Z && (m <=? 5)%Z && mode_names_pair hc_mode_names p m
    else true) all_patterns = true /\
  forallb (fun p => forallb (fun q =>
    if admissible p && admissible q && Z.eqb (mode_of hc_mode_assignments p) (mode_of hc_mode_assignments q)
    then Bool.eqb (g_mf p) (g_mf q) && Bool.eqb (g_tr p) (g_tr q) && Bool.eqb (g_dt p) (g_dt q) && Bool.eqb (g_qe p) (g_qe q)
    else true) all_patterns) all_patterns = true /\
  map (fun nm => lookupZ nm hc_consts) ["MF_DT"; "MF_TR"; "QE_MF"; "QE_DT"; "QE_TR"]%string = [1; 2; 3; 4; 5]%Z /\
  hc_array_cols = [("DELTAT", GDt); ("MASS", GMf); ("QEXT", GQe); ("TRETURN", GTr)]%string.
Proof. exact mode_table_total_lemma. Qed.
Print Assumptions mode_table_total.

Theorem all_patterns_complete : forall a b c d, In (mkPat a b c d) all_patterns.
Proof. intros [] [] [] []; vm_compute; tauto. Qed.
Print Assumptions all_patterns_complete.

(* ---- 4. reported quantities *)
Theorem reported_quantities : forall Q tout tin m (cp : R -> R),
  hc_res_res_qext_w Q tout tin = Q /\ hc_res_res_deltat_k Q tout tin = tin - tout /\
  cp_res_res_deltat_k m tout cp tin = tin - tout /\
  cp_res_res_qext_w m tout cp tin = m * (cp tout * tout - cp tin * tin).
Proof. exact reported_quantities_lemma. Qed.
Print Assumptions reported_quantities.

(* consumer and circulation-pump results (qext_w, deltat_k) are written on the rows that were calculated
   (generated table; elements that were not calculated keep the NaN the result table is initialised with) *)
Theorem reported_rows :
  res_rows_written = [("hc_res", "qext_w", "active_hydraulics"); ("hc_res", "deltat_k", "active_hydraulics");
                      ("cp_res", "deltat_k", "active_hydraulics"); ("cp_res", "qext_w", "active_hydraulics")]%string.
Proof. reflexivity. Qed.
Print Assumptions reported_rows.

(* ---- 4b. per element: reported pump heat = mean-c_p heat of the same temperature step + discretisation term *)
Theorem pump_heat_per_element : forall m tout (cp : R -> R) tin,
  cp_res_res_qext_w m tout cp tin =
  m * ((cp tin + cp tout) / 2) * (tout - tin) + (1 / 2) * m * (cp tout - cp tin) * (tout + tin).
Proof. exact pump_heat_per_element_lemma. Qed.
Print Assumptions pump_heat_per_element.

Theorem pump_heat_constant_cp : forall m tout c tin,
  cp_res_res_qext_w m tout (fun _ => c) tin = m * c * (tout - tin) /\
  cp_res_res_qext_w m tout (fun _ => c) tin = - (m * c * cp_res_res_deltat_k m tout (fun _ => c) tin).
Proof. exact pump_heat_constant_cp_lemma. Qed.
Print Assumptions pump_heat_constant_cp.

(* ---- 2b. the mode theorems need flow along the declared direction (m > 0: then |m| = m in the thermal row).
        create_heat_consumer does not enforce controlled_mdot > 0; for m < 0 the faithful model REFUTES the
        set-point clause: the reported temperature difference is minus the set-point, the outlet temperature is
        2 T_in - T_return (replayed on the implementation by tools/props/c11.py: known finding
        C11-negative-controlled-mdot) *)
Theorem consumer_modes_refuted_for_negative_mdot : forall m Q0 tout DT TR cp tin,
  m < 0 -> cbar cp tin tout <> 0 ->
  (hc_bt_QEXT m Q0 tout DT 1 TR cp tin = Rabs m * cbar cp tin tout * (tin - tout) -> tin - tout = - DT) /\
  (hc_bt_QEXT m Q0 tout DT 2 TR cp tin = Rabs m * cbar cp tin tout * (tin - tout) -> tout = 2 * tin - TR).
Proof.
  intros. split; intros; [eapply mode_MF_DT_negative_mdot | eapply mode_MF_TR_negative_mdot]; eauto.
Qed.
Print Assumptions consumer_modes_refuted_for_negative_mdot.

Theorem consumer_duty_equation_for_positive_mdot : forall cp m Q tin tout,
  0 < m -> (Q = Rabs m * cbar cp tin tout * (tin - tout) <-> Q = m * cbar cp tin tout * (tin - tout)).
Proof. exact duty_abs_pos. Qed.
Print Assumptions consumer_duty_equation_for_positive_mdot.

(* ---- 5. loop closure (partial: series loop): sum of mean-c_p duties = reported pump heat + discretisation *)
Theorem loop_energy_closure_partial : forall cp m l Tflow Treturn,
  chained Tflow l Treturn ->
  duties cp m l = cp_res_res_qext_w m Tflow cp Treturn + discretisation cp m l.
Proof. exact loop_energy_closure_lemma. Qed.
Print Assumptions loop_energy_closure_partial.

Theorem loop_energy_closure_constant_cp : forall c m l Tflow Treturn,
  chained Tflow l Treturn ->
  duties (fun _ => c) m l = cp_res_res_qext_w m Tflow (fun _ => c) Treturn.
Proof. exact loop_energy_closure_const_cp. Qed.
Print Assumptions loop_energy_closure_constant_cp.

(* ---- 5b. loop closure for branched loops (any graph): mass balance and mean-c_p mixing at every node *)
Theorem branched_loop_energy_closure : forall cp T n (bs : list lbranch),
  (forall b, In b bs -> (l_from b < n)%nat /\ (l_to b < n)%nat) ->
  (forall i, (i < n)%nat -> into i l_m bs = outof i l_m bs) ->
  (forall i, (i < n)%nat -> into i (mixterm cp T) bs = 0) ->
  sumb (nonpump (duty cp T)) bs =
  sumb (onpump (pump_q cp T)) bs + sumb (nonpump (Dbranch cp T)) bs + sumb (Dnode cp T) bs.
Proof. exact branched_loop_closure. Qed.
Print Assumptions branched_loop_energy_closure.

(* the pump term is the generated circulation-pump result formula; the terms written out *)
Theorem closure_terms : forall cp T b,
  pump_q cp T b = cp_res_res_qext_w (l_m b) (l_tout b) cp (T (l_from b)) /\
  duty cp T b = l_m b * ((cp (T (l_from b)) + cp (l_tout b)) / 2) * (T (l_from b) - l_tout b) /\
  mixterm cp T b = l_m b * ((cp (l_tout b) + cp (T (l_to b))) / 2) * (l_tout b - T (l_to b)) /\
  Dbranch cp T b = - (1 / 2) * l_m b * (cp (T (l_from b)) - cp (l_tout b)) * (T (l_from b) + l_tout b) /\
  Dnode cp T b = - (1 / 2) * l_m b * (cp (l_tout b) - cp (T (l_to b))) * (l_tout b + T (l_to b)).
Proof. intros. unfold pump_q, cp_res_res_qext_w, duty, mixterm, Dbranch, Dnode, cbar. cbv zeta. repeat split; ring. Qed.
Print Assumptions closure_terms.

Theorem branched_loop_energy_closure_constant_cp : forall c T n (bs : list lbranch),
  (forall b, In b bs -> (l_from b < n)%nat /\ (l_to b < n)%nat) ->
  (forall i, (i < n)%nat -> into i l_m bs = outof i l_m bs) ->
  (forall i, (i < n)%nat -> into i (mixterm (fun _ => c) T) bs = 0) ->
  sumb (nonpump (duty (fun _ => c) T)) bs = sumb (onpump (pump_q (fun _ => c) T)) bs.
Proof.
  intros c T n bs H1 H2 H3. rewrite (branched_loop_closure (fun _ => c) T n bs H1 H2 H3).
  destruct (const_cp_no_discretisation c T bs) as [-> ->]. ring.
Qed.
Print Assumptions branched_loop_energy_closure_constant_cp.

Example branched_loop_hypotheses_satisfiable :
  let T := fun i : nat => match i with O => 350 | 1%nat => 340 | _ => 330 end in
  let bs := [mkLB 0 1 2 340 false; mkLB 0 1 1 340 false; mkLB 1 0 3 350 true] in
  (forall b, In b bs -> (l_from b < 2)%nat /\ (l_to b < 2)%nat) /\
  (forall i, (i < 2)%nat -> into i l_m bs = outof i l_m bs) /\
  (forall i, (i < 2)%nat -> into i (mixterm (fun _ => 4000) T) bs = 0).
Proof.
  simpl. split; [|split].
  - intros b [<-|[<-|[<-|[]]]]; simpl; split; auto.
  - intros i Hi. destruct i as [|[|i]]; unfold into, outof; simpl; lra.
  - intros i Hi. destruct i as [|[|i]]; unfold into, mixterm, cbar; simpl; lra.
Qed.

(* ---- non-vacuity *)
Example loop_example :
  chained 350 [(350, 348); (348, 320); (320, 319)] 319 /\
  duties (fun _ => 4000) 2 [(350, 348); (348, 320); (320, 319)] = 2 * 4000 * 31.
Proof. simpl. split; [repeat split|]. unfold cbar. field. Qed.

Example consumer_mode_hypotheses_satisfiable :
  let cp := fun _ : R => 4000 in
  (* MF_DT: m = 1/2, DT = 20: T_in = 350, T_out = 330 is the thermal fixed point *)
  hc_bt_QEXT (1/2) 0 330 20 1 0 cp 350 = (1/2) * cbar cp 350 330 * (350 - 330) /\
  (* MF_TR: T_return = 320 *)
  hc_bt_QEXT (1/2) 0 320 0 2 320 cp 350 = (1/2) * cbar cp 350 320 * (350 - 320) /\
  (* QE_DT: Q = 40000, DT = 20: m = 40000 / (4000 * 20) = 1/2 reproduces itself, duty balanced *)
  hc_bh_MDOTINIT (1/2) 40000 330 20 4 cp 350 = 1/2 /\
  hc_bt_QEXT (1/2) 40000 330 20 4 0 cp 350 = (1/2) * cbar cp 350 330 * (350 - 330) /\
  (* QE_TR: Q = 60000, T_out = T_return = 320, m = 1/2: hydraulic residual zero *)
  hc_ah_LOAD_VEC_BRANCHES (1/2) 60000 320 5 cp 350 = 0 /\
  (* exchanger duty: flowing, zero length *)
  flows (1/2) /\ 0 * 0 = 0 /\ branch_cp_cp 330 cp 350 * Rabs (1/2) <> 0.
Proof.
  cbv zeta. unfold hc_bt_QEXT, hc_bh_MDOTINIT, hc_ah_LOAD_VEC_BRANCHES, branch_cp_cp, cbar, flows. cbv zeta.
  rewrite (Rabs_pos_eq (1/2)) by lra.
  repeat match goal with |- context [Reqb ?a ?b] => destruct (Reqb_spec a b); try lra end.
  repeat match goal with |- context [Rleb ?a ?b] => destruct (Rleb_spec a b); try lra end.
  simpl. repeat split; try lra; field.
Qed.

Example mode_guards_satisfiable :
  admissible (mkPat true false true false) = true /\ mode_of hc_mode_assignments (mkPat true false true false) = 1%Z /\
  admissible (mkPat false true true false) = false /\ (1 <> 0 /\ cbar (fun _ => 4182) 350 320 <> 0).
Proof. repeat split; try reflexivity; try lra. unfold cbar. lra. Qed.
