(* C11 - heat duties: theorems over the generated thermal kernels (Gen/KThermNp, KThermNb), the generated
   get_branch_cp (Gen/KThermExpr) and the generated hooks of HeatConsumer / CirculationPump (Gen/KHooksHeat). *)
From Coq Require Import Reals Lra List Bool Arith ZArith String.
From PP Require Import Kern.RBool Gen.KThermNp Gen.KThermNb Gen.KThermExpr Gen.KHooksHeat C10.Spec C10.Proofs C11.Model.
Import ListNotations.
Open Scope R_scope.

(* ------------------------------------------------------------------------------------------------------------
   1. exchanger / consumer duty: zero length (or zero loss coefficient), no temperature lift *)

Lemma spec_T_out_no_loss : forall al L d cpb m Text Tin Q,
  al * L = 0 -> spec_T_out al L d cpb m Text Tin 0 Q = Tin - Q / (cpb * m).
Proof.
  intros. unfold spec_T_out.
  replace (al * L * PI * d / (cpb * m)) with 0 by (rewrite H; unfold Rdiv; ring).
  rewrite Ropp_0, exp_0. ring.
Qed.

Lemma duty_iff : forall cpb m ti ti1 Q,
  cpb * m <> 0 -> (ti1 = ti - Q / (cpb * m) <-> Q = m * cpb * (ti - ti1)).
Proof.
  intros cpb m ti ti1 Q H.
  assert (Hc : cpb <> 0) by (intro E; apply H; rewrite E; ring).
  assert (Hm : m <> 0) by (intro E; apply H; rewrite E; ring).
  split; intros E.
  - rewrite E. field. split; assumption.
  - rewrite E. field. split; assumption.
Qed.

Theorem exchanger_duty_np : forall amb al d L m Q Text cpn nf tin tout tn tnt (cp : R -> R),
  flows m -> al * L = 0 -> branch_cp_cp tout cp tin * Rabs m <> 0 ->
  (therm_np_fb amb al d L m Q Text 0 (branch_cp_cp tout cp tin) cpn nf tin tout tn tnt = 0 <->
   Q = Rabs m * cbar cp tin tout * (tin - tout)).
Proof.
  intros. destruct (branch_cooling_law_np amb al d L m Q Text 0 (branch_cp_cp tout cp tin) cpn nf tin tout tn tnt) as [Hl _].
  rewrite (Hl H), spec_T_out_no_loss by assumption.
  assert (E : branch_cp_cp tout cp tin = cbar cp tin tout) by (unfold branch_cp_cp, cbar; cbv zeta; lra). rewrite E in *.
  apply duty_iff. assumption.
Qed.

Theorem exchanger_duty_nb : forall amb al d L m Q Text cpn nf tin tout tn tnt (cp : R -> R),
  flows m -> al * L = 0 -> branch_cp_cp tout cp tin * Rabs m <> 0 ->
  (therm_nb_fb amb al d L m Q Text 0 (branch_cp_cp tout cp tin) cpn nf tin tout tn tnt = 0 <->
   Q = Rabs m * cbar cp tin tout * (tin - tout)).
Proof.
  intros. destruct (branch_cooling_law_nb amb al d L m Q Text 0 (branch_cp_cp tout cp tin) cpn nf tin tout tn tnt) as [Hl _].
  rewrite (Hl H), spec_T_out_no_loss by assumption.
  assert (E : branch_cp_cp tout cp tin = cbar cp tin tout) by (unfold branch_cp_cp, cbar; cbv zeta; lra). rewrite E in *.
  apply duty_iff. assumption.
Qed.

(* the heat capacity inside the consumer hooks is the very same get_branch_cp mean *)
Lemma hook_cp_is_branch_cp : forall m Q tout DT TR cp tin,
  hc_bt_QEXT m Q tout DT 1 TR cp tin = branch_cp_cp tout cp tin * m * DT /\
  hc_bt_QEXT m Q tout DT 2 TR cp tin = branch_cp_cp tout cp tin * m * (tin - TR).
Proof.
  intros. unfold hc_bt_QEXT, branch_cp_cp. cbv zeta.
  split.
  - destruct (Reqb_spec 1 1); [|lra]. destruct (Reqb_spec 1 2); [lra|]. ring.
  - destruct (Reqb_spec 2 1); [lra|]. destruct (Reqb_spec 2 2); [|lra]. ring.
Qed.

(* ------------------------------------------------------------------------------------------------------------
   2. the five consumer modes.  [duty_eq] is the fixed-point equation of the consumer's thermal row as
      established by exchanger_duty (m > 0: flow along the declared direction) *)

Definition duty_eq (cp : R -> R) (m Q tin tout : R) : Prop := Q = m * cbar cp tin tout * (tin - tout).

(* MF_DT: mass flow and temperature difference prescribed *)
Theorem mode_MF_DT : forall m Q0 tout DT TR cp tin,
  m <> 0 -> cbar cp tin tout <> 0 ->
  duty_eq cp m (hc_bt_QEXT m Q0 tout DT 1 TR cp tin) tin tout ->
  tin - tout = DT /\
  hc_bh_MDOTINIT m Q0 tout DT 1 cp tin = m /\ hc_ah_MDOTINIT m Q0 tout 1 cp tin = m.
Proof.
  intros m Q0 tout DT TR cp tin Hm Hc H. unfold duty_eq in H.
  destruct (hook_cp_is_branch_cp m Q0 tout DT TR cp tin) as [E _]. rewrite E in H.
  assert (Eb : branch_cp_cp tout cp tin = cbar cp tin tout) by (unfold branch_cp_cp, cbar; cbv zeta; lra). rewrite Eb in H.
  split; [|split].
  - apply (Rmult_eq_reg_l (m * cbar cp tin tout)); [lra|]. apply Rmult_integral_contrapositive; split; assumption.
  - unfold hc_bh_MDOTINIT. cbv zeta. destruct (Reqb_spec 1 4); [lra|reflexivity].
  - unfold hc_ah_MDOTINIT. cbv zeta. destruct (Reqb_spec 1 5); [lra|reflexivity].
Qed.

(* MF_TR: mass flow and return temperature prescribed *)
Theorem mode_MF_TR : forall m Q0 tout DT TR cp tin,
  m <> 0 -> cbar cp tin tout <> 0 ->
  duty_eq cp m (hc_bt_QEXT m Q0 tout DT 2 TR cp tin) tin tout ->
  tout = TR /\
  hc_bh_MDOTINIT m Q0 tout DT 2 cp tin = m /\ hc_ah_MDOTINIT m Q0 tout 2 cp tin = m.
Proof.
  intros m Q0 tout DT TR cp tin Hm Hc H. unfold duty_eq in H.
  destruct (hook_cp_is_branch_cp m Q0 tout DT TR cp tin) as [_ E]. rewrite E in H.
  assert (Eb : branch_cp_cp tout cp tin = cbar cp tin tout) by (unfold branch_cp_cp, cbar; cbv zeta; lra). rewrite Eb in H.
  split; [|split].
  - assert (tin - TR = tin - tout); [|lra].
    apply (Rmult_eq_reg_l (m * cbar cp tin tout)); [lra|]. apply Rmult_integral_contrapositive; split; assumption.
  - unfold hc_bh_MDOTINIT. cbv zeta. destruct (Reqb_spec 2 4); [lra|reflexivity].
  - unfold hc_ah_MDOTINIT. cbv zeta. destruct (Reqb_spec 2 5); [lra|reflexivity].
Qed.

(* QE_MF: heat and mass flow prescribed - no hook touches either; the hydraulic row is an identity row *)
Theorem mode_QE_MF : forall m Q0 tout DT TR cp tin,
  hc_bt_QEXT m Q0 tout DT 3 TR cp tin = Q0 /\
  hc_bh_MDOTINIT m Q0 tout DT 3 cp tin = m /\ hc_ah_MDOTINIT m Q0 tout 3 cp tin = m /\
  hc_ah_JAC_DERIV_DM m Q0 tout 3 cp tin = 1 /\ hc_ah_LOAD_VEC_BRANCHES m Q0 tout 3 cp tin = 0 /\
  hc_ah_JAC_DERIV_DP m Q0 tout 3 cp tin = 0 /\ hc_ah_JAC_DERIV_DP1 m Q0 tout 3 cp tin = 0.
Proof.
  intros. unfold hc_bt_QEXT, hc_bh_MDOTINIT, hc_ah_MDOTINIT, hc_ah_JAC_DERIV_DM, hc_ah_LOAD_VEC_BRANCHES,
    hc_ah_JAC_DERIV_DP, hc_ah_JAC_DERIV_DP1. cbv zeta.
  destruct (Reqb_spec 3 1); [lra|]. destruct (Reqb_spec 3 2); [lra|]. destruct (Reqb_spec 3 4); [lra|].
  destruct (Reqb_spec 3 5); [lra|]. simpl. repeat split; reflexivity.
Qed.

(* the hydraulic row of every mode but QE_TR is the identity row 1 * x_m = 0: the prescribed or hook-computed
   mass flow is not changed by the Newton step *)
Theorem hydraulic_row_identity : forall mode m Q0 tout cp tin,
  mode <> 5 ->
  hc_ah_JAC_DERIV_DM m Q0 tout mode cp tin = 1 /\ hc_ah_LOAD_VEC_BRANCHES m Q0 tout mode cp tin = 0 /\
  hc_ah_JAC_DERIV_DP m Q0 tout mode cp tin = 0 /\ hc_ah_JAC_DERIV_DP1 m Q0 tout mode cp tin = 0 /\
  hc_ah_MDOTINIT m Q0 tout mode cp tin = m.
Proof.
  intros. unfold hc_ah_MDOTINIT, hc_ah_JAC_DERIV_DM, hc_ah_LOAD_VEC_BRANCHES, hc_ah_JAC_DERIV_DP, hc_ah_JAC_DERIV_DP1.
  cbv zeta. destruct (Reqb_spec mode 5); [contradiction|]. simpl. repeat split; reflexivity.
Qed.

(* QE_DT: heat and temperature difference prescribed.  The hydraulic hook sets m = Q / (cbar * DT); in
   bidirectional mode hydraulic and thermal hooks see the same temperatures, so at a joint fixed point
   (m reproduces itself, thermal row balanced) the temperature difference is the set-point *)
Theorem mode_QE_DT : forall m Q0 tout DT TR cp tin,
  Q0 <> 0 -> DT <> 0 -> cbar cp tin tout <> 0 ->
  hc_bh_MDOTINIT m Q0 tout DT 4 cp tin = m ->          (* hydraulic fixed point *)
  duty_eq cp m (hc_bt_QEXT m Q0 tout DT 4 TR cp tin) tin tout ->   (* thermal fixed point *)
  hc_bt_QEXT m Q0 tout DT 4 TR cp tin = Q0 /\ tin - tout = DT /\ m = Q0 / (cbar cp tin tout * DT).
Proof.
  intros m Q0 tout DT TR cp tin HQ HD Hc Hh Ht.
  assert (EQ : hc_bt_QEXT m Q0 tout DT 4 TR cp tin = Q0).
  { unfold hc_bt_QEXT. cbv zeta. destruct (Reqb_spec 4 1); [lra|]. destruct (Reqb_spec 4 2); [lra|]. reflexivity. }
  rewrite EQ in Ht. unfold duty_eq in Ht.
  unfold hc_bh_MDOTINIT in Hh. cbv zeta in Hh. destruct (Reqb_spec 4 4); [|lra].
  change ((cp tin + cp tout) / 2) with (cbar cp tin tout) in Hh.
  split; [exact EQ|]. split; [|symmetry; exact Hh].
  assert (Hm : m * (cbar cp tin tout * DT) = Q0) by (rewrite <- Hh; field; split; assumption).
  assert (Hmne : m <> 0) by (intro E; rewrite E in Hm; lra).
  apply (Rmult_eq_reg_l (m * cbar cp tin tout)); [lra|]. apply Rmult_integral_contrapositive; split; assumption.
Qed.

(* QE_TR: heat and return temperature prescribed.  The thermal row is an identity row (outlet temperature stays
   at the return set-point it was initialised with); the hydraulic row is the duty equation, whose residual
   vanishes exactly when Q = m * cbar * (T_in - T_out) *)
Theorem mode_QE_TR : forall m Q0 tout cp tin jdt jdtout lvb,
  Q0 <> 0 -> tout < tin ->
  (hc_at_JAC_DERIV_DT jdt jdtout lvb Q0 5 = 0 /\ hc_at_JAC_DERIV_DTOUT jdt jdtout lvb Q0 5 = 1 /\
   hc_at_LOAD_VEC_BRANCHES_T jdt jdtout lvb Q0 5 = 0) /\
  hc_ah_MDOTINIT m Q0 tout 5 cp tin = m /\
  hc_ah_JAC_DERIV_DM m Q0 tout 5 cp tin = cbar cp tin tout * (tin - tout) /\
  (hc_ah_LOAD_VEC_BRANCHES m Q0 tout 5 cp tin = 0 <-> duty_eq cp m Q0 tin tout).
Proof.
  intros m Q0 tout cp tin jdt jdtout lvb HQ Hlt.
  unfold hc_at_JAC_DERIV_DT, hc_at_JAC_DERIV_DTOUT, hc_at_LOAD_VEC_BRANCHES_T, hc_ah_MDOTINIT, hc_ah_JAC_DERIV_DM,
    hc_ah_LOAD_VEC_BRANCHES, duty_eq, cbar. cbv zeta.
  destruct (Reqb_spec 5 5); [|lra]. destruct (Reqb_spec Q0 0); [contradiction|].
  destruct (Rleb_spec tin tout); [lra|]. simpl.
  repeat split; try reflexivity; try lra; intros; lra.
Qed.

(* ------------------------------------------------------------------------------------------------------------
   3. mode table *)
Theorem mode_table_total_lemma :
  forallb (fun p =>
    if admissible p
    then let m := mode_of hc_mode_assignments p in
         (1 <=? m)%Z && (m <=? 5)%Z && mode_names_pair hc_mode_names p m
    else true) all_patterns = true /\
  (* distinct admissible patterns get distinct modes *)
  forallb (fun p => forallb (fun q =>
    if admissible p && admissible q && Z.eqb (mode_of hc_mode_assignments p) (mode_of hc_mode_assignments q)
    then Bool.eqb (g_mf p) (g_mf q) && Bool.eqb (g_tr p) (g_tr q) && Bool.eqb (g_dt p) (g_dt q) && Bool.eqb (g_qe p) (g_qe q)
    else true) all_patterns) all_patterns = true /\
  (* the constants the hooks compare MODE with are the table's constants *)
  map (fun nm => lookupZ nm hc_consts) ["MF_DT"; "MF_TR"; "QE_MF"; "QE_DT"; "QE_TR"]%string = [1; 2; 3; 4; 5]%Z /\
  hc_array_cols = [("DELTAT", GDt); ("MASS", GMf); ("QEXT", GQe); ("TRETURN", GTr)]%string.
Proof. vm_compute. repeat split; reflexivity. Qed.

(* ------------------------------------------------------------------------------------------------------------
   4. reported quantities *)
Theorem reported_quantities_lemma : forall Q tout tin m (cp : R -> R),
  hc_res_res_qext_w Q tout tin = Q /\ hc_res_res_deltat_k Q tout tin = tin - tout /\
  cp_res_res_deltat_k m tout cp tin = tin - tout /\
  cp_res_res_qext_w m tout cp tin = m * (cp tout * tout - cp tin * tin).
Proof. intros. repeat split. Qed.

(* ------------------------------------------------------------------------------------------------------------
   5. energy closure of a loop given as the list of its branches in flow order: (T_in, T_out) per branch,
      one mass flow m (series loop); the circulation pump closes the loop from the last outlet to the first
      inlet *)
Fixpoint chained (T0 : R) (l : list (R * R)) (Tend : R) : Prop :=
  match l with
  | [] => T0 = Tend
  | (a, b) :: r => a = T0 /\ chained b r Tend
  end.

Fixpoint duties (cp : R -> R) (m : R) (l : list (R * R)) : R :=
  match l with [] => 0 | (a, b) :: r => m * cbar cp a b * (a - b) + duties cp m r end.

(* heat-capacity discretisation term of one branch: mean-c_p duty minus difference of c_p(T) * T *)
Fixpoint discretisation (cp : R -> R) (m : R) (l : list (R * R)) : R :=
  match l with [] => 0 | (a, b) :: r => - (1 / 2) * m * (cp a - cp b) * (a + b) + discretisation cp m r end.

Lemma duties_telescope : forall cp m l T0 Tend,
  chained T0 l Tend ->
  duties cp m l = m * (cp T0 * T0 - cp Tend * Tend) + discretisation cp m l.
Proof.
  intros cp m l. induction l as [|[a b] l IH]; intros T0 Tend H; simpl in *.
  - subst. ring.
  - destruct H as [-> H]. rewrite (IH b Tend H). unfold cbar. field.
Qed.

(* the pump reports m * (c_p(T_flow) T_flow - c_p(T_return) T_return) (generated), T_flow = first inlet,
   T_return = last outlet *)
Theorem loop_energy_closure_lemma : forall cp m l Tflow Treturn,
  chained Tflow l Treturn ->
  duties cp m l = cp_res_res_qext_w m Tflow cp Treturn + discretisation cp m l.
Proof.
  intros. rewrite (duties_telescope cp m l Tflow Treturn H). unfold cp_res_res_qext_w. cbv zeta. ring.
Qed.

Lemma discretisation_const : forall c m l, discretisation (fun _ => c) m l = 0.
Proof. intros c m l. induction l as [|[a b] l IH]; simpl; [reflexivity|]. rewrite IH. ring. Qed.

Theorem loop_energy_closure_const_cp : forall c m l Tflow Treturn,
  chained Tflow l Treturn ->
  duties (fun _ => c) m l = cp_res_res_qext_w m Tflow (fun _ => c) Treturn.
Proof. intros. rewrite (loop_energy_closure_lemma _ m l Tflow Treturn H), discretisation_const. ring. Qed.

(* ------------------------------------------------------------------------------------------------------------
   6. per element: what the circulation pump reports vs. the mean-c_p heat of the same temperature step *)
Theorem pump_heat_per_element_lemma : forall m tout (cp : R -> R) tin,
  cp_res_res_qext_w m tout cp tin =
  m * cbar cp tin tout * (tout - tin) + (1 / 2) * m * (cp tout - cp tin) * (tout + tin).
Proof. intros. unfold cp_res_res_qext_w, cbar. cbv zeta. field. Qed.

Theorem pump_heat_constant_cp_lemma : forall m tout c tin,
  cp_res_res_qext_w m tout (fun _ => c) tin = m * c * (tout - tin) /\
  cp_res_res_qext_w m tout (fun _ => c) tin = - (m * c * cp_res_res_deltat_k m tout (fun _ => c) tin).
Proof. intros. unfold cp_res_res_qext_w, cp_res_res_deltat_k. cbv zeta. split; ring. Qed.

(* ------------------------------------------------------------------------------------------------------------
   7. flow against the declared direction (controlled_mdot < 0).  The thermal kernel works with |m| and the
      flow-corrected inlet, the hooks multiply by the signed m: the duty equation of the thermal row is
      [duty_abs].  For m > 0 it is [duty_eq]; for m < 0 the set-points are NOT met *)
Definition duty_abs (cp : R -> R) (m Q tin tout : R) : Prop := Q = Rabs m * cbar cp tin tout * (tin - tout).

Lemma duty_abs_pos : forall cp m Q tin tout, 0 < m -> (duty_abs cp m Q tin tout <-> duty_eq cp m Q tin tout).
Proof. intros. unfold duty_abs, duty_eq. rewrite Rabs_pos_eq by lra. tauto. Qed.

Theorem mode_MF_DT_negative_mdot : forall m Q0 tout DT TR cp tin,
  m < 0 -> cbar cp tin tout <> 0 ->
  duty_abs cp m (hc_bt_QEXT m Q0 tout DT 1 TR cp tin) tin tout -> tin - tout = - DT.
Proof.
  intros m Q0 tout DT TR cp tin Hm Hc H. unfold duty_abs in H.
  destruct (hook_cp_is_branch_cp m Q0 tout DT TR cp tin) as [E _]. rewrite E in H.
  assert (Eb : branch_cp_cp tout cp tin = cbar cp tin tout) by (unfold branch_cp_cp, cbar; cbv zeta; lra).
  rewrite Eb, Rabs_left in H by assumption.
  apply (Rmult_eq_reg_l (m * cbar cp tin tout)); [lra|]. apply Rmult_integral_contrapositive; split; [lra|assumption].
Qed.

Theorem mode_MF_TR_negative_mdot : forall m Q0 tout DT TR cp tin,
  m < 0 -> cbar cp tin tout <> 0 ->
  duty_abs cp m (hc_bt_QEXT m Q0 tout DT 2 TR cp tin) tin tout -> tout = 2 * tin - TR.
Proof.
  intros m Q0 tout DT TR cp tin Hm Hc H. unfold duty_abs in H.
  destruct (hook_cp_is_branch_cp m Q0 tout DT TR cp tin) as [_ E]. rewrite E in H.
  assert (Eb : branch_cp_cp tout cp tin = cbar cp tin tout) by (unfold branch_cp_cp, cbar; cbv zeta; lra).
  rewrite Eb, Rabs_left in H by assumption.
  assert (tin - TR = - (tin - tout)); [|lra].
  apply (Rmult_eq_reg_l (m * cbar cp tin tout)); [lra|]. apply Rmult_integral_contrapositive; split; [lra|assumption].
Qed.
