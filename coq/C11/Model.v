(* C11 - hand model (definitions only) of the heat-consumer mode decision of
   HeatConsumer.create_component_array and of the admissibility guard of create_heat_consumer.
   The ordered assignment table [hc_mode_assignments] and the mode constants are regenerated from the source
   (Gen/KHooksHeat.v); the decision procedure "later assignments win, masks are conjunctions of given-flags"
   is the hand part, tied to the real create_heat_consumer + create_component_array by an exhaustive
   correspondence over all 16 presence patterns (tools/props/c11.py). *)
From Coq Require Import ZArith List Bool String.
From PP Require Import Gen.KHooksHeat.
Import ListNotations.

Record pattern := mkPat { g_mf : bool; g_tr : bool; g_dt : bool; g_qe : bool }.

Definition has (p : pattern) (g : given) : bool :=
  match g with GMf => g_mf p | GTr => g_tr p | GDt => g_dt p | GQe => g_qe p end.

(* consumer_array starts at zero; every `consumer_array[a & b, MODE] = m` overwrites where both flags hold *)
Definition mode_of (table : list (given * given * Z)) (p : pattern) : Z :=
  fold_left (fun acc e => match e with (a, b, m) => if has p a && has p b then m else acc end) table 0%Z.

Definition n_given (p : pattern) : nat :=
  (if g_mf p then 1 else 0) + (if g_tr p then 1 else 0) + (if g_dt p then 1 else 0) + (if g_qe p then 1 else 0).

(* create_heat_consumer: exactly two of the four quantities, and not both deltat_k and treturn_k *)
Definition admissible (p : pattern) : bool := Nat.eqb (n_given p) 2 && negb (g_dt p && g_tr p).

Definition all_patterns : list pattern :=
  flat_map (fun a => flat_map (fun b => flat_map (fun c => map (fun d => mkPat a b c d) [false; true])
                                                  [false; true]) [false; true]) [false; true].

Definition lookupZ (k : string) (l : list (string * Z)) : Z :=
  match find (fun kv => String.eqb (fst kv) k) l with Some kv => snd kv | None => (-1)%Z end.

(* the pair of quantities a mode stands for, by its name in the source *)
Definition pair_of_mode_name (nm : string) : option (given * given) :=
  if String.eqb nm "MF_DT" then Some (GMf, GDt) else
  if String.eqb nm "MF_TR" then Some (GMf, GTr) else
  if String.eqb nm "QE_MF" then Some (GQe, GMf) else
  if String.eqb nm "QE_DT" then Some (GQe, GDt) else
  if String.eqb nm "QE_TR" then Some (GQe, GTr) else None.

Definition given_eqb (a b : given) : bool :=
  match a, b with GMf, GMf | GTr, GTr | GDt, GDt | GQe, GQe => true | _, _ => false end.

(* pattern p is "exactly the pair (a, b)" *)
Definition is_pair (p : pattern) (a b : given) : bool :=
  has p a && has p b && Nat.eqb (n_given p) 2 && negb (given_eqb a b).

(* the mode assigned to p is the constant whose name stands for exactly p's pair *)
Definition mode_names_pair (names : list (string * Z)) (p : pattern) (m : Z) : bool :=
  existsb (fun nv => Z.eqb (snd nv) m &&
                     match pair_of_mode_name (fst nv) with Some (a, b) => is_pair p a b | None => false end) names.

(* ---- correspondence: real create_heat_consumer (raises?) and create_component_array (MODE) per pattern *)
Record mcase := mkMCase { m_pat : pattern; m_raises : bool; m_mode_obs : Z }.

Definition mcase_ok (c : mcase) : bool :=
  Bool.eqb (negb (admissible (m_pat c))) (m_raises c) &&
  (if m_raises c then true else Z.eqb (mode_of hc_mode_assignments (m_pat c)) (m_mode_obs c)).

Fixpoint first_bad (cs : list mcase) (i : nat) : option nat :=
  match cs with [] => None | c :: r => if mcase_ok c then first_bad r (S i) else Some i end.

Definition summary (cs : list mcase) : nat * nat * Z :=
  (List.length cs, List.length (filter (fun c => negb (mcase_ok c)) cs),
   match first_bad cs 0 with Some i => Z.of_nat i | None => (-1)%Z end).
