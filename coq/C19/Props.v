(* C19 - property theorems only.  Hand model C19/Model.v (interp1d contract, dispatch, mixtures,
   polynomials), scalar formulas regenerated from fluids.py / std_type_class.py (Gen/KFluidFns.v),
   library data regenerated from the data files (Gen/FluidData.v, Gen/StdTypeData.v).
   Numbers are rationals: every float is one, so all actual queries are covered. *)
From Coq Require Import String QArith Qminmax Qabs List Bool ZArith.
From PP Require Import C19.Model Gen.KFluidFns C19.Classes Gen.FluidData Gen.StdTypeData C19.Proofs.
Import ListNotations.
Open Scope Q_scope.

(* ---- 1. interpolation: any strictly increasing knot list, any query *)
Theorem interp_hits_knots : forall ks, strictly_increasing ks = true ->
  forall p, In p ks -> interp ks (fst p) == snd p.
Proof. exact interp_hits_knots_lemma. Qed.
Print Assumptions interp_hits_knots.

Theorem interp_affine_between : forall ks pre p q post x,
  ks = pre ++ p :: q :: post -> strictly_increasing ks = true ->
  fst p <= x -> x <= fst q -> interp ks x == seg p q x.
Proof. exact interp_affine_between_lemma. Qed.
Print Assumptions interp_affine_between.

Theorem extrapolation_continues_end_segment :
  (forall p0 p1 r x, strictly_increasing (p0 :: p1 :: r) = true -> x <= fst p0 ->
     interp (p0 :: p1 :: r) x == seg p0 p1 x) /\
  (forall ks pre p q x, ks = pre ++ [p; q] -> strictly_increasing ks = true -> fst q <= x ->
     interp ks x == seg p q x).
Proof. split; [exact extrapolation_left_lemma | exact extrapolation_right_lemma]. Qed.
Print Assumptions extrapolation_continues_end_segment.

(* adjacent pieces meet in the knot, the function is the left piece up to the knot and the right
   piece after it, and each piece is Lipschitz with its slope *)
Theorem interp_continuous : forall ks pre p q r post,
  ks = pre ++ p :: q :: r :: post -> strictly_increasing ks = true ->
  seg p q (fst q) == snd q /\ seg q r (fst q) == snd q /\
  (forall x, fst p <= x -> x <= fst r ->
     interp ks x == if Qle_bool x (fst q) then seg p q x else seg q r x) /\
  (forall x y, seg p q x - seg p q y == (snd q - snd p) / (fst q - fst p) * (x - y)).
Proof. exact interp_continuous_lemma. Qed.
Print Assumptions interp_continuous.

(* ---- library data (finite; over the tables regenerated from the data files on every run) *)
Theorem library_tables_strictly_increasing : forall f t,
  In f fluid_library -> In t (fluid_tables f) -> strictly_increasing t = true.
Proof. exact library_tables_increasing_lemma. Qed.
Print Assumptions library_tables_strictly_increasing.

Theorem library_values_at_knots : forall f t p,
  In f fluid_library -> In t (fluid_tables f) -> In p t -> interextra_getter t (fst p) == snd p.
Proof.
  intros f t p Hf Ht Hp. apply interp_hits_knots_lemma; auto.
  exact (library_tables_increasing_lemma f t Hf Ht).
Qed.
Print Assumptions library_values_at_knots.

Theorem library_data_wellformed :
  forallb fluid_ok fluid_library = true /\ forallb component_ok component_library = true /\
  forallb pump_ok pump_library = true /\ forallb pipe_ok pipe_library = true.
Proof. destruct library_ok, stdtype_library_ok. auto. Qed.
Print Assumptions library_data_wellformed.

(* ---- 2. compressibility slope = stored derivative, every library fluid *)
Theorem compressibility_files_consistent : forall f,
  In f fluid_library -> f_compr_slope f == f_der_compressibility f.
Proof. exact library_compressibility_lemma. Qed.
Print Assumptions compressibility_files_consistent.

(* ---- 3. shapes *)
Theorem shape : forall q,
  (forall t, shape_of_result (interextra_get t q) = Some (shape_of_query q)) /\
  (forall o s, shape_of_result (linear_get o s q) = Some (shape_of_query q)) /\
  (forall c, shape_of_result (polynomial_get c q) = Some (shape_of_query q)) /\
  (forall v, shape_of_result (constant_get v (Some q)) = Some (shape_of_query q)) /\
  (forall reg, shape_of_result (pump_get reg q) = Some (shape_of_query q)).
Proof.
  intro q. repeat split; intros; try apply shape_elementwise; try apply shape_constant.
  destruct q; simpl; auto. now rewrite pump_array_length.
Qed.
Print Assumptions shape.

(* ---- 4. integrals *)
Theorem constant_integral_laws : forall v a b c,
  constant_integral v a b == - constant_integral v b a /\
  constant_integral v a b + constant_integral v b c == constant_integral v a c /\
  constant_integral v a b == v * (a - b).
Proof. exact Proofs.constant_integral_laws. Qed.
Print Assumptions constant_integral_laws.

(* antisymmetric, additive, equal to trapezoid and midpoint rule of the property values (both are
   exact for an affine function) *)
Theorem linear_integral_laws : forall o s a b c,
  linear_integral o s a b == - linear_integral o s b a /\
  linear_integral o s a b + linear_integral o s b c == linear_integral o s a c /\
  linear_integral o s a b == (linear_value o s a + linear_value o s b) / 2 * (a - b) /\
  linear_integral o s a b == linear_value o s ((a + b) / 2) * (a - b).
Proof. exact Proofs.linear_integral_laws. Qed.
Print Assumptions linear_integral_laws.

(* F(u) - F(l) with F = Horner(polyint coeffs), and the formal derivative of F is the property *)
Theorem polynomial_integral_laws : forall cs a b c,
  let F := snd (polynomial_getters cs) in
  polynomial_integral F a b == - polynomial_integral F b a /\
  polynomial_integral F a b + polynomial_integral F b c == polynomial_integral F a c /\
  (forall x, F x == poly_desc (polyint cs) x) /\ Forall2 Qeq (poly_deriv (polyint cs)) cs.
Proof.
  intros cs a b c F.
  destruct (Proofs.polynomial_integral_laws F a b c) as [H1 H2].
  repeat split; auto. intro x. apply horner_is_poly. apply polyint_derivative.
Qed.
Print Assumptions polynomial_integral_laws.

(* the interpolated property integrates exactly: F(upper) - F(lower) with F = _antiderivative *)
Theorem interextra_integral_antisymmetric : forall F a b,
  interextra_integral F a b == - interextra_integral F b a.
Proof. exact interextra_integral_antisym_lemma. Qed.
Print Assumptions interextra_integral_antisymmetric.

(* additive for ALL limits (inside, across any number of knots, in the extrapolated ends) *)
Theorem interextra_integral_additive : forall ks a b c,
  interextra_integral (interextra_antiderivative ks) a b + interextra_integral (interextra_antiderivative ks) b c
  == interextra_integral (interextra_antiderivative ks) a c.
Proof. intros. apply interextra_integral_additive_lemma. Qed.
Print Assumptions interextra_integral_additive.

(* consistent with the property values: for two limits in one piece of the table - the first piece extends
   to minus infinity, the last to plus infinity - the integral is the exact integral of the affine piece,
   i.e. the trapezoid of the property values at the limits; with additivity this fixes the integral for all
   limits.  Moreover F is 0 at the first knot and grows by one trapezoid of the table per segment. *)
Theorem interextra_integral_consistent : forall ks pre p q post,
  ks = pre ++ p :: q :: post -> strictly_increasing ks = true ->
  (forall a b, in_piece pre post p q a -> in_piece pre post p q b ->
     interextra_integral (interextra_antiderivative ks) a b
     == (interextra_getter ks a + interextra_getter ks b) / 2 * (a - b)) /\
  interextra_antiderivative ks (fst p) == cum_before pre p /\
  interextra_antiderivative ks (fst q) == cum_before pre p + (snd q + snd p) / 2 * (fst q - fst p).
Proof.
  intros ks pre p q post E Hs. split.
  - intros a b. now apply interextra_integral_piece_lemma.
  - now apply (antideriv_at_knot ks pre p q post).
Qed.
Print Assumptions interextra_integral_consistent.

(* ---- 4b. Sutherland and polynomial property values (generated expressions) *)
(* the Sutherland law eta0 (t0 + ts)/(ts + T) (T/t0)^1.5; x^1.5 is an oracle [pow15]; at the reference
   temperature the property returns the reference viscosity *)
Theorem sutherland_value_law : forall pow15 eta0 t0 ts x,
  sutherland_value pow15 eta0 t0 ts x == eta0 * (t0 + ts) / (ts + x) * pow15 (x / t0) /\
  (pow15 (t0 / t0) == 1 -> ~ t0 + ts == 0 -> sutherland_value pow15 eta0 t0 ts t0 == eta0).
Proof. intros. split; [apply sutherland_formula_lemma | apply sutherland_reference_lemma]. Qed.
Print Assumptions sutherland_value_law.

(* a polynomial property returns the value of its regression polynomial (Horner = sum of powers) *)
Theorem polynomial_value_law : forall cs x,
  polynomial_value (fst (polynomial_getters cs)) x == poly_desc cs x.
Proof. exact polynomial_value_lemma. Qed.
Print Assumptions polynomial_value_law.

(* ---- 5. mixtures: any number of components *)
Theorem mass_fractions_sum_to_one : forall xm,
  ~ qsum (map (fun p => fst p * snd p) xm) == 0 -> qsum (mass_from_molar xm) == 1.
Proof. exact mass_fractions_sum_to_one_lemma. Qed.
Print Assumptions mass_fractions_sum_to_one.

Theorem mass_molar_inverse : forall xm,
  Forall (fun p => ~ snd p == 0) xm -> ~ qsum (map (fun p => fst p * snd p) xm) == 0 ->
  qsum (map fst xm) == 1 ->
  Forall2 Qeq (molar_from_mass (combine (mass_from_molar xm) (map snd xm))) (map fst xm) /\
  mix_harmonic (combine (mass_from_molar xm) (map snd xm)) == mix_arith xm.
Proof. intros. split; [now apply mass_molar_inverse_lemma | now apply molar_mass_forms_agree_lemma]. Qed.
Print Assumptions mass_molar_inverse.

Theorem mixture_within_component_bounds : forall lo hi l,
  fractions_ok l -> values_within lo hi l ->
  (qsum (map fst l) == 1 -> lo <= mix_arith l /\ mix_arith l <= hi) /\
  (qsum (map fst l) == 1 -> 0 < lo -> lo <= mix_harmonic l /\ mix_harmonic l <= hi) /\
  (0 < qsum (map fst l) -> lo <= mix_weighted l /\ mix_weighted l <= hi).
Proof.
  intros lo hi l Hf Hv.
  split; [intro; now apply mix_arith_bounds_lemma|].
  split; [intros; now apply mix_harmonic_bounds_lemma | intro; now apply mix_weighted_bounds_lemma].
Qed.
Print Assumptions mixture_within_component_bounds.

(* ---- 6. pump curve *)
Theorem pump_lift : forall reg v,
  0 <= pump_scalar reg v /\ (v < 0 -> pump_scalar reg v == 0) /\
  (0 <= v -> 0 <= poly_desc reg (v * 3600) -> pump_scalar reg v == poly_desc reg (v * 3600)).
Proof.
  intros. split; [apply pump_nonneg_lemma|]. split; [apply pump_reverse_lemma | apply pump_poly_lemma].
Qed.
Print Assumptions pump_lift.

Theorem pump_array_is_map_scalar : forall reg vs,
  Forall2 Qeq (pump_array reg vs) (map (pump_scalar reg) vs).
Proof. exact pump_array_lemma. Qed.
Print Assumptions pump_array_is_map_scalar.

(* ---- 7. standard-type parameters reach created pipes unchanged: for every library pipe type and each
        of the columns inner_diameter_mm, outer_diameter_mm, k_mm, u_w_per_m2k the cell create_pipe writes
        (mapping regenerated from create.py, keys touched by retrieve_u regenerated from component_toolbox.py)
        is the library number itself; the only exception is u_w_per_m2k derived from a given u_w_per_mk *)
Theorem std_type_reaches_pipe_unchanged : forall s col, In s pipe_library -> In col std_columns ->
  match created_cell create_pipe_std_columns retrieve_u_writes retrieve_u_default col s with
  | CVal v => match std_field col s with
              | Some b => exists a, v = Some a /\ a == b
              | None => (* only a missing heat transfer value: retrieve_u's documented default *)
                        col = "u_w_per_m2k"%string /\ s_u_w_per_mk s = None /\ opt_q_eqb v retrieve_u_default = true
              end
  | CDerived => col = "u_w_per_m2k"%string /\ s_u_w_per_mk s <> None /\ s_u_w_per_m2k s = None
  | CNotFromStdType => False
  end.
Proof.
  intros s col Hs Hc.
  pose proof (proj1 (forallb_forall _ _) std_types_reach_pipes_lemma s Hs) as H.
  unfold reaches_unchanged in H. pose proof (proj1 (forallb_forall _ _) H col Hc) as H1. simpl in H1.
  destruct (created_cell create_pipe_std_columns retrieve_u_writes retrieve_u_default col s) as [v| |]; try discriminate.
  - destruct (std_field col s) as [b|].
    + destruct v as [a|]; try discriminate. exists a. split; auto. now apply Qeq_bool_iff.
    + apply andb_true_iff in H1. destruct H1 as [H1 H3]. apply andb_true_iff in H1. destruct H1 as [H1 H2].
      apply String.eqb_eq in H1. destruct (s_u_w_per_mk s); try discriminate. auto.
  - apply andb_true_iff in H1. destruct H1 as [E H1]. apply String.eqb_eq in E.
    destruct (s_u_w_per_mk s), (s_u_w_per_m2k s); try discriminate. repeat split; auto. discriminate.
Qed.
Print Assumptions std_type_reaches_pipe_unchanged.

(* ---- non-vacuity *)
Example knots_example :
  strictly_increasing [(1, 5); (2, 3); (4, 7)] = true /\
  interp [(1, 5); (2, 3); (4, 7)] 3 == 5 /\ interp [(1, 5); (2, 3); (4, 7)] 0 == 7 /\
  interp [(1, 5); (2, 3); (4, 7)] 6 == 11.
Proof. vm_compute. repeat split; intro; discriminate. Qed.

Example library_example : length fluid_library = 8%nat /\ (length (f_density fluid_water) >= 10)%nat /\
  (length pipe_library >= 100)%nat /\ length pump_library = 3%nat.
Proof. vm_compute. repeat split; repeat constructor. Qed.

Example integral_example :   (* the former counterexample of additivity: limits 2, 1, 0 across the knot 1 *)
  let t := [(0, 0); (1, 0); (2, 2)] in
  interextra_integral (interextra_antiderivative t) 2 0 == 1 /\
  interextra_integral (interextra_antiderivative t) 2 1 == 1 /\ interextra_integral (interextra_antiderivative t) 1 0 == 0 /\
  interextra_integral (interextra_antiderivative t) 4 (-2) == 9.
Proof. vm_compute. repeat split. Qed.

Example sutherland_example :
  sutherland_value (fun r => if Qeq_bool r 4 then 8 else 1) (1 # 64) 64 256 256 == 5 # 64 /\
  polynomial_value (fst (polynomial_getters [3; 0; -(2)])) 2 == 10.
Proof. vm_compute. split; reflexivity. Qed.

Example mixture_example :
  let xm := [(1 # 2, 16); (1 # 4, 28); (1 # 4, 44)] in
  qsum (map fst xm) == 1 /\ Forall (fun p => ~ snd p == 0) xm /\ fractions_ok xm /\ values_within 16 44 xm /\
  mix_arith xm == 26.
Proof.
  simpl. split; [reflexivity|]. split; [repeat constructor; intro H; discriminate H|].
  split; [repeat constructor; intro H; discriminate H|].
  split; [|reflexivity]. repeat constructor; simpl; intro H; discriminate H.
Qed.

Example pump_example : pump_get [-(1 # 4); 0; 6] (QVec [1 # 3600; -(1); 8 # 3600]) = RVec (pump_array [-(1 # 4); 0; 6] [1 # 3600; -(1); 8 # 3600])
  /\ qlist_eqb (pump_array [-(1 # 4); 0; 6] [1 # 3600; -(1); 8 # 3600]) [23 # 4; 0; 0] = true.
Proof. split; reflexivity. Qed.

Example std_type_example :   (* rows with a derived heat transfer value and rows with none occur in Pipe.csv (none gives it directly) *)
  existsb (fun s => match s_u_w_per_mk s with Some _ => true | None => false end) pipe_library = true /\
  existsb (fun s => match s_u_w_per_mk s, s_u_w_per_m2k s with None, None => true | _, _ => false end) pipe_library = true /\
  created_cell create_pipe_std_columns retrieve_u_writes retrieve_u_default "inner_diameter_mm"
    (hd {| s_name := ""; s_inner_diameter_mm := None; s_outer_diameter_mm := None; s_k_mm := None;
           s_u_w_per_m2k := None; s_u_w_per_mk := None |} pipe_library) = CVal (Some 86).
Proof. vm_compute. repeat split. Qed.
