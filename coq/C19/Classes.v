(* C19 - the property classes and the pump curve as they answer queries: the dispatch of
   C19/Model.v (H) around the scalar formulas regenerated from the source (Gen/KFluidFns.v, T).
   Definitions only.  These are the functions the exact correspondence compares with the running
   code (tools/props/c19.py). *)
From Coq Require Import String QArith Qminmax List Bool ZArith.
From PP Require Import C19.Model Gen.KFluidFns.
Import ListNotations.
Open Scope Q_scope.

(* FluidPropertyInterExtra *)
Definition interextra_get (table : list knot) (q : query) : result :=
  elementwise (interextra_value (interextra_getter table)) q.
Definition interextra_int (table : list knot) (u l : query) : result :=
  elementwise2 (interextra_integral (interextra_antiderivative table)) u l.

(* FluidPropertyLinear *)
Definition linear_get (offset slope : Q) (q : query) : result := elementwise (linear_value offset slope) q.
Definition linear_int (offset slope : Q) (u l : query) : result := elementwise2 (linear_integral offset slope) u l.

(* FluidPropertyConstant: value dispatch is Model.constant_get *)
Definition constant_int (value : Q) (u l : query) : result := elementwise2 (constant_integral value) u l.

(* FluidPropertyPolynominal with given regression coefficients (np.polyfit is an oracle) *)
Definition polynomial_get (coeffs : list Q) (q : query) : result :=
  elementwise (polynomial_value (fst (polynomial_getters coeffs))) q.
Definition polynomial_int (coeffs : list Q) (u l : query) : result :=
  elementwise2 (polynomial_integral (snd (polynomial_getters coeffs))) u l.

(* PumpStdType.get_pressure: np.iterable(arg) selects the array branch *)
Definition pump_array (reg_par : list Q) (vs : list Q) : list Q :=
  masked_update pump_array_base pump_array_mask (pump_array_value reg_par) vs.
Definition pump_get (reg_par : list Q) (q : query) : result :=
  match q with
  | QScalar v => RScalar (pump_scalar reg_par v)
  | QVec vs => RVec (pump_array reg_par vs)
  end.

(* library fluid = call_lib(name): the six (eight) properties of a record of Gen/FluidData.v *)
Definition lib_density (f : fluid_rec) := interextra_get (f_density f).
Definition lib_viscosity (f : fluid_rec) := interextra_get (f_viscosity f).
Definition lib_heat_capacity (f : fluid_rec) := interextra_get (f_heat_capacity f).
Definition lib_compressibility (f : fluid_rec) := linear_get (f_compr_offset f) (f_compr_slope f).
