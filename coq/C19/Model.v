(* C19 - hand-written executable model (definitions only, no proofs) of the fluid / standard-type
   libraries of pandapipes:
     properties/fluids.py           FluidPropertyInterExtra / Constant / Linear / Polynominal
     properties/properties_toolbox.py   calculate_mixture_*, calculate_mass_fraction_from_molar_fraction
     std_types/std_type_class.py    PumpStdType.get_pressure (scalar and array branch)
   Numbers are rationals (Q): every float is a rational, so every actual query is covered.
   The scalar *formulas* of the classes are not written here: they are regenerated from the source
   into Gen/KFluidFns.v (T-tie) and plugged into the dispatch functions below by C19/Classes.v.
   Oracle: scipy.interpolate.interp1d(kind="linear", fill_value="extrapolate"); its documented
   contract is [interp] (what _call_linear computes: searchsorted-left index clipped to
   [1, n-1], slope * (x - x_lo) + y_lo).  The exact correspondence runs go through the real
   interp1d. *)
From Coq Require Import String QArith Qminmax Qabs List Bool ZArith.
Import ListNotations.
Open Scope Q_scope.

Definition Qlt_bool (a b : Q) : bool := negb (Qle_bool b a).

(* ------------------------------------------------------------------ piecewise-linear table *)
Definition knot := (Q * Q)%type.

(* the affine function through two knots *)
Definition seg (p0 p1 : knot) (x : Q) : Q :=
  (snd p1 - snd p0) / (fst p1 - fst p0) * (x - fst p0) + snd p0.

(* segment selection of interp1d._call_linear: the first segment (k-1, k), k >= 1, with
   x <= x_k; the last segment when x lies beyond the last knot *)
Fixpoint interp_from (p0 p1 : knot) (rest : list knot) (x : Q) : Q :=
  match rest with
  | [] => seg p0 p1 x
  | p2 :: r => if Qle_bool x (fst p1) then seg p0 p1 x else interp_from p1 p2 r x
  end.

(* interp1d needs at least two knots (it raises otherwise); totalised with 0 / the single value *)
Definition interp (ks : list knot) (x : Q) : Q :=
  match ks with
  | p0 :: p1 :: r => interp_from p0 p1 r x
  | [p0] => snd p0
  | [] => 0
  end.

(* FluidPropertyInterExtra._antiderivative (H-model of the array code):
     cum[i] = sum_{j<i} (y_{j+1} + y_j)/2 (x_{j+1} - x_j)
     i      = clip(searchsorted(x, arg, side="right") - 1, 0, n-2)     (segment with x_i <= arg < x_{i+1})
     F(arg) = cum[i] + (g(arg) + y_i)/2 (arg - x_i)        g = prop_getter *)
Fixpoint antideriv_from (acc : Q) (p0 p1 : knot) (rest : list knot) (g : Q -> Q) (x : Q) : Q :=
  match rest with
  | [] => acc + (g x + snd p0) / 2 * (x - fst p0)
  | p2 :: r => if Qlt_bool x (fst p1) then acc + (g x + snd p0) / 2 * (x - fst p0)
               else antideriv_from (acc + (snd p1 + snd p0) / 2 * (fst p1 - fst p0)) p1 p2 r g x
  end.

Definition antideriv (ks : list knot) (g : Q -> Q) (x : Q) : Q :=
  match ks with
  | p0 :: p1 :: r => antideriv_from 0 p0 p1 r g x
  | _ => 0
  end.

(* specification side: sum of the trapezoids over a knot list *)
Fixpoint trapz_from (p0 : knot) (l : list knot) : Q :=
  match l with
  | [] => 0
  | p1 :: r => (snd p1 + snd p0) / 2 * (fst p1 - fst p0) + trapz_from p1 r
  end.
Definition cum_before (pre : list knot) (p : knot) : Q :=
  match pre ++ [p] with a :: r => trapz_from a r | [] => 0 end.

Fixpoint increasing_from (x0 : Q) (ks : list knot) : bool :=
  match ks with
  | [] => true
  | p :: r => Qlt_bool x0 (fst p) && increasing_from (fst p) r
  end.

(* strictly increasing abscissae, at least two knots *)
Definition strictly_increasing (ks : list knot) : bool :=
  match ks with
  | p0 :: p1 :: r => increasing_from (fst p0) (p1 :: r)
  | _ => false
  end.

(* ------------------------------------------------------------------ queries and results *)
(* scalar / array-like (list, ndarray, Series) arguments and what comes back *)
Inductive query := QScalar (x : Q) | QVec (xs : list Q).
Inductive result := RScalar (y : Q) | RVec (ys : list Q) | RErr.

(* an element-wise property: scalar in, scalar out; n values in, n values out *)
Definition elementwise (f : Q -> Q) (q : query) : result :=
  match q with
  | QScalar x => RScalar (f x)
  | QVec xs => RVec (map f xs)
  end.

(* two limits of an integral: numpy broadcasting of scalar against vector *)
Definition elementwise2 (f : Q -> Q -> Q) (u l : query) : result :=
  match u, l with
  | QScalar a, QScalar b => RScalar (f a b)
  | QVec xs, QScalar b => RVec (map (fun a => f a b) xs)
  | QScalar a, QVec ys => RVec (map (fun b => f a b) ys)
  | QVec xs, QVec ys =>
      if Nat.eqb (length xs) (length ys) then RVec (map (fun p => f (fst p) (snd p)) (combine xs ys))
      else RErr
  end.

(* FluidPropertyConstant.get_at_value( *args ):
     no argument      -> np.array([value])
     scalar           -> value
     anything with len -> np.array([value]) * np.ones(len(arg)) *)
Definition constant_get (value : Q) (arg : option query) : result :=
  match arg with
  | None => RVec [value]
  | Some (QScalar _) => RScalar value
  | Some (QVec xs) => RVec (map (fun _ => value * 1) xs)
  end.

Definition shape_of_query (q : query) : option nat :=
  match q with QScalar _ => None | QVec xs => Some (length xs) end.
Definition shape_of_result (r : result) : option (option nat) :=
  match r with RScalar _ => Some None | RVec ys => Some (Some (length ys)) | RErr => None end.

(* ------------------------------------------------------------------ polynomials *)
(* coefficients highest degree first, as numpy stores them *)
Fixpoint qpow (x : Q) (n : nat) : Q := match n with O => 1 | S k => x * qpow x k end.

(* sum(reg_par * x ** (n - 1)),  n = arange(len(reg_par), 0, -1): powers first, then the sum *)
Fixpoint poly_desc (cs : list Q) (x : Q) : Q :=
  match cs with
  | [] => 0
  | c :: r => c * qpow x (length r) + poly_desc r x
  end.

(* np.poly1d.__call__ = np.polyval: Horner *)
Definition poly_horner (cs : list Q) (x : Q) : Q := fold_left (fun y c => y * x + c) cs 0.

(* np.polyint(p): p / arange(len(p), 0, -1) followed by the integration constant 0 *)
Fixpoint polyint (cs : list Q) : list Q :=
  match cs with
  | [] => [0]
  | c :: r => (c / inject_Z (Z.of_nat (S (length r)))) :: polyint r
  end.

(* formal derivative (specification side only) *)
Fixpoint poly_deriv (cs : list Q) : list Q :=
  match cs with
  | [] => []
  | c :: r => match r with [] => [] | _ => (inject_Z (Z.of_nat (length r)) * c) :: poly_deriv r end
  end.

(* ------------------------------------------------------------------ masked update (pump array branch) *)
(* results = base-valued array; results[mask] = vals  (vals has one entry per True of mask) *)
Fixpoint scatter (base : Q) (mask : list bool) (vals : list Q) : list Q :=
  match mask with
  | [] => []
  | true :: m => match vals with v :: vs => v :: scatter base m vs | [] => base :: scatter base m [] end
  | false :: m => base :: scatter base m vals
  end.

Fixpoint select {A} (mask : list bool) (xs : list A) : list A :=
  match mask, xs with
  | true :: m, x :: r => x :: select m r
  | false :: m, _ :: r => select m r
  | _, _ => []
  end.

Definition masked_update (base : Q) (mask : Q -> bool) (value : Q -> Q) (xs : list Q) : list Q :=
  let m := map mask xs in scatter base m (map value (select m xs)).

(* ------------------------------------------------------------------ mixtures *)
Definition qsum (l : list Q) : Q := fold_right Qplus 0 l.

(* every pair below is (fraction_i, component value_i) *)
(* calculate_mixture_heat_capacity / calculate_mixture_molar_mass(molar proportions):
   sum (fraction_i * value_i) *)
Definition mix_arith (wc : list (Q * Q)) : Q := qsum (map (fun p => fst p * snd p) wc).

(* calculate_mixture_density / calculate_mixture_molar_mass(mass proportions):
   1 / sum (fraction_i / value_i) *)
Definition mix_harmonic (wc : list (Q * Q)) : Q := 1 / qsum (map (fun p => fst p / snd p) wc).

(* calculate_mixture_viscosity: sum (eta_i x_i sqrt M_i) / sum (x_i sqrt M_i); pairs are
   (x_i * sqrt M_i, eta_i) - the square root is an input (np.sqrt is an oracle; the tie feeds
   perfect squares and multiplies in the same order as the code) *)
Definition mix_weighted (ue : list (Q * Q)) : Q :=
  qsum (map (fun p => fst p * snd p) ue) / qsum (map fst ue).

(* calculate_mass_fraction_from_molar_fraction; pairs are (molar fraction, molar mass) *)
Definition mass_from_molar (xm : list (Q * Q)) : list Q :=
  let s := qsum (map (fun p => fst p * snd p) xm) in map (fun p => fst p * snd p / s) xm.

(* the documented inverse (specification side; pandapipes has no function for it):
   pairs are (mass fraction, molar mass) *)
Definition molar_from_mass (wm : list (Q * Q)) : list Q :=
  let t := qsum (map (fun p => fst p / snd p) wm) in map (fun p => fst p / snd p / t) wm.

(* two-dimensional form (components x temperatures): the 1-D rule column by column *)
Definition columnwise {A} (rule : list A -> Q) (cols : list (list A)) : list Q := map rule cols.

(* ------------------------------------------------------------------ library data records *)
Record fluid_rec := {
  f_name : string; f_is_gas : bool;
  f_density : list knot; f_viscosity : list knot; f_heat_capacity : list knot;
  f_molar_mass : Q; f_der_compressibility : Q;
  f_compr_slope : Q; f_compr_offset : Q;
  f_lhv : option Q; f_hhv : option Q }.

Definition fluid_tables (f : fluid_rec) : list (list knot) :=
  [f_density f; f_viscosity f; f_heat_capacity f].

Record component_rec := {
  c_name : string; c_density : list knot; c_viscosity : list knot; c_heat_capacity : list knot;
  c_molar_mass : Q }.

Record pump_rec := { p_name : string; p_degree : nat; p_points : list knot }.

Record pipe_rec := {
  s_name : string; s_inner_diameter_mm : option Q; s_outer_diameter_mm : option Q;
  s_k_mm : option Q; s_u_w_per_m2k : option Q; s_u_w_per_mk : option Q }.

(* ------------------------------------------------------------------ create_pipe(std_type=...) *)
(* a library parameter by its column name *)
Definition std_field (key : string) (s : pipe_rec) : option Q :=
  if String.eqb key "inner_diameter_mm" then s_inner_diameter_mm s
  else if String.eqb key "outer_diameter_mm" then s_outer_diameter_mm s
  else if String.eqb key "k_mm" then s_k_mm s
  else if String.eqb key "u_w_per_m2k" then s_u_w_per_m2k s
  else if String.eqb key "u_w_per_mk" then s_u_w_per_mk s
  else None.

Inductive cell := CVal (v : option Q)    (* the library number, None = NaN / absent *)
                | CDerived               (* computed by retrieve_u from u_w_per_mk (involves pi): monitor only *)
                | CNotFromStdType.

(* create_pipe: pipe_parameter = retrieve_u(load_std_type(...)); v[col] = pipe_parameter[key] for the pairs
   of [mapping] (regenerated from create.py); retrieve_u only assigns the keys [writes] (regenerated) and
   derives u_w_per_m2k exactly when u_w_per_mk is given *)
Fixpoint assoc_str (k : string) (l : list (string * string)) : option string :=
  match l with [] => None | (a, b) :: r => if String.eqb k a then Some b else assoc_str k r end.

Definition created_cell (mapping : list (string * string)) (writes : list string) (udef : option Q)
                        (col : string) (s : pipe_rec) : cell :=
  match assoc_str col mapping with
  | None => CNotFromStdType
  | Some key =>
      if existsb (String.eqb key) writes then
        (if String.eqb key "u_w_per_m2k" then
           match s_u_w_per_mk s, s_u_w_per_m2k s with
           | Some _, _ => CDerived
           | None, Some v => CVal (Some v)
           | None, None => CVal udef          (* no heat transfer value in the library: retrieve_u's default *)
           end
         else CDerived)
      else CVal (std_field key s)
  end.

Definition std_columns : list string := ["inner_diameter_mm"; "outer_diameter_mm"; "k_mm"; "u_w_per_m2k"]%string.

Definition opt_q_eqb (a b : option Q) : bool :=
  match a, b with Some x, Some y => Qeq_bool x y | None, None => true | _, _ => false end.

Definition reaches_unchanged (mapping : list (string * string)) (writes : list string) (udef : option Q) (s : pipe_rec) : bool :=
  forallb (fun col => match created_cell mapping writes udef col s with
                      | CVal v => match std_field col s with
                                  | Some b => opt_q_eqb v (Some b)
                                  | None => String.eqb col "u_w_per_m2k" && opt_q_eqb v udef &&
                                            match s_u_w_per_mk s with None => true | Some _ => false end
                                  end
                      | CDerived => String.eqb col "u_w_per_m2k" &&
                                    match s_u_w_per_mk s, s_u_w_per_m2k s with Some _, None => true | _, _ => false end
                      | CNotFromStdType => false end) std_columns.

(* the created float cell is the double nearest to the decimal library number: |cell - lib| <= |lib| 2^-53 *)
Definition nearest_double_b (lib cellv : Q) : bool :=
  Qle_bool (Qabs (cellv - lib)) (Qabs lib * (1 # 9007199254740992)).
Definition cell_matches (c : cell) (observed : option Q) : bool :=
  match c, observed with
  | CVal (Some l), Some o => nearest_double_b l o
  | CVal None, None => true
  | CDerived, Some _ => true
  | _, _ => false
  end.

Fixpoint distinct_abscissae (ks : list knot) : bool :=
  match ks with
  | [] => true
  | p :: r => negb (existsb (fun q => Qeq_bool (fst p) (fst q)) r) && distinct_abscissae r
  end.

(* ------------------------------------------------------------------ comparison helpers (correspondence) *)
Fixpoint qlist_eqb (a b : list Q) : bool :=
  match a, b with
  | [], [] => true
  | x :: r, y :: s => Qeq_bool x y && qlist_eqb r s
  | _, _ => false
  end.

Definition result_eqb (a b : result) : bool :=
  match a, b with
  | RScalar x, RScalar y => Qeq_bool x y
  | RVec xs, RVec ys => qlist_eqb xs ys
  | RErr, RErr => true
  | _, _ => false
  end.

(* |model - observed| <= tol * (|model| + scale)   (monitors on decimal library data only) *)
Definition close_b (tol scale m o : Q) : bool := Qle_bool (Qabs (m - o)) (tol * (Qabs m + scale)).

Fixpoint qlist_close (tol scale : Q) (a b : list Q) : bool :=
  match a, b with
  | [], [] => true
  | x :: r, y :: s => close_b tol scale x y && qlist_close tol scale r s
  | _, _ => false
  end.

Definition result_close (tol scale : Q) (a b : result) : bool :=
  match a, b with
  | RScalar x, RScalar y => close_b tol scale x y
  | RVec xs, RVec ys => qlist_close tol scale xs ys
  | _, _ => false
  end.

(* (cases, mismatches, index of the first mismatch or -1) *)
Fixpoint summary_from (i : Z) (ok : list bool) (n m : nat) (first : Z) : nat * nat * Z :=
  match ok with
  | [] => (n, m, first)
  | b :: r => summary_from (i + 1)%Z r (S n) (if b then m else S m)
                (if b then first else if (first <? 0)%Z then i else first)
  end.
Definition summary (ok : list bool) : nat * nat * Z := summary_from 0%Z ok O O (-1)%Z.
Definition summary_exact (cs : list (result * result)) := summary (map (fun c => result_eqb (fst c) (snd c)) cs).
Definition summary_close (tol : Q) (cs : list (Q * (result * result))) :=
  summary (map (fun c => result_close tol (fst c) (fst (snd c)) (snd (snd c))) cs).
