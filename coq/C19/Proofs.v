(* C19 - proofs.  Q throughout (stdlib QArith + Lqa's lra/nra, ring, field). *)
From Coq Require Import String QArith Qminmax Qabs List Bool ZArith Lqa Lia.
From PP Require Import C19.Model Gen.KFluidFns C19.Classes Gen.FluidData Gen.StdTypeData.
Import ListNotations.
Open Scope Q_scope.

(* ------------------------------------------------------------------ booleans *)
Lemma Qlt_bool_iff a b : Qlt_bool a b = true <-> a < b.
Proof.
  unfold Qlt_bool. rewrite negb_true_iff. split; intro H.
  - apply Qnot_le_lt. intro L. apply Qle_bool_iff in L. congruence.
  - destruct (Qle_bool b a) eqn:E; auto. apply Qle_bool_iff in E. lra.
Qed.

Lemma Qle_bool_false a b : Qle_bool a b = false <-> b < a.
Proof.
  split; intro H.
  - apply Qnot_le_lt. intro L. apply Qle_bool_iff in L. congruence.
  - destruct (Qle_bool a b) eqn:E; auto. apply Qle_bool_iff in E. lra.
Qed.

(* ------------------------------------------------------------------ one segment *)
Lemma seg_compat p0 p1 x y : x == y -> seg p0 p1 x == seg p0 p1 y.
Proof. intro H. unfold seg. rewrite H. reflexivity. Qed.

Lemma seg_left p0 p1 : fst p0 < fst p1 -> seg p0 p1 (fst p0) == snd p0.
Proof. intro H. unfold seg. field. lra. Qed.

Lemma seg_right p0 p1 : fst p0 < fst p1 -> seg p0 p1 (fst p1) == snd p1.
Proof. intro H. unfold seg. field. lra. Qed.

(* a segment is an affine function: value = m * x + k *)
Lemma seg_affine p0 p1 : fst p0 < fst p1 ->
  exists m k, forall x, seg p0 p1 x == m * x + k.
Proof.
  intro H. exists ((snd p1 - snd p0) / (fst p1 - fst p0)).
  exists (snd p0 - (snd p1 - snd p0) / (fst p1 - fst p0) * fst p0).
  intro x. unfold seg. field. lra.
Qed.

Lemma seg_lipschitz p0 p1 x y : fst p0 < fst p1 ->
  seg p0 p1 x - seg p0 p1 y == (snd p1 - snd p0) / (fst p1 - fst p0) * (x - y).
Proof. intro H. unfold seg. field. lra. Qed.

(* ------------------------------------------------------------------ sortedness *)
Lemma inc_In x0 ks p : increasing_from x0 ks = true -> In p ks -> x0 < fst p.
Proof.
  revert x0. induction ks as [|a r IH]; simpl; intros x0 H HI; [contradiction|].
  apply andb_true_iff in H. destruct H as [H1 H2]. apply Qlt_bool_iff in H1.
  destruct HI as [->|HI]; auto. specialize (IH _ H2 HI). lra.
Qed.

Lemma inc_mid x0 pre p q post :
  increasing_from x0 (pre ++ p :: q :: post) = true -> fst p < fst q.
Proof.
  revert x0. induction pre as [|a r IH]; simpl; intros x0 H.
  - apply andb_true_iff in H. destruct H as [_ H]. apply andb_true_iff in H.
    destruct H as [H _]. now apply Qlt_bool_iff.
  - apply andb_true_iff in H. destruct H as [_ H]. eauto.
Qed.

Lemma si_cons p0 p1 r : strictly_increasing (p0 :: p1 :: r) = true ->
  fst p0 < fst p1 /\ increasing_from (fst p1) r = true.
Proof.
  simpl. intro H. apply andb_true_iff in H. destruct H as [H1 H2]. apply Qlt_bool_iff in H1. auto.
Qed.

Lemma si_consecutive pre p q post :
  strictly_increasing (pre ++ p :: q :: post) = true -> fst p < fst q.
Proof.
  destruct pre as [|a [|b r]]; intro H.
  - apply si_cons in H. tauto.
  - simpl in H. apply andb_true_iff in H. destruct H as [_ H]. apply andb_true_iff in H.
    destruct H as [H _]. now apply Qlt_bool_iff.
  - change ((a :: b :: r) ++ p :: q :: post) with (a :: b :: (r ++ p :: q :: post)) in H.
    apply si_cons in H. destruct H as [_ H]. eapply inc_mid. exact H.
Qed.

(* ------------------------------------------------------------------ interp_from *)
Lemma interp_from_first rest p0 p1 x :
  x <= fst p1 -> interp_from p0 p1 rest x == seg p0 p1 x.
Proof.
  intro H. destruct rest as [|p2 r]; simpl; [reflexivity|].
  apply Qle_bool_iff in H. rewrite H. reflexivity.
Qed.

Lemma interp_from_skip p0 p1 p2 r x :
  fst p1 < x -> interp_from p0 p1 (p2 :: r) x = interp_from p1 p2 r x.
Proof. intro H. simpl. apply Qle_bool_false in H. now rewrite H. Qed.

Lemma interp_from_between pre : forall p0 p1 rest p q post x,
  p0 :: p1 :: rest = pre ++ p :: q :: post ->
  fst p0 < fst p1 -> increasing_from (fst p1) rest = true ->
  fst p <= x -> x <= fst q -> interp_from p0 p1 rest x == seg p q x.
Proof.
  induction pre as [|a pre' IH]; intros p0 p1 rest p q post x E H01 Hinc Hl Hr.
  - simpl in E. injection E as -> -> ->. now apply interp_from_first.
  - simpl in E. injection E as -> E.
    destruct pre' as [|b pre''].
    + simpl in E. injection E as -> ->.
      assert (Hpq : fst p < fst q).
      { simpl in Hinc. apply andb_true_iff in Hinc. destruct Hinc as [H _]. now apply Qlt_bool_iff. }
      simpl. destruct (Qle_bool x (fst p)) eqn:Ex.
      * apply Qle_bool_iff in Ex. assert (Hx : x == fst p) by lra.
        rewrite (seg_compat a p _ _ Hx), (seg_compat p q _ _ Hx).
        rewrite seg_right by assumption. rewrite seg_left by assumption. reflexivity.
      * now apply interp_from_first.
    + simpl in E. injection E as -> ->.
      assert (Hp : fst b < fst p).
      { eapply inc_In. exact Hinc. apply in_or_app. right. now left. }
      destruct (pre'' ++ p :: q :: post) as [|p2 r] eqn:Er.
      { destruct pre''; discriminate. }
      rewrite interp_from_skip by lra.
      simpl in Hinc. apply andb_true_iff in Hinc. destruct Hinc as [H12 Hinc']. apply Qlt_bool_iff in H12.
      apply (IH b p2 r p q post x); auto.
      simpl. now rewrite Er.
Qed.

Lemma interp_from_last pre : forall p0 p1 rest p q x,
  p0 :: p1 :: rest = pre ++ [p; q] ->
  fst p0 < fst p1 -> increasing_from (fst p1) rest = true ->
  fst q <= x -> interp_from p0 p1 rest x == seg p q x.
Proof.
  induction pre as [|a pre' IH]; intros p0 p1 rest p q x E H01 Hinc Hx.
  - simpl in E. injection E as -> -> ->. simpl. reflexivity.
  - simpl in E. injection E as -> E.
    destruct rest as [|p2 r].
    { destruct pre' as [|? [|? ?]]; simpl in E; discriminate. }
    assert (Hq : fst p1 < fst q).
    { eapply inc_In. exact Hinc.
      destruct pre' as [|c pre'']; simpl in E.
      - injection E as _ <- _. now left.
      - injection E as _ E. rewrite E. apply in_or_app. right. simpl. auto. }
    rewrite interp_from_skip by lra.
    simpl in Hinc. apply andb_true_iff in Hinc. destruct Hinc as [H12 Hinc']. apply Qlt_bool_iff in H12.
    apply (IH p1 p2 r p q x); auto.
Qed.

(* ------------------------------------------------------------------ interpolation theorems *)
Lemma interp_hits_knots_lemma ks : strictly_increasing ks = true ->
  forall p, In p ks -> interp ks (fst p) == snd p.
Proof.
  intros Hs p Hin.
  destruct (in_split _ _ Hin) as [pre [post E]].
  destruct ks as [|p0 [|p1 r]]; try discriminate.
  destruct (si_cons _ _ _ Hs) as [H01 Hinc].
  destruct post as [|q post'].
  - (* p is the last knot: it is the right end of the last segment *)
    destruct pre as [|a pre'] using rev_ind.
    { simpl in E. discriminate. }
    clear IHpre'. rewrite <- app_assoc in E. simpl in E.
    assert (Hap : fst a < fst p) by (apply (si_consecutive pre' a p []); now rewrite <- E).
    simpl. rewrite (interp_from_last pre' p0 p1 r a p (fst p) E H01 Hinc) by lra.
    now apply seg_right.
  - assert (Hpq : fst p < fst q) by (apply (si_consecutive pre p q post'); now rewrite <- E).
    simpl. rewrite (interp_from_between pre p0 p1 r p q post' (fst p) E H01 Hinc) by lra.
    now apply seg_left.
Qed.

Lemma interp_affine_between_lemma ks pre p q post x :
  ks = pre ++ p :: q :: post -> strictly_increasing ks = true ->
  fst p <= x -> x <= fst q -> interp ks x == seg p q x.
Proof.
  intros E Hs Hl Hr.
  destruct ks as [|p0 [|p1 r]]; try discriminate.
  destruct (si_cons _ _ _ Hs) as [H01 Hinc].
  simpl. now apply (interp_from_between pre p0 p1 r p q post x).
Qed.

Lemma extrapolation_left_lemma p0 p1 r x :
  strictly_increasing (p0 :: p1 :: r) = true -> x <= fst p0 -> interp (p0 :: p1 :: r) x == seg p0 p1 x.
Proof.
  intros Hs Hx. destruct (si_cons _ _ _ Hs) as [H01 _].
  simpl. apply interp_from_first. lra.
Qed.

Lemma extrapolation_right_lemma ks pre p q x :
  ks = pre ++ [p; q] -> strictly_increasing ks = true -> fst q <= x -> interp ks x == seg p q x.
Proof.
  intros E Hs Hx.
  destruct ks as [|p0 [|p1 r]]; try (simpl in Hs; discriminate Hs).
  destruct (si_cons _ _ _ Hs) as [H01 Hinc].
  simpl. now apply (interp_from_last pre p0 p1 r p q x).
Qed.

Lemma interp_continuous_lemma ks pre p q r post :
  ks = pre ++ p :: q :: r :: post -> strictly_increasing ks = true ->
  seg p q (fst q) == snd q /\ seg q r (fst q) == snd q /\
  (forall x, fst p <= x -> x <= fst r ->
     interp ks x == if Qle_bool x (fst q) then seg p q x else seg q r x) /\
  (forall x y, seg p q x - seg p q y == (snd q - snd p) / (fst q - fst p) * (x - y)).
Proof.
  intros E Hs.
  assert (Hpq : fst p < fst q) by (apply (si_consecutive pre p q (r :: post)); now rewrite <- E).
  assert (Hqr : fst q < fst r).
  { apply (si_consecutive (pre ++ [p]) q r post). rewrite <- app_assoc. simpl. now rewrite <- E. }
  split; [now apply seg_right|]. split; [now apply seg_left|]. split.
  - intros x Hl Hr. destruct (Qle_bool x (fst q)) eqn:Ex.
    + apply Qle_bool_iff in Ex. now apply (interp_affine_between_lemma ks pre p q (r :: post) x).
    + apply Qle_bool_false in Ex.
      apply (interp_affine_between_lemma ks (pre ++ [p]) q r post x); auto; try lra.
      rewrite <- app_assoc. exact E.
  - intros x y. now apply seg_lipschitz.
Qed.

(* ------------------------------------------------------------------ shapes *)
Lemma shape_elementwise f q : shape_of_result (elementwise f q) = Some (shape_of_query q).
Proof. destruct q; simpl; auto. now rewrite map_length. Qed.

Lemma shape_constant v q : shape_of_result (constant_get v (Some q)) = Some (shape_of_query q).
Proof. destruct q; simpl; auto. now rewrite map_length. Qed.

Lemma masked_update_spec base mask value xs :
  masked_update base mask value xs = map (fun x => if mask x then value x else base) xs.
Proof.
  unfold masked_update. induction xs as [|x r IH]; simpl; auto.
  destruct (mask x); simpl; now rewrite IH.
Qed.

(* ------------------------------------------------------------------ integrals *)
Lemma constant_integral_laws v a b c :
  constant_integral v a b == - constant_integral v b a /\
  constant_integral v a b + constant_integral v b c == constant_integral v a c /\
  constant_integral v a b == v * (a - b).
Proof. unfold constant_integral. repeat split; ring. Qed.

Lemma linear_integral_laws o s a b c :
  linear_integral o s a b == - linear_integral o s b a /\
  linear_integral o s a b + linear_integral o s b c == linear_integral o s a c /\
  linear_integral o s a b == (linear_value o s a + linear_value o s b) / 2 * (a - b) /\
  linear_integral o s a b == linear_value o s ((a + b) / 2) * (a - b).
Proof. unfold linear_integral, linear_value. repeat split; field. Qed.

Lemma polynomial_integral_laws F a b c :
  polynomial_integral F a b == - polynomial_integral F b a /\
  polynomial_integral F a b + polynomial_integral F b c == polynomial_integral F a c.
Proof. unfold polynomial_integral. split; ring. Qed.

Lemma polyint_length cs : length (polyint cs) = S (length cs).
Proof. induction cs; simpl; auto. Qed.

Lemma inject_S_nonzero n : ~ inject_Z (Z.of_nat (S n)) == 0.
Proof. unfold Qeq. simpl. lia. Qed.

Lemma polyint_derivative cs : Forall2 Qeq (poly_deriv (polyint cs)) cs.
Proof.
  induction cs as [|c r IH]; [constructor|].
  change (polyint (c :: r)) with ((c / inject_Z (Z.of_nat (S (length r)))) :: polyint r).
  pose proof (polyint_length r) as L.
  destruct (polyint r) as [|d t] eqn:E; [discriminate|].
  change (poly_deriv (c / inject_Z (Z.of_nat (S (length r))) :: d :: t))
    with ((inject_Z (Z.of_nat (length (d :: t))) * (c / inject_Z (Z.of_nat (S (length r))))) :: poly_deriv (d :: t)).
  constructor; [|exact IH].
  rewrite L. pose proof (inject_S_nonzero (length r)) as NZ.
  revert NZ. generalize (inject_Z (Z.of_nat (S (length r)))). intros z NZ. field. exact NZ.
Qed.

(* ---- the interpolated property: integral = F(upper) - F(lower), F the exact antiderivative *)
Lemma interextra_integral_antisym_lemma F a b :
  interextra_integral F a b == - interextra_integral F b a.
Proof. unfold interextra_integral. ring. Qed.

Lemma interextra_integral_additive_lemma F a b c :
  interextra_integral F a b + interextra_integral F b c == interextra_integral F a c.
Proof. unfold interextra_integral. ring. Qed.

Lemma Qlt_bool_false a b : Qlt_bool a b = false <-> b <= a.
Proof.
  unfold Qlt_bool. rewrite negb_false_iff. apply Qle_bool_iff.
Qed.

(* the segment the antiderivative picks first *)
Lemma antideriv_from_first acc p0 p1 rest g x :
  x < fst p1 \/ rest = [] ->
  antideriv_from acc p0 p1 rest g x == acc + (g x + snd p0) / 2 * (x - fst p0).
Proof.
  intros [H| ->]; [|reflexivity].
  destruct rest as [|p2 r]; simpl; [reflexivity|].
  apply Qlt_bool_iff in H. rewrite H. reflexivity.
Qed.

Lemma antideriv_from_skip acc p0 p1 p2 r g x : fst p1 <= x ->
  antideriv_from acc p0 p1 (p2 :: r) g x =
  antideriv_from (acc + (snd p1 + snd p0) / 2 * (fst p1 - fst p0)) p1 p2 r g x.
Proof. intro H. simpl. apply Qlt_bool_false in H. now rewrite H. Qed.

(* x lies in the piece (p, q) of the table pre ++ p :: q :: post; the first piece extends to the left,
   the last one to the right *)
Definition in_piece (pre post : list knot) (p q : knot) (x : Q) : Prop :=
  (pre = [] \/ fst p <= x) /\ (post = [] \/ x <= fst q).

Definition hits (g : Q -> Q) (ks : list knot) : Prop := forall k x, In k ks -> x == fst k -> g x == snd k.

Lemma cum_before_cons a pre p : pre <> [] \/ True ->
  cum_before (a :: pre) p == (snd (hd p pre) + snd a) / 2 * (fst (hd p pre) - fst a) + cum_before pre p.
Proof.
  intros _. unfold cum_before. destruct pre as [|b r]; simpl.
  - ring.
  - reflexivity.
Qed.

Lemma antideriv_from_piece pre : forall p0 p1 rest p q post acc g x,
  p0 :: p1 :: rest = pre ++ p :: q :: post ->
  fst p0 < fst p1 -> increasing_from (fst p1) rest = true ->
  hits g (p0 :: p1 :: rest) -> in_piece pre post p q x ->
  antideriv_from acc p0 p1 rest g x == acc + cum_before pre p + (g x + snd p) / 2 * (x - fst p).
Proof.
  induction pre as [|a pre' IH]; intros p0 p1 rest p q post acc g x E H01 Hinc Hg [Hl Hr].
  - simpl in E. injection E as -> -> ->. unfold cum_before. simpl.
    destruct post as [|p2 r].
    + simpl. ring.
    + destruct Hr as [Hr|Hr]; [discriminate|].
      destruct (Qlt_le_dec x (fst q)) as [Hlt|Hge].
      * rewrite antideriv_from_first by (left; exact Hlt). ring.
      * assert (Hx : x == fst q) by lra.
        rewrite antideriv_from_skip by exact Hge.
        assert (Hq2 : fst q < fst p2).
        { simpl in Hinc. apply andb_true_iff in Hinc. destruct Hinc as [H _]. now apply Qlt_bool_iff. }
        rewrite antideriv_from_first by (left; lra).
        assert (G : g x == snd q) by (apply (Hg q x); [right; left; reflexivity | exact Hx]).
        rewrite G, Hx. field.
  - simpl in E. injection E as -> E.
    assert (Hp1 : fst p1 <= fst p).
    { destruct pre' as [|b pre'']; simpl in E.
      - injection E as -> _. lra.
      - injection E as -> E.
        assert (In p rest) by (rewrite E; apply in_or_app; right; now left).
        pose proof (inc_In _ _ _ Hinc H). lra. }
    destruct Hl as [Hl|Hl]; [discriminate|].
    destruct rest as [|p2 r].
    { destruct pre' as [|? [|? ?]]; simpl in E; discriminate. }
    rewrite antideriv_from_skip by lra.
    simpl in Hinc. apply andb_true_iff in Hinc. destruct Hinc as [H12 Hinc']. apply Qlt_bool_iff in H12.
    rewrite (IH p1 p2 r p q post _ g x E H12 Hinc').
    + assert (Hhd : hd p pre' = p1) by (destruct pre'; simpl in E; injection E; intros; subst; reflexivity).
      assert (C : cum_before (a :: pre') p == (snd p1 + snd a) / 2 * (fst p1 - fst a) + cum_before pre' p).
      { clear - E. destruct pre' as [|b pre'']; simpl in E.
        - injection E as -> _. unfold cum_before. simpl. ring.
        - injection E as -> _. unfold cum_before. simpl. reflexivity. }
      rewrite C. ring.
    + intros k y Hk Hy. apply (Hg k y); [right; exact Hk | exact Hy].
    + split; [right; exact Hl | exact Hr].
Qed.

(* interp is a morphism for == and hits its knots up to == *)
Lemma interp_from_compat rest : forall p0 p1 x y, x == y -> interp_from p0 p1 rest x == interp_from p0 p1 rest y.
Proof.
  induction rest as [|p2 r IH]; intros p0 p1 x y H; simpl.
  - now apply seg_compat.
  - rewrite H. destruct (Qle_bool y (fst p1)); [now apply seg_compat | now apply IH].
Qed.

Lemma interp_hits ks : strictly_increasing ks = true -> hits (interp ks) ks.
Proof.
  intros Hs k x Hk Hx.
  assert (E : interp ks x == interp ks (fst k)).
  { destruct ks as [|p0 [|p1 r]]; try discriminate. simpl. now apply interp_from_compat. }
  rewrite E. now apply interp_hits_knots_lemma.
Qed.

(* on its piece the table function is the affine function through the two knots *)
Lemma interp_on_piece ks pre p q post x :
  ks = pre ++ p :: q :: post -> strictly_increasing ks = true -> in_piece pre post p q x ->
  interp ks x == seg p q x.
Proof.
  intros E Hs [Hl Hr].
  destruct Hl as [->|Hl].
  - simpl in E. subst ks. destruct Hr as [->|Hr]; [reflexivity|].
    simpl. now apply interp_from_first.
  - destruct Hr as [->|Hr].
    + destruct (Qlt_le_dec x (fst q)) as [Hlt|Hge].
      * apply (interp_affine_between_lemma ks pre p q [] x); auto. lra.
      * now apply (extrapolation_right_lemma ks pre p q x).
    + now apply (interp_affine_between_lemma ks pre p q post x).
Qed.

Lemma antideriv_on_piece ks pre p q post x :
  ks = pre ++ p :: q :: post -> strictly_increasing ks = true -> in_piece pre post p q x ->
  interextra_antiderivative ks x == cum_before pre p + (seg p q x + snd p) / 2 * (x - fst p).
Proof.
  intros E Hs Hp. unfold interextra_antiderivative.
  pose proof (interp_on_piece ks pre p q post x E Hs Hp) as G.
  destruct ks as [|p0 [|p1 r]]; try discriminate.
  destruct (si_cons _ _ _ Hs) as [H01 Hinc].
  unfold antideriv.
  rewrite (antideriv_from_piece pre p0 p1 r p q post 0 (interp (p0 :: p1 :: r)) x E H01 Hinc
             (interp_hits _ Hs) Hp).
  rewrite G. ring.
Qed.

(* consistent with the property values: between two limits of one piece (incl. the extrapolated ends) the
   integral is the exact integral of the affine piece = trapezoid of the property values at the limits *)
Lemma interextra_integral_piece_lemma ks pre p q post a b :
  ks = pre ++ p :: q :: post -> strictly_increasing ks = true ->
  in_piece pre post p q a -> in_piece pre post p q b ->
  interextra_integral (interextra_antiderivative ks) a b
  == (interextra_getter ks a + interextra_getter ks b) / 2 * (a - b).
Proof.
  intros E Hs Ha Hb.
  assert (Hpq : fst p < fst q) by (apply (si_consecutive pre p q post); now rewrite <- E).
  unfold interextra_integral, interextra_getter.
  rewrite (antideriv_on_piece ks pre p q post a E Hs Ha), (antideriv_on_piece ks pre p q post b E Hs Hb).
  rewrite (interp_on_piece ks pre p q post a E Hs Ha), (interp_on_piece ks pre p q post b E Hs Hb).
  unfold seg. field. lra.
Qed.

(* the antiderivative is 0 at the first knot and grows by one trapezoid per segment *)
Lemma antideriv_at_knot ks pre p q post :
  ks = pre ++ p :: q :: post -> strictly_increasing ks = true ->
  interextra_antiderivative ks (fst p) == cum_before pre p /\
  interextra_antiderivative ks (fst q) == cum_before pre p + (snd q + snd p) / 2 * (fst q - fst p).
Proof.
  intros E Hs.
  assert (Hpq : fst p < fst q) by (apply (si_consecutive pre p q post); now rewrite <- E).
  split.
  - rewrite (antideriv_on_piece ks pre p q post (fst p) E Hs).
    + rewrite seg_left by exact Hpq. ring.
    + split; [right; lra | right; lra].
  - rewrite (antideriv_on_piece ks pre p q post (fst q) E Hs).
    + rewrite seg_right by exact Hpq. ring.
    + split; [right; lra | right; lra].
Qed.

(* ------------------------------------------------------------------ mixtures *)
Lemma qsum_cons a l : qsum (a :: l) = a + qsum l.
Proof. reflexivity. Qed.

Lemma qsum_scaled (f : Q * Q -> Q) s l : ~ s == 0 ->
  qsum (map (fun p => f p / s) l) == qsum (map f l) / s.
Proof.
  intro Hs. induction l as [|a r IH].
  - simpl. field. exact Hs.
  - simpl map. rewrite !qsum_cons, IH. field. exact Hs.
Qed.

Lemma mass_fractions_sum_to_one_lemma xm :
  ~ qsum (map (fun p => fst p * snd p) xm) == 0 -> qsum (mass_from_molar xm) == 1.
Proof.
  intro Hs. unfold mass_from_molar.
  rewrite (qsum_scaled (fun p => fst p * snd p) _ xm Hs). field. exact Hs.
Qed.

(* sum over the round trip: sum_i (x_i M_i / s) / M_i = (sum_i x_i) / s *)
Lemma qsum_roundtrip s l : ~ s == 0 -> Forall (fun p => ~ snd p == 0) l ->
  qsum (map (fun p => fst p / snd p) (combine (map (fun p => fst p * snd p / s) l) (map snd l)))
  == qsum (map fst l) / s.
Proof.
  intros Hs Hm. induction Hm as [|a r Ha Hr IH].
  - simpl. field. exact Hs.
  - simpl map. simpl combine. simpl map. rewrite !qsum_cons, IH. simpl fst. simpl snd. field. split; assumption.
Qed.

Lemma roundtrip_elements s t l : ~ s == 0 -> t * s == 1 -> Forall (fun p => ~ snd p == 0) l ->
  Forall2 Qeq (map (fun p => fst p / snd p / t) (combine (map (fun p => fst p * snd p / s) l) (map snd l)))
              (map fst l).
Proof.
  intros Hs Hts Hm.
  assert (Ht : ~ t == 0). { intro T. rewrite T in Hts. lra. }
  induction Hm as [|a r Ha Hr IH]; simpl; constructor; auto.
  setoid_replace (fst a * snd a / s / snd a / t) with (fst a / (t * s)) by (field; repeat split; assumption).
  rewrite Hts. field.
Qed.

Lemma mass_molar_inverse_lemma xm :
  Forall (fun p => ~ snd p == 0) xm -> ~ qsum (map (fun p => fst p * snd p) xm) == 0 ->
  qsum (map fst xm) == 1 ->
  Forall2 Qeq (molar_from_mass (combine (mass_from_molar xm) (map snd xm))) (map fst xm).
Proof.
  intros Hm Hs H1. unfold molar_from_mass, mass_from_molar.
  apply roundtrip_elements; auto.
  rewrite (qsum_roundtrip _ xm Hs Hm), H1. field. exact Hs.
Qed.

(* the two forms of calculate_mixture_molar_mass agree on corresponding fractions *)
Lemma molar_mass_forms_agree_lemma xm :
  Forall (fun p => ~ snd p == 0) xm -> ~ qsum (map (fun p => fst p * snd p) xm) == 0 ->
  qsum (map fst xm) == 1 ->
  mix_harmonic (combine (mass_from_molar xm) (map snd xm)) == mix_arith xm.
Proof.
  intros Hm Hs H1. unfold mix_harmonic, mix_arith, mass_from_molar.
  rewrite (qsum_roundtrip _ xm Hs Hm), H1. field; repeat split; (exact Hs || lra).
Qed.

Definition fractions_ok (l : list (Q * Q)) : Prop := Forall (fun p => 0 <= fst p) l.
Definition values_within (lo hi : Q) (l : list (Q * Q)) : Prop := Forall (fun p => lo <= snd p /\ snd p <= hi) l.

Lemma weighted_sum_bounds lo hi l : fractions_ok l -> values_within lo hi l ->
  lo * qsum (map fst l) <= qsum (map (fun p => fst p * snd p) l) /\
  qsum (map (fun p => fst p * snd p) l) <= hi * qsum (map fst l).
Proof.
  intros Hf Hv. induction l as [|a r IH].
  - simpl. lra.
  - inversion Hf as [|? ? Ha Hr]; inversion Hv as [|? ? [Hl Hh] Hvr]; subst.
    destruct (IH Hr Hvr) as [I1 I2]. simpl map. rewrite !qsum_cons.
    split; nra.
Qed.

Lemma mix_arith_bounds_lemma lo hi l : fractions_ok l -> values_within lo hi l ->
  qsum (map fst l) == 1 -> lo <= mix_arith l /\ mix_arith l <= hi.
Proof.
  intros Hf Hv H1. destruct (weighted_sum_bounds lo hi l Hf Hv) as [A B].
  rewrite H1 in A, B. unfold mix_arith. lra.
Qed.

Lemma div_le_div w a b : 0 <= w -> 0 < a -> a <= b -> w / b <= w / a.
Proof.
  intros Hw Ha Hab. apply Qle_shift_div_r; [lra|].
  setoid_replace (w / a * b) with (w * b / a) by (field; lra).
  apply Qle_shift_div_l; [lra|]. nra.
Qed.

Lemma harmonic_sum_bounds lo hi l : 0 < lo -> fractions_ok l -> values_within lo hi l ->
  qsum (map fst l) / hi <= qsum (map (fun p => fst p / snd p) l) /\
  qsum (map (fun p => fst p / snd p) l) <= qsum (map fst l) / lo.
Proof.
  intros Hlo Hf Hv. induction l as [|a r IH].
  - simpl. split; unfold Qdiv; lra.
  - inversion Hf as [|? ? Ha Hr]; inversion Hv as [|? ? [Hl Hh] Hvr]; subst.
    destruct (IH Hr Hvr) as [I1 I2]. simpl map. rewrite !qsum_cons.
    assert (hi_pos : 0 < hi) by lra.
    pose proof (div_le_div (fst a) (snd a) hi Ha ltac:(lra) Hh) as D1.
    pose proof (div_le_div (fst a) lo (snd a) Ha Hlo Hl) as D2.
    split.
    + setoid_replace ((fst a + qsum (map fst r)) / hi) with (fst a / hi + qsum (map fst r) / hi) by (field; lra). lra.
    + setoid_replace ((fst a + qsum (map fst r)) / lo) with (fst a / lo + qsum (map fst r) / lo) by (field; lra). lra.
Qed.

Lemma mix_harmonic_bounds_lemma lo hi l : 0 < lo -> fractions_ok l -> values_within lo hi l ->
  qsum (map fst l) == 1 -> lo <= mix_harmonic l /\ mix_harmonic l <= hi.
Proof.
  intros Hlo Hf Hv H1. destruct (harmonic_sum_bounds lo hi l Hlo Hf Hv) as [A B].
  rewrite H1 in A, B. unfold mix_harmonic.
  set (S := qsum (map (fun p => fst p / snd p) l)) in *.
  assert (hi_pos : 0 < hi).
  { destruct l as [|a r]; [simpl in H1; lra|]. inversion Hv as [|? ? [Hl Hh] _]; subst. lra. }
  assert (A' : 1 <= hi * S).
  { apply Qle_shift_div_r in A; [lra|exact hi_pos] || idtac.
    setoid_replace (hi * S) with (S * hi) by ring.
    apply (Qmult_le_r _ _ hi hi_pos) in A.
    setoid_replace (1 / hi * hi) with 1 in A by (field; lra). exact A. }
  assert (B' : lo * S <= 1).
  { apply (Qmult_le_r _ _ lo Hlo) in B.
    setoid_replace (1 / lo * lo) with 1 in B by (field; lra). lra. }
  assert (Spos : 0 < S) by nra.
  split.
  - apply Qle_shift_div_l; [exact Spos|lra].
  - apply Qle_shift_div_r; [exact Spos|lra].
Qed.

Lemma mix_weighted_bounds_lemma lo hi l : fractions_ok l -> values_within lo hi l ->
  0 < qsum (map fst l) -> lo <= mix_weighted l /\ mix_weighted l <= hi.
Proof.
  intros Hf Hv Hp. destruct (weighted_sum_bounds lo hi l Hf Hv) as [A B]. unfold mix_weighted.
  split.
  - apply Qle_shift_div_l; [exact Hp|lra].
  - apply Qle_shift_div_r; [exact Hp|lra].
Qed.

(* ------------------------------------------------------------------ pump curve *)
Lemma pump_nonneg_lemma reg v : 0 <= pump_scalar reg v.
Proof. unfold pump_scalar. destruct (Qlt_bool v 0); [lra|apply Q.le_max_l]. Qed.

Lemma pump_reverse_lemma reg v : v < 0 -> pump_scalar reg v == 0.
Proof. intro H. unfold pump_scalar. apply Qlt_bool_iff in H. rewrite H. reflexivity. Qed.

Lemma pump_poly_lemma reg v : 0 <= v -> 0 <= poly_desc reg (v * 3600) ->
  pump_scalar reg v == poly_desc reg (v * 3600).
Proof.
  intros Hv Hp. unfold pump_scalar.
  destruct (Qlt_bool v 0) eqn:E; [apply Qlt_bool_iff in E; lra|]. now apply Q.max_r.
Qed.

Lemma pump_array_lemma reg vs : Forall2 Qeq (pump_array reg vs) (map (pump_scalar reg) vs).
Proof.
  unfold pump_array. rewrite masked_update_spec.
  induction vs as [|v r IH]; simpl; constructor; auto.
  unfold pump_array_mask, pump_array_value, pump_array_base, pump_scalar, Qlt_bool.
  destruct (Qle_bool 0 v); simpl; reflexivity.
Qed.

Lemma pump_array_length reg vs : length (pump_array reg vs) = length vs.
Proof. unfold pump_array. rewrite masked_update_spec. apply map_length. Qed.

(* powers-then-sum (pump) and Horner (poly1d) are the same polynomial *)
Lemma horner_acc cs x y : fold_left (fun y c => y * x + c) cs y == y * qpow x (length cs) + poly_desc cs x.
Proof.
  revert y. induction cs as [|c r IH]; intro y; simpl.
  - ring.
  - rewrite IH. ring.
Qed.

Lemma horner_is_poly cs x : poly_horner cs x == poly_desc cs x.
Proof. unfold poly_horner. rewrite horner_acc. ring. Qed.

(* ------------------------------------------------------------------ facts about the generated library data *)
Definition table_ok (t : list knot) : bool := strictly_increasing t.

Definition fluid_ok (f : fluid_rec) : bool :=
  forallb table_ok (fluid_tables f) && Qlt_bool 0 (f_molar_mass f) &&
  match f_hhv f with Some h => Qlt_bool 0 h | None => true end &&
  match f_lhv f, f_hhv f with Some l, Some h => Qlt_bool 0 l && Qle_bool l h | Some _, None => false | _, _ => true end.

Definition component_ok (c : component_rec) : bool :=
  table_ok (c_density c) && table_ok (c_viscosity c) && table_ok (c_heat_capacity c) && Qlt_bool 0 (c_molar_mass c).

Lemma library_ok : forallb fluid_ok fluid_library = true /\ forallb component_ok component_library = true.
Proof. split; vm_compute; reflexivity. Qed.

Lemma fluid_ok_of f : In f fluid_library -> fluid_ok f = true.
Proof. intro H. exact (proj1 (forallb_forall _ _) (proj1 library_ok) f H). Qed.

Lemma library_tables_increasing_lemma f t :
  In f fluid_library -> In t (fluid_tables f) -> strictly_increasing t = true.
Proof.
  intros Hf Ht. pose proof (fluid_ok_of f Hf) as H. unfold fluid_ok in H.
  do 3 (apply andb_true_iff in H; destruct H as [H ?]).
  exact (proj1 (forallb_forall _ _) H t Ht).
Qed.

(* slope of compressibility.txt = der_compressibility.txt for every library fluid *)
Definition compr_consistent (f : fluid_rec) : bool := Qeq_bool (f_compr_slope f) (f_der_compressibility f).

Lemma library_compressibility_lemma f :
  In f fluid_library -> f_compr_slope f == f_der_compressibility f.
Proof.
  intros Hf.
  assert (H : forallb compr_consistent fluid_library = true) by (vm_compute; reflexivity).
  pose proof (proj1 (forallb_forall _ _) H f Hf) as H1. now apply Qeq_bool_iff.
Qed.

Lemma library_hhv_lemma f h : In f fluid_library -> f_hhv f = Some h -> 0 < h.
Proof.
  intros Hf Hh. pose proof (fluid_ok_of f Hf) as H. unfold fluid_ok in H.
  do 3 (apply andb_true_iff in H; destruct H as [H ?]).
  rewrite Hh in *. now apply Qlt_bool_iff.
Qed.

Definition pump_ok (p : pump_rec) : bool :=
  distinct_abscissae (p_points p) && Nat.ltb (p_degree p) (length (p_points p)).
Definition pipe_ok (s : pipe_rec) : bool :=
  match s_inner_diameter_mm s with
  | Some d => Qlt_bool 0 d && match s_outer_diameter_mm s with Some o => Qle_bool d o | None => true end
  | None => false end &&
  match s_k_mm s with Some k => Qle_bool 0 k | None => true end.

Lemma stdtype_library_ok : forallb pump_ok pump_library = true /\ forallb pipe_ok pipe_library = true.
Proof. split; vm_compute; reflexivity. Qed.

(* ------------------------------------------------------------------ create_pipe(std_type) copies the library parameters *)
Lemma std_types_reach_pipes_lemma :
  forallb (reaches_unchanged create_pipe_std_columns retrieve_u_writes retrieve_u_default) pipe_library = true.
Proof. vm_compute. reflexivity. Qed.


(* ------------------------------------------------------------------ Sutherland and polynomial values *)
Lemma sutherland_reference_lemma pow15 eta0 t0 ts :
  pow15 (t0 / t0) == 1 -> ~ t0 + ts == 0 ->
  sutherland_value pow15 eta0 t0 ts t0 == eta0.
Proof.
  intros Hp Hs. unfold sutherland_value. rewrite Hp. field. intro H. apply Hs. rewrite <- H. ring.
Qed.

Lemma sutherland_formula_lemma pow15 eta0 t0 ts x :
  sutherland_value pow15 eta0 t0 ts x == eta0 * (t0 + ts) / (ts + x) * pow15 (x / t0).
Proof. unfold sutherland_value. reflexivity. Qed.

Lemma polynomial_value_lemma cs x :
  polynomial_value (fst (polynomial_getters cs)) x == poly_desc cs x.
Proof. unfold polynomial_value, polynomial_getters. simpl. apply horner_is_poly. Qed.

(* ------------------------------------------------------------------ loaded data = nearest doubles of the text *)
Fixpoint table_loaded_ok (lib obs : list knot) : bool :=
  match lib, obs with
  | [], [] => true
  | k :: r, o :: s => nearest_double_b (fst k) (fst o) && nearest_double_b (snd k) (snd o) && table_loaded_ok r s
  | _, _ => false
  end.
