"""Regenerate every coq/Gen/*.v from the current sources of the tree under test.
Each property module tools/props/cXX.py may define  GEN = [(gen_file_name, zero-arg callable -> Coq text)]."""
import importlib
import os
import sys

sys.path.insert(0, os.path.dirname(os.path.abspath(__file__)))
import vlib  # noqa: E402


def generators():
    out, seen = [], set()
    pdir = os.path.join(os.path.dirname(os.path.abspath(__file__)), "props")
    for f in sorted(os.listdir(pdir)):
        if f.startswith("c") and f.endswith(".py"):
            try:
                mod = importlib.import_module("props." + f[:-3])
            except Exception as e:
                print("gen: cannot import props.%s: %r" % (f[:-3], e))
                continue
            for name, fn in getattr(mod, "GEN", []):
                if name not in seen:
                    seen.add(name)
                    out.append((name, fn))
    return out


def main():
    rc = 0
    for name, fn in generators():
        try:
            ch = vlib.write_if_changed(os.path.join(vlib.COQ, "Gen", name + ".v"), fn())
            print("gen %-20s %s" % (name, "updated" if ch else "unchanged"))
        except Exception as e:
            print("gen %-20s FAILED: %r" % (name, e))
            rc = 1
    return rc


if __name__ == "__main__":
    sys.exit(main())
