"""Regenerate every coq/Gen/*.v from /repo's current sources (used by setup and by each check)."""
import importlib
import os
import sys

sys.path.insert(0, os.path.dirname(os.path.abspath(__file__)))
import vlib  # noqa: E402

# (Gen file name, module under tools/translate, function returning the Coq text)
GENERATORS = [
    ("OptDefaults", "translate.options", lambda m: m.generate()[0]),
]


def main():
    rc = 0
    for name, modname, fn in GENERATORS:
        try:
            mod = importlib.import_module(modname)
            text = fn(mod)
            ch = vlib.write_if_changed(os.path.join(vlib.COQ, "Gen", name + ".v"), text)
            print("gen %-20s %s" % (name, "updated" if ch else "unchanged"))
        except Exception as e:
            print("gen %-20s FAILED: %r" % (name, e))
            rc = 1
    return rc


if __name__ == "__main__":
    sys.exit(main())
