#!/bin/sh
# (re)generate coq/_CoqProject + Makefile, then make the given targets
cd "$(dirname "$0")/.." && /venv/bin/python -c "
import sys; sys.path.insert(0,'tools'); import vlib; vlib.ensure_makefile()" && cd coq && exec timeout ${MK_TIMEOUT:-1500} make -j12 "$@"
