"""C06 - results do not depend on labels, row order or creation order (DESIGN.md 4/C06).

H-tie (exact, compared inside Coq):
  * create_lookups of real nets (all label modes)            vs  C06.Model.create_lookups
  * _sum_by_group (numba on/off, all dispatch outcomes)       vs  sbg model and its specification, at Z
  * extract_branch_results_with_internals on real nets with   vs  C06.ModelExtract.extract (placement of
    integer-valued branch results                                  from/to values, section means, t_outlet)
  * structural pit columns of real nets under relabelling     vs  relabel-invariance as proved
Monitors (real pipeflow, search for a concrete failing net): relabel / row-permute / re-create and compare
all res_* joined on element identity.
"""
import copy
import json
import os
import sys

import numpy as np

sys.path.insert(0, os.path.dirname(os.path.dirname(os.path.abspath(__file__))))
from vlib import cz, cbool, clist  # noqa: E402
from harness import gen, drive  # noqa: E402
from harness import c0406_common as cm  # noqa: E402
from harness import c06_extract as cx  # noqa: E402
from harness import c06_monitors as mon  # noqa: E402

CLAIM = {
    "text": "16 theorems (coq/C06/Props.v), all closed under the global context, about executable Coq models of the "
            "label- and order-dependent code, for any number of rows and any duplicate-free non-negative labels: index "
            "lookups are exact and independent of the label values; get_internal_lookup_structure; grouped sums - numpy "
            "path in its reduceat form for whatever order argsort returns, numba bucket path, the 1e5 dispatch - equal "
            "the per-key-sum specification in every commutative ring; a relabelled net has the same FROM/TO pit columns "
            "(np.insert chaining over sections included); extract_branch_results_with_internals writes to the row of "
            "the element itself: end values, the outlet section in flow direction (t_outlet_k), section means and the "
            "section SUM of dp_frict_loss (final column content, at Z); set_fixed_node_entries = 'row r holds the mean of "
            "the set-points given for its own label' as an equality of lists; a permuted junction table moves every "
            "junction's pit position with it, and a linear system renumbered by a bijection has exactly the renumbered "
            "solutions. Each model is tied to /repo by an exact correspondence evaluated inside Coq (real functions on "
            "real nets / integer data, fixed corpora first); relabel / permute / re-create / bulk-re-create monitors on "
            "real pipeflow runs search for failing nets.",
    "note": "No axioms. PARTIAL: row-permutation and creation-order invariance of the numerical results - proved are the "
            "position transport (row_permutation_positions) and the transport of solutions "
            "(row_permutation_equivariance_partial); that the assembled system of the permuted net IS the transported "
            "system is the named missing hypothesis (assembly model lives in C01), and creation order = row order is "
            "not a theorem (C16 NetDB not connected); both are monitored (1e-9 relative / 1e-8 absolute after a re-run "
            "at round-off Newton tolerances; lambda / reynolds not compared on no-flow rows). Z-level theorems use "
            "Z.div (exact for the divisible integer data of the correspondences); NaN bookkeeping of the grouped sums "
            "and float rounding are outside the models (a float-level label-independence monitor covers the latter). "
            "Oracles: np.argsort (any valid order), np.add.reduceat (segment sums), pandas row order, numba codegen.",
    "technique": "Coq proof over hand-written executable models + exact model/implementation correspondence inside Coq "
                 "+ monitors",
    "design": "DESIGN.md 4/C06 + design_notes/C06.md",
}
GEN = []

HDR = ("From Coq Require Import ZArith List Bool.\nFrom PP Require Import C06.Model.\n"
       "Import ListNotations.\nOpen Scope Z_scope.\n")


# ------------------------------------------------------------------------------------------ _sum_by_group
def gen_sbg_cases(ctx):
    rng = ctx.rng
    n_cases = 200 if ctx.quick else 6000
    cases = []
    # fixed corpus, always first: both sides of the 1e5 switch, sparse large keys (numba falls back to numpy), keys that
    # differ by one, float / int32 keys, the empty and the single key, a "ones" column
    for keys in ([100007, 3, 100007], [262108, 1087861, 1087861, 1087861], [5, 6, 5, 7, 6, 6], [99999, 100000, 100001, 99999],
                 [0], [], [3, 3, 3], [40, 0, 20, 40, 0], [2000000, 1999999, 0, 2000000], list(range(12, 0, -1)),
                 [100000 + 7 * i for i in (3, 1, 2, 1, 3)], [7, 3, 3, 3, 5, 5]):
        for use_numba in (False, True):
            for kdt in ("int64", "float64", "int32"):
                n = len(keys)
                cases.append({"keys": list(keys), "cols": [[3 * i - 7 for i in range(n)], [1] * n, [(-2) ** (i % 5) for i in range(n)]],
                              "kdtype": kdt, "use_numba": use_numba, "regime": "corpus"})
    for c in range(n_cases):
        regime = rng.choice(["small", "small", "mid_bucket", "mid_np", "large", "large_mixed", "empty", "single"])
        n = rng.randint(1, 40)
        if regime == "small":
            keys = [rng.randint(0, max(1, n)) for _ in range(n)]
        elif regime == "mid_bucket":        # 2n <= max < 10n
            keys = [rng.randint(0, 9 * n) for _ in range(n)]
        elif regime == "mid_np":            # max >= 10 n, < 1e5
            keys = [rng.randint(0, 3000) for _ in range(n)] + [rng.randint(10 * n + 10, 99999)]
        elif regime == "large":             # max >= 1e5
            pool = [rng.randint(100000, 2000000) for _ in range(max(1, n // 3))]
            keys = [rng.choice(pool) for _ in range(n)]
        elif regime == "large_mixed":
            pool = [rng.randint(0, 50) for _ in range(3)] + [rng.randint(99990, 100010) for _ in range(3)]
            keys = [rng.choice(pool) for _ in range(n)]
        elif regime == "empty":
            keys = []
        else:
            keys = [rng.choice([0, 5, 99999, 100000, 100001])]
        if rng.random() < 0.3:
            keys = sorted(keys)
        n = len(keys)
        ncols = rng.randint(1, 4)
        cols = [[rng.randint(-1000, 1000) for _ in range(n)] for _ in range(ncols)]
        if rng.random() < 0.5 and ncols >= 2:
            cols[1] = [1] * n                       # the "ones" column the callers use for counting
        kdt = rng.choice(["int64", "int32", "float64"])
        use_numba = rng.random() < 0.5
        cases.append({"keys": keys, "cols": cols, "kdtype": kdt, "use_numba": use_numba, "regime": regime})
    return cases


def run_sbg(case):
    from pandapipes.pf.internals_toolbox import _sum_by_group
    keys = np.array(case["keys"], dtype=case["kdtype"])
    cols = [np.array(c, dtype=np.float64) if i != 1 else np.array(c, dtype=np.int32)
            for i, c in enumerate(case["cols"])]
    res = _sum_by_group(case["use_numba"], keys, *cols)
    return cm.as_int_list(res[0], "keys"), [cm.as_int_list(r, "sums") for r in res[1:]]


def sbg_path(case):
    keys = case["keys"]
    if not case["use_numba"] or not keys:
        return "np" if not case["use_numba"] else "numba-empty"
    mx, n = max(keys), len(keys)
    return "bucket" if ((mx < 1e5 or mx < 2 * n) and mx < 10 * n) else "numba->np"


def corr_sbg(ctx, pool):
    cases = gen_sbg_cases(ctx)
    outs = []
    for c in cases:
        try:
            outs.append(run_sbg(c))
        except Exception as e:  # noqa: BLE001
            outs.append(None)
            ctx.violation({"fn": "_sum_by_group", "path": sbg_path(c), "exception": type(e).__name__},
                          "_sum_by_group raised %r on keys=%r" % (e, c["keys"][:20]), c)
        ctx.count("sbg_" + sbg_path(c))
        ctx.case({"sbg": c["keys"], "cols": c["cols"], "numba": c["use_numba"], "dt": c["kdtype"]},
                 len(set(c["keys"])) < len(c["keys"]) and c["keys"] != sorted(c["keys"]))
    size = 400
    idx = [i for i, o in enumerate(outs) if o is not None]
    jobs = []
    for s in range(0, len(idx), size):
        chunk = idx[s:s + size]
        body = []
        for i in chunk:
            c, (ok, oc) = cases[i], outs[i]
            body.append("{| sc_numba := %s; sc_keys := %s; sc_cols := %s; sc_out_keys := %s; sc_out_cols := %s |}"
                        % (cbool(c["use_numba"]), cm.zl(c["keys"]), cm.zll(c["cols"]), cm.zl(ok), cm.zll(oc)))
        txt = HDR + "Definition cs : list sbg_case := [\n%s\n].\nEval vm_compute in (summary sbg_case_ok cs).\n" \
            % ";\n".join(body)
        jobs.append((chunk, pool.submit(ctx.coq_counts_gated, txt, "sbg_%d" % (s // size))))

    def finish():
        n_tot = n_mis = 0
        for chunk, fut in jobs:
            trip, out = fut.result()
            if not trip:
                ctx.broken("correspondence", "sbg model vs _sum_by_group (coqc failed)", out[-800:])
                return
            n, m, first = trip[0]
            n_tot += n
            n_mis += m
            if m:
                c = cases[chunk[first]]
                exp = spec_sbg(c)
                ctx.violation({"fn": "_sum_by_group", "path": sbg_path(c)},
                              "_sum_by_group(use_numba=%s) on keys %r gives %r, per-key sums are %r"
                              % (c["use_numba"], c["keys"], outs[chunk[first]], exp),
                              {"case": c, "observed": outs[chunk[first]], "expected": exp})
        ctx.corr("C06.Model.sbg == sbg_spec == internals_toolbox._sum_by_group (Z-exact, numba on/off, "
                 "bucket / np dispatch on both sides of 1e5)", n_tot, n_mis)
    return finish


def spec_sbg(c):
    ks = sorted(set(c["keys"]))
    return ks, [[sum(v for k, v in zip(c["keys"], col) if k == kk) for kk in ks] for col in c["cols"]]


def monitor_sbg_float(ctx):
    """float-level label independence of the grouped sums (the exact correspondences are at Z): the sum reported for
    an element must not depend on where its label sorts.  Witness shape: a stagnant section (lambda = 64/Re ~ 1e9)
    next to ordinary ones."""
    from pandapipes.pf.internals_toolbox import _sum_by_group
    rng = ctx.rng
    trials = [([1e9, 0.0220566848], [1, 1])]
    for _ in range(20 if ctx.quick else 400):
        n = rng.randint(2, 6)
        vals = [rng.choice([1.0, 1e3, 1e9, 3e-2]) * rng.uniform(0.5, 1.5) for _ in range(n)]
        trials.append((vals, [1] * n))
    for vals, secs in trials:
        n = len(vals)
        base = list(range(n))
        perm = list(base)
        rng.shuffle(perm)
        if vals == trials[0][0]:
            perm = base[::-1]
        out = {}
        for name, labels in (("a", base), ("b", perm)):
            keys = np.array([float(l) for l, s in zip(labels, secs) for _ in range(s)])
            v = np.array([x for x, s in zip(vals, secs) for _ in range(s)], dtype=np.float64)
            for use_numba in (False,):
                ks, sums = _sum_by_group(use_numba, keys.copy(), v.copy())
                out[name] = {labels.index(int(k)): float(x) for k, x in zip(ks, sums)}     # element -> sum
        ctx.case({"sbg_float": vals, "perm": perm}, perm != base)
        worst = max(abs(out["a"][e] - out["b"][e]) / max(abs(out["a"][e]), 1e-300) for e in range(n))
        if worst > 1e-10:
            e = max(range(n), key=lambda e: abs(out["a"][e] - out["b"][e]) / max(abs(out["a"][e]), 1e-300))
            ctx.violation({"fn": "_sum_by_group", "cause": "cumsum_cancellation"},
                          "_sum_by_group_np: the sum of the element with value %r is %r under labels %r and %r under "
                          "labels %r (relative difference %.2e); values %r"
                          % (vals[e], out["a"][e], base, out["b"][e], perm, worst, vals),
                          {"case": {"values": vals, "labels_a": base, "labels_b": perm}, "kind": "sbg_float"})
            return


# ------------------------------------------------------------------------------------------ create_lookups
def gen_nets(ctx, n, profiles=("water", "gas", "heat"), **kw):
    rng = ctx.rng
    out = []
    for i in range(n):
        prof = profiles[i % len(profiles)]
        mode = ["contig", "shuffled", "sparse", "large"][(i // len(profiles)) % 4]
        out.append(gen.gen_net(rng, prof, label_mode=mode, **kw))
    return out


def corr_lookups(ctx, pool):
    specs = gen_nets(ctx, 36 if ctx.quick else 600)
    body, kept = [], []
    for sp in specs:
        try:
            net = gen.build(sp)
            body.append(cm.lookups_case(net))
            kept.append(sp)
            st = drive.psetup()
            st.init_all_result_tables(net)
            st.initialize_pit(net)
            bad = mon.pi_valve_structure(net)
            if bad:
                ctx.violation({"fn": "Valve.create_pit_branch_entries", "what": "pi_valve_attachment"}, bad,
                              {"kind": "pi_family", "net": sp, "options": {"use_numba": False}})
        except Exception as e:  # noqa: BLE001
            ctx.broken("correspondence", "create_lookups harness", repr(e))
            return lambda: None
        d = gen.describe(sp)
        ctx.count("lookups_" + ("contig" if d["contiguous"] else "noncontig"))
        ctx.case({"lookups": sp}, (not d["contiguous"]) and d["multi_section"] > 0)
    size = 60
    jobs = []
    for s in range(0, len(body), size):
        txt = HDR + "Definition cs : list lk_case := [\n%s\n].\nEval vm_compute in (summary lk_case_ok cs).\n" \
            % ";\n".join(body[s:s + size])
        jobs.append((s, pool.submit(ctx.coq_counts_gated, txt, "lk_%d" % (s // size))))

    def finish():
        n_tot = n_mis = 0
        for s, fut in jobs:
            trip, out = fut.result()
            if not trip:
                ctx.broken("correspondence", "create_lookups model (coqc failed)", out[-800:])
                return
            n, m, first = trip[0]
            n_tot += n
            n_mis += m
            if m:
                sp = kept[s + first]
                what = mon.lookup_property_check(gen.build(sp))
                if what:
                    ctx.violation({"fn": "create_lookups", "what": what[0]}, what[1], {"net": sp})
                else:
                    ctx.broken("correspondence", "create_lookups model vs net._lookups",
                               "model and implementation differ on a net whose lookups still satisfy lookup_correct: %s"
                               % json.dumps(sp)[:600])
        ctx.corr("C06.Model.create_lookups == pipeflow_setup.create_lookups (from_to, index, internal "
                 "structures, lengths) on generated nets", n_tot, n_mis)
    return finish


# ------------------------------------------------------------------------------------------ run
def run(ctx):
    ctx.extra["rule"] = ("grouped sums: seeded key arrays in 8 regimes (small / 2n..10n / >=10n / >=1e5 / around 1e5 / "
                         "empty / single), 1-4 integer value columns, key dtypes int32/int64/float64, numba on/off; "
                         "non-trivial = unsorted with duplicate keys. Nets: tools/harness/gen.py, profiles water/gas/"
                         "heat x label modes contig/shuffled/sparse/large; non-trivial = non-contiguous labels and a "
                         "multi-section pipe. Monitors: non-trivial = relabelling is not the identity / permutation "
                         "moves a row")
    import time
    from concurrent.futures import ThreadPoolExecutor
    tm = [time.time()]
    # the theorems are built (always completely) in a worker thread while the cases are generated; the generated
    # cases files are evaluated by coqc - after the build has finished - in worker threads while the monitors run;
    # all random choices are drawn in this (main) thread, in a fixed order
    with ThreadPoolExecutor(max_workers=5) as pool:
        build = pool.submit(ctx.prove, "C06")

        def gated(txt, name):
            build.result()
            return ctx.coq_counts(txt, name)
        ctx.coq_counts_gated = gated
        tm.append(time.time())
        fins = [corr_sbg(ctx, pool), corr_lookups(ctx, pool), cx.corr_extract(ctx, pool), cx.corr_pit_relabel(ctx, pool),
                cx.corr_fixed(ctx, pool)]
        tm.append(time.time())
        mon.monitor_corpus(ctx)
        monitor_sbg_float(ctx)
        mon.monitor_pi_valve_family(ctx)
        mon.monitor_t_outlet_witness(ctx)
        mon.monitors(ctx)
        tm.append(time.time())
        proved = build.result()
        for f in fins:
            f()
    tm.append(time.time())
    ctx.extra["timing_s"] = dict(zip(["start", "generate_cases", "monitors", "wait_for_build_and_coq"],
                                     [round(b - a, 1) for a, b in zip(tm, tm[1:])]))
    if (not proved or ctx.brokens) and not ctx.violations:
        mon.monitors(ctx, widen=True)


def replay(ctx, path):
    obj = json.load(open(path))
    rp = obj.get("replay", {})
    if rp.get("kind") == "extract":
        import random
        hits = 0
        for k in range(30):
            cs = cx.extract_case(random.Random(k), rp["net"]) or []
            for _, bad, info in cs:
                if bad:
                    hits += 1
                    col, got, exp = bad
                    ctx.violation({"fn": "extract_branch_results_with_internals", "column": col},
                                  "res_pipe.%s after extraction is %r; every row's own section value gives %r "
                                  "(labels %r, sections %r)" % (col, got, exp, info["labels"], info["sections"]),
                                  {"kind": "extract", "net": rp["net"], "info": info})
        print("replay extract: %d misplaced columns in 30 re-runs with fresh integer results" % hits)
    elif "keys" in rp.get("case", rp):
        rp = {"case": rp.get("case", rp)}
        out = run_sbg(rp["case"])
        exp = spec_sbg(rp["case"])
        print("replay _sum_by_group: observed %r expected %r" % (out, exp))
        if (list(out[0]), [list(c) for c in out[1]]) != (list(exp[0]), [list(c) for c in exp[1]]):
            ctx.violation({"fn": "_sum_by_group", "path": sbg_path(rp["case"])}, "per-key sums differ", rp)
    else:
        mon.replay(ctx, rp)
