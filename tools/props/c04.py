"""C04 - exactly the supplied part of the network is calculated, unaffected by the rest (DESIGN.md 4/C04).

H-tie (exact, compared inside Coq, coq/C04/Model.v):
  real pit columns FROM_NODE/TO_NODE/ACTIVE/DIRECTED/FLOW_RETURN_CONNECT/NODE_TYPE(_T) of real nets under all 2^k
  in_service/opened/control_active patterns -> identify_active_nodes_branches (hydraulic + heat-transfer masks or
  PipeflowNotConverged), reduce_pit (active from/to, ELEMENT_IDX), reduce_lookups/copy_lookups (index_active,
  from_to_active).
Monitors (real pipeflow): NaN pattern of res_* vs masks; supplied part vs physically deleted net; no supply raises.
"""
import copy
import itertools
import json
import os
import sys

import numpy as np

sys.path.insert(0, os.path.dirname(os.path.dirname(os.path.abspath(__file__))))
from harness import gen, drive  # noqa: E402
from harness import c0406_common as cm  # noqa: E402
from harness import c04_cases as cc  # noqa: E402
from harness import c04_monitors as mon  # noqa: E402

CLAIM = {
    "text": "17 theorems (coq/C04/Props.v), all closed under the global context, for any number of nodes, any branch "
            "list and any flag pattern: the connectivity search marks a node iff it is reachable (inductive definition: "
            "in-service pressure-fixed start nodes; in-service non flow-return-connect branches, directed ones only "
            "from -> to), branch marks incl. the flow-return-connect post-pass, the internal consistency error is "
            "unreachable, the thermal search likewise; the identification fails iff nothing is supplied (empty net "
            "included); cumsum(mask)-1 is a strictly increasing bijection of the marked positions onto [0,k) that keeps "
            "every row; index_active and from_to_active lookups; the np.all shortcut equals the general path; every "
            "kept branch keeps both ends inside the active node pit; for a junction table with any number of "
            "one-section branch tables the reduced branch pit IS the pit of the net with the unmarked rows deleted; "
            "write-back leaves NaN exactly at unmarked positions; _restart_connectivity_check is idempotent. The models "
            "take DIRECTED / FLOW_RETURN_CONNECT from the documented element kinds, and are tied to /repo by exact "
            "correspondences inside Coq on a fixed corpus plus generated nets under all 2^k in_service / opened / "
            "control_active patterns (masks or failure, thermal masks, reduced FROM/TO, ELEMENT_IDX, *_index_active, "
            "*_from_to_active, restart).",
    "note": "No axioms. PARTIAL: reduce_eq_delete is a theorem for one-section branch tables and the structural columns; "
            "for multi-section pipes, pi valves (internal / valve nodes) and the physical columns 'unaffected by the "
            "rest' rests on the exhaustive correspondence of the reduced FROM/TO and on the deleted-net monitor (1e-10, "
            "second pass 1e-6 / 1e-8 at round-off Newton tolerances; skipped for closed pi valves on kept pipes and "
            "zero-flow pumps). Termination of the restart loop depends on the components and is not claimed. "
            "csgraph.breadth_first_order is modelled as the least fixpoint (oracle, exercised by every case). Monitors: "
            "masks vs reachability, NaN pattern of every res_* table, sole-link matrix (every branch kind, both "
            "orientations), switched-off supplies next to live ones, no supply => PipeflowNotConverged, any other "
            "exception on a valid net. Latent and unobservable: copy_lookups stores the branch from_to as "
            "node_from_to_active; branch_index_active of multi-section tables differs between the two reduce paths.",
    "technique": "Coq proof over hand-written executable models + exhaustive flag-pattern correspondence inside Coq + "
                 "monitors",
    "design": "DESIGN.md 4/C04 + design_notes/C04.md",
}
GEN = []

HDR = ("From Coq Require Import ZArith List Bool.\nFrom PP Require Import C06.Model C04.Model.\n"
       "Import ListNotations.\n")


def base_specs(ctx, n):
    rng = ctx.rng
    out = []
    for i in range(n):
        prof = ["water", "heat", "gas", "water"][i % 4]
        feats = {"island": rng.random() < 0.6, "pi_valve": rng.random() < 0.5, "oos_junction": rng.random() < 0.3}
        sp = gen.gen_net(rng, prof, label_mode=rng.choice(["contig", "shuffled", "sparse", "large"]),
                         features=feats if prof != "heat" else None)
        if prof != "heat" and rng.random() < 0.6:
            mon.add_pressure_control(rng, sp)
        if rng.random() < 0.3:
            mon.add_heat_consumer_bridge(rng, sp)
        if prof != "heat":
            mon.add_sole_link(rng, sp)          # every kind as the only link, both orientations, over the base nets
        if prof == "heat" or rng.random() < 0.5:
            mon.add_oos_supplies(rng, sp)       # switched-off pumps / ext grids next to live ones (flags enumerated)
        out.append(sp)
    return out


def choose_flags(rng, net, k):
    flags = cm.flag_columns(net)
    # prefer branch / supply flags; keep at most two junction flags
    jf = [f for f in flags if f[0] == "junction"]
    of = [f for f in flags if f[0] != "junction"]
    rng.shuffle(jf)
    rng.shuffle(of)
    sel = (of[:max(0, k - 2)] + jf[:2])[:k]
    if len(sel) < k:
        sel += [f for f in of[max(0, k - 2):] + jf[2:]][:k - len(sel)]
    return sel


def corr_patterns(ctx):
    rng = ctx.rng
    n_base = 3 if ctx.quick else 12
    k = 5 if ctx.quick else 10
    # (the machines_* corpus nets differ from the others only in physical parameters: monitors only)
    specs = [(sp, fl) for nm, sp, fl, _ in mon.corpus() if not nm.startswith("machines")] + \
        [(sp, None) for sp in base_specs(ctx, n_base)]
    conn, heat, red, meta, meta_red, rst = [], [], [], [], [], []
    for sp, fixed_flags in specs:
        net = gen.build(sp)
        # corpus nets: the flags that matter are enumerated (the first k of a fixed list); generated nets: a seeded choice
        flags = fixed_flags[:k] if fixed_flags else choose_flags(rng, net, k)
        base_bits = [bool(net[t].at[i, c]) for t, c, i in flags]
        for bits in itertools.product([False, True], repeat=len(flags)):
            cc.apply_flags(net, flags, bits)
            try:
                txt, info, obs = cc.conn_case(net, check=True)
            except Exception as e:  # noqa: BLE001
                # the set-up stages of pipeflow on a valid net must not raise (only identify may, handled above)
                ctx.violation({"monitor": "exception", "exception": type(e).__name__, "stage": "setup"},
                              "create_lookups / initialize_pit on a valid net raises %r" % (e,),
                              {"kind": "connectivity", "net": sp, "flags": [list(f) for f in flags],
                               "bits": [int(b) for b in bits]})
                continue
            conn.append(txt)
            meta.append((sp, flags, bits))
            nontrivial = (not info["failed"]) and info["unsupplied_nodes"] > 0
            ctx.case({"pattern": [list(f) for f in flags], "bits": [int(b) for b in bits], "net": gen.spec_key(sp)[:60],
                      "info": info}, nontrivial,
                     key="pat:%s:%s" % (hash(gen.spec_key(sp)), bits))
            ctx.count("patterns_failed" if info["failed"] else
                      "patterns_all_supplied" if info["unsupplied_nodes"] == 0 else "patterns_partly_supplied")
            if info["frc"]:
                ctx.count("patterns_with_flow_return_connect")
            if info["directed"]:
                ctx.count("patterns_with_directed_branch")
            if not info["flags_as_documented"]:
                ctx.count("patterns_pit_flags_not_as_documented")
            if obs is not None:
                heat.append(cc.heat_case(net))
                red.append(cc.red_case(net, "hydraulics"))
                meta_red.append((sp, flags, bits))
                if "node_active_heat_transfer" in net["_lookups"]:
                    red.append(cc.red_case(net, "heat_transfer"))
                    meta_red.append((sp, flags, bits))
                if rng.random() < (0.25 if ctx.quick else 0.05):
                    net["_lookups"].pop("node_active_heat_transfer", None)
                    cc.red_case(net, "hydraulics")           # the state _restart_connectivity_check starts from
                    rc = cc.restart_case(net, rng)
                    if rc:
                        rst.append(rc)
        cc.apply_flags(net, flags, base_bits)
        # the path without connectivity check
        txt, info, obs = cc.conn_case(net, check=False)
        conn.append(txt)
        meta.append((sp, flags, tuple(base_bits)))
    ctx.extra["exhaustive"] = True
    ctx.extra["exhaustive_note"] = ("all 2^k patterns of k=%d chosen flags per base net (%d base nets); the base nets "
                                    "themselves are a seeded sample" % (k, n_base))
    run_cases(ctx, "conn_case", "conn_case_ok", conn, "C04.Model.identify_hyd == identify_active_nodes_branches "
              "(hydraulic masks / PipeflowNotConverged), all 2^k flag patterns", meta, 150)
    run_cases(ctx, "heat_case", "heat_case_ok", heat, "C04.Model.identify_heat == identify_active_nodes_branches"
              "(hydraulic=False)", None, 150)
    run_cases(ctx, "red_case", "red_case_ok", red, "C04.Model.reduce_ft / reduce_index_lookups / reduce_from_to == "
              "reduce_pit, reduce_lookups, copy_lookups (active from/to, ELEMENT_IDX, index_active, from_to_active)",
              meta_red, 60, classify=mon.classify_red_mismatch)
    run_cases(ctx, "rs_case", "rs_case_ok", rst, "C04.Model.restart_check == pipeflow._restart_connectivity_check "
              "(flag, written-back ACTIVE columns, re-reduced ACTIVE columns)", None, 100)


def run_cases(ctx, typ, okfn, body, name, meta, size, classify=None):
    """evaluate the chunks with a few coqc processes in parallel"""
    from concurrent.futures import ThreadPoolExecutor
    n_tot = n_mis = 0
    jobs = []
    for s in range(0, len(body), size):
        txt = HDR + "Definition cs : list %s := [\n%s\n].\nEval vm_compute in (summary %s cs).\n" \
            % (typ, ";\n".join(body[s:s + size]), okfn)
        jobs.append((s, txt, "%s_%d" % (typ, s // size)))
    with ThreadPoolExecutor(max_workers=6) as ex:
        results = list(ex.map(lambda j: ctx.coq_counts(j[1], j[2]), jobs))
    for (s, _, _), (trip, out) in zip(jobs, results):
        if not trip:
            ctx.broken("correspondence", name + " (coqc failed)", out[-800:])
            return
        n, m, first = trip[0]
        n_tot += n
        n_mis += m
        if m:
            if meta:
                sp, flags, bits = meta[s + first]
                found = (classify or mon.classify_conn_mismatch)(ctx, sp, flags, bits)
                if not found:
                    ctx.broken("correspondence", name, "model and implementation differ on flags %r bits %r of net %s, "
                               "but the implementation agrees with the property-level oracle"
                               % (flags, bits, json.dumps(sp)[:500]))
            else:
                ctx.broken("correspondence", name, "case %d of chunk starting at %d differs" % (first, s))
    ctx.corr(name, n_tot, n_mis)


def run(ctx):
    ctx.extra["rule"] = ("base nets: tools/harness/gen.py (water / gas / heat loops, islands, pi valves, out-of-service "
                         "junctions) plus a pressure control (DIRECTED branch) and a heat-consumer bridge "
                         "(FLOW_RETURN_CONNECT) added by the check; per base net all 2^k patterns of k chosen "
                         "in_service / opened / control_active flags; distinct = (net, pattern); non-trivial = the run "
                         "does not fail and at least one node is unsupplied. Monitors: non-trivial = something is "
                         "unsupplied or out of service")
    import time
    t0 = time.time()
    proved = ctx.prove("C04")
    t1 = time.time()
    corr_patterns(ctx)
    t2 = time.time()
    mon.monitors(ctx)
    ctx.extra["timing_s"] = {"prove": round(t1 - t0, 1), "correspondence": round(t2 - t1, 1),
                             "monitors": round(time.time() - t2, 1)}
    if (not proved or ctx.brokens) and not ctx.violations:
        mon.monitors(ctx, widen=True)


def replay(ctx, path):
    obj = json.load(open(path))
    mon.replay(ctx, obj.get("replay", {}))
