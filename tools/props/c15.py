"""C15 - saving and loading a network loses nothing (DESIGN.md 4/C15).

Proof : coq/C15 - the pandapipes LAYER of the codec (net dict with signature, `_` keys dropped, fluid with its
        property objects incl. the interpolator's field renaming, std types, component list) over an abstract
        leaf codec (Section variables lenc / ldec / quant with the law ldec (lenc v) = Some (quant v)).
T-tie : Gen/CodecFacts.v regenerated from io_utils.py / fluids.py / convert_format.py: the key filter of
        json_net, prop_getter_entries and json_excludes of FluidPropertyInterExtra, the registry class names,
        the property classes that define / inherit to_dict + from_dict.
Tie / monitor (differential - most of the assurance): generated and hand-made nets with every component
        type, empty tables, NaN / None cells, sparse unsorted labels, custom columns, custom fluids with each
        property class, pump types from parameters, results present / absent, controllers, multinets; four
        storage paths; exact comparison (floats after 15-significant-digit quantisation for JSON, bit-exact
        for pickle), byte-identical re-save, pipeflow of the loaded net.
"""
import copy
import io
import json
import math
import os
import sys

sys.path.insert(0, os.path.dirname(os.path.dirname(os.path.abspath(__file__))))
from vlib import cstr, cz, cbool, clist  # noqa: E402
from translate import codecfacts as tcf  # noqa: E402

CLAIM = {
    "text": "Theorems for ALL documents about an executable Coq model of the layer pandapipes adds to pandapower's JSON / "
            "pickle machinery: decode (encode d) = the document without its `_` keys, every leaf replaced by its quantised "
            "value, nothing else changed, never failing (tables, fluid with all five property classes incl. the extra stored "
            "fields of the interpolated and the polynomial class and the fill-rule codec, std types, component classes, scalars; "
            "key order kept); the exact-codec instance (pickle: quant = identity); multi-energy nets (member pandapipes nets "
            "through this layer, member pandapower nets and the controller table as leaves, member names / order kept); saving "
            "a loaded document reproduces the same document; a second round trip is a fixpoint; convert_format incl. its "
            "sector / default-component prelude is the identity on a current-format document of every sector and idempotent. "
            "Facts the model relies on (key filters, prop_getter_entries, polynomial coefficients field, fill-value None codec, "
            "which classes override to_dict, registry names, sector guard, convert_format prelude) are regenerated from the source "
            "on every run and decided by seven computed theorems.",
    "note": "All 23 theorems closed under the global context. The leaf codec (pandapower PPJSONEncoder / Decoder for DataFrames, "
            "arrays, numbers, strings, controller objects, pandapower nets; pickle) is a PARAMETER of every theorem with the laws "
            "ldec (lenc v) = Some (quant v), lenc (quant v) = lenc v, quant idempotent as explicit hypotheses - it is exercised, "
            "not proved, by the differential tie: 40+ net kinds (every component type and sector, odd dtypes, custom / library-"
            "named fluids, pump types of degree 1-4, controllers, multinet, results) x 8 storage paths (JSON string, convert=True, "
            "file, file object, encrypted string / file / file object, pickle), exact comparison (JSON floats up to 15 decimal "
            "places, pickle bit-exact), byte-identical re-save, pipeflow of the loaded net on every path. Not covered: "
            "to_json(sort_keys=True), multinet pickle (not offered), old-format multinets.",
    "technique": "Coq proof over hand-written codec-layer model + facts generated from the AST + differential round-trip on "
                 "eight storage paths",
    "design": "DESIGN.md 4/C15 + design_notes/C15.md",
}
GEN = [("CodecFacts", lambda: tcf.generate()[0])]


def q15(x):
    return float("%.15g" % x)


class QF(float):
    """a float compared up to the precision pandapower's JSON encoding keeps (pandas `double_precision=15`:
    15 decimal places, at most 15-16 significant digits): |a - b| <= 1e-15 * max(1, |a|).  Pickle compares exactly."""
    def __eq__(self, other):
        if isinstance(other, float):
            a, b = float(self), float(other)
            return a == b or abs(a - b) <= 1e-15 * max(1.0, abs(a), abs(b))
        return NotImplemented

    def __ne__(self, other):
        r = self.__eq__(other)
        return r if r is NotImplemented else not r

    __hash__ = float.__hash__


def canon_cell(v, quant):
    import numpy as np
    if v is None:
        return None
    if isinstance(v, (bool, np.bool_)):
        return ("b", bool(v))
    if isinstance(v, (int, np.integer)):
        return ("i", int(v))
    if isinstance(v, (float, np.floating)):
        f = float(v)
        if math.isnan(f):
            return ("nan",)
        if math.isinf(f):
            return ("inf", f > 0)
        return ("f", QF(f) if quant else f)
    if isinstance(v, str):
        return ("s", v)
    if isinstance(v, (list, tuple, np.ndarray)):
        return ("l", [canon_cell(x, quant) for x in (v.tolist() if isinstance(v, np.ndarray) else v)])
    if isinstance(v, dict):
        return ("d", sorted((str(k), canon_cell(x, quant)) for k, x in v.items()))
    return ("o", type(v).__name__)


def canon_table(df, quant):
    """quant (JSON): floats up to the stored precision; in object columns NaN and None are the same `missing`
    (JSON has one null) - the pattern of missing cells is compared exactly"""
    obj = [str(d) == "object" for d in df.dtypes.tolist()]

    def cell(x, is_obj):
        c = canon_cell(x, quant)
        return None if (quant and is_obj and c == ("nan",)) else c
    return {"index": [canon_cell(i, False) for i in df.index.tolist()], "index_dtype": str(df.index.dtype),
            "columns": [str(c) for c in df.columns], "dtypes": [str(d) for d in df.dtypes.tolist()],
            "cells": [[cell(x, o) for x, o in zip(row, obj)] for row in df.values.tolist()]}


def fluid_view(fl, quant):
    import numpy as np
    if fl is None:
        return None
    out = {"name": fl.name, "fluid_type": fl.fluid_type, "is_gas": fl.is_gas, "props": []}
    grid = np.array([253.15, 273.15, 288.15, 293.15, 300.0, 333.3, 373.15, 420.0])
    for k, p in fl.all_properties.items():
        vals = []
        for t in grid:
            try:
                vals.append(float(np.asarray(p.get_at_value(t)).ravel()[0]))
            except Exception as e:  # noqa: BLE001
                vals.append(type(e).__name__)
        out["props"].append((k, type(p).__name__, vals))
    return out


def close(a, b, rtol):
    if isinstance(a, str) or isinstance(b, str):
        return a == b
    if math.isnan(a) or math.isnan(b):
        return math.isnan(a) and math.isnan(b)
    return a == b or abs(a - b) <= rtol * max(abs(a), abs(b))


def std_view(st, quant):
    out = {}
    for tab, d in (st or {}).items():
        out[tab] = {}
        for k, v in d.items():
            if isinstance(v, dict):
                out[tab][k] = ("dict", sorted((kk, canon_cell(vv, quant)) for kk, vv in v.items()))
            else:
                attrs = sorted((a, canon_cell(x, quant)) for a, x in v.__dict__.items() if not callable(x))
                curve = None
                if hasattr(v, "get_pressure"):
                    try:
                        curve = [canon_cell(float(v.get_pressure(q / 3600.0)), quant) for q in (0.0, 5.0, 20.0, 45.0, 70.0, 90.0)]
                    except Exception as e:  # noqa: BLE001
                        curve = type(e).__name__
                out[tab][k] = (type(v).__name__, attrs, curve)
    return out


def is_pipes_net(n):
    from pandapipes.pandapipes_net import pandapipesNet
    return isinstance(n, pandapipesNet)


def compare_nets(orig, loaded, quant, where=""):
    """list of (signature, what) differences; orig / loaded are pandapipesNet, pandapowerNet or MultiNet"""
    import pandas as pd
    diffs = []
    ko = [k for k in orig.keys() if not k.startswith("_")]
    kl = [k for k in loaded.keys() if not k.startswith("_")]
    if sorted(ko) != sorted(kl):
        diffs.append(({"clause": "key_set", "keys": ",".join(sorted(set(ko) ^ set(kl)))[:80]},
                      "%skeys differ: only in original %s, only in loaded %s" % (where, sorted(set(ko) - set(kl)), sorted(set(kl) - set(ko)))))
    und = [k for k in loaded.keys() if k.startswith("_") and k not in ("_empty_res_bus",) and not hasattr(type(loaded), k)]
    for k in ko:
        if k not in loaded:
            continue
        a, b = orig[k], loaded[k]
        if isinstance(a, pd.DataFrame):
            if not isinstance(b, pd.DataFrame):
                diffs.append(({"clause": "table", "table": k, "what": "type"}, "%s%s is %s after loading" % (where, k, type(b).__name__)))
                continue
            ca, cb = canon_table(a, quant), canon_table(b, quant)
            for part in ("columns", "dtypes", "index_dtype", "index", "cells"):
                if ca[part] != cb[part]:
                    detail = ""
                    if part == "dtypes":
                        detail = str([(c, x, y) for c, x, y in zip(ca["columns"], ca[part], cb[part]) if x != y][:3])
                    elif part == "cells":
                        for lab, r1, r2 in zip(ca["index"], ca["cells"], cb["cells"]):
                            bad = [(c, x, y) for c, x, y in zip(ca["columns"], r1, r2) if x != y]
                            if bad:
                                detail = "row %s: %s" % (lab, bad[:2])
                                break
                    else:
                        detail = "%r vs %r" % (ca[part] if part != "index" else ca[part][:6], cb[part] if part != "index" else cb[part][:6])
                    cols = ""
                    if part == "cells":
                        cols = ",".join(sorted({c for r1, r2 in zip(ca["cells"], cb["cells"]) for c, x, y in zip(ca["columns"], r1, r2) if x != y}))
                    diffs.append(({"clause": "table", "table": k if not k.startswith("res_") else "res_*", "what": part,
                                   "empty": len(a) == 0, "columns": cols},
                                  "%stable %s: %s differ after loading: %s" % (where, k, part, detail[:300])))
                    break
        elif k == "fluid":
            fa, fb = fluid_view(a, quant), fluid_view(b, quant)
            if (fa is None) != (fb is None):
                diffs.append(({"clause": "fluid", "what": "presence"}, "%sfluid %r -> %r" % (where, fa, fb)))
            elif fa is not None:
                if (fa["name"], fa["fluid_type"], fa["is_gas"]) != (fb["name"], fb["fluid_type"], fb["is_gas"]):
                    diffs.append(({"clause": "fluid", "what": "header"}, "%sfluid header differs" % where))
                if [(p[0], p[1]) for p in fa["props"]] != [(p[0], p[1]) for p in fb["props"]]:
                    diffs.append(({"clause": "fluid", "what": "property_classes"},
                                  "%sfluid properties %s -> %s" % (where, [(p[0], p[1]) for p in fa["props"]], [(p[0], p[1]) for p in fb["props"]])))
                else:
                    for (n, c, va), (_, _, vb) in zip(fa["props"], fb["props"]):
                        if not all(close(x, y, 1e-13 if quant else 0.0) for x, y in zip(va, vb)):
                            diffs.append(({"clause": "fluid", "what": "evaluation", "property_class": c},
                                          "%sfluid property %s (%s) evaluates differently after loading: %s vs %s" % (where, n, c, va, vb)))
        elif k == "std_types":
            if std_view(a, quant) != std_view(b, quant):
                sa, sb = std_view(a, quant), std_view(b, quant)
                bad = [(t, n) for t in set(sa) | set(sb) for n in set(sa.get(t, {})) | set(sb.get(t, {}))
                       if sa.get(t, {}).get(n) != sb.get(t, {}).get(n)]
                diffs.append(({"clause": "std_types", "table": bad[0][0] if bad else "?"}, "%sstd types differ after loading: %s" % (where, bad[:3])))
        elif k == "component_list":
            if [c.__name__ for c in a] != [getattr(c, "__name__", repr(c)) for c in b] or not all(x is y for x, y in zip(a, b)):
                diffs.append(({"clause": "component_list"}, "%scomponent_list differs after loading: %s vs %s" % (where, a, b)))
        elif k == "nets" and isinstance(a, dict):
            if list(a.keys()) != list(b.keys()):
                diffs.append(({"clause": "multinet", "what": "net names"}, "%snets %s -> %s" % (where, list(a), list(b))))
            for name in a:
                if name in b:
                    if type(a[name]) is not type(b[name]):
                        diffs.append(({"clause": "multinet", "what": "net class"}, "%snet %s is a %s after loading" % (where, name, type(b[name]).__name__)))
                    else:
                        diffs += compare_nets(a[name], b[name], quant, where + "nets[%s]." % name)
        elif isinstance(a, dict):
            if canon_cell(a, quant) != canon_cell(b, quant):
                diffs.append(({"clause": "dict_entry", "key": k}, "%s%s: %r -> %r" % (where, k, a, b)))
        else:
            if a == b and isinstance(a, type(b)) and type(a) is not type(b):
                continue          # e.g. Sector (a StrEnum) loads as the equal plain str
            if type(a) is not type(b) or (canon_cell(a, quant) != canon_cell(b, quant)):
                diffs.append(({"clause": "scalar", "key": k}, "%s%s: %r (%s) -> %r (%s)" % (where, k, a, type(a).__name__, b, type(b).__name__)))
    # controller objects
    if "controller" in ko and "controller" in loaded and len(orig["controller"]):
        for (i, ra), (_, rb) in zip(orig["controller"].iterrows(), loaded["controller"].iterrows()):
            oa, ob = ra["object"], rb["object"]
            if type(oa) is not type(ob):
                diffs.append(({"clause": "controller", "what": "class"}, "%scontroller %s: %s -> %s" % (where, i, type(oa).__name__, type(ob).__name__)))
                continue
            da = {k: canon_cell(v, quant) for k, v in oa.__dict__.items() if k not in ("net",) and not callable(v)}
            db = {k: canon_cell(v, quant) for k, v in ob.__dict__.items() if k not in ("net",) and not callable(v)}
            if da != db:
                bad = [k for k in set(da) | set(db) if da.get(k) != db.get(k)]
                diffs.append(({"clause": "controller", "what": "attributes", "class": type(oa).__name__},
                              "%scontroller %s (%s) attributes differ after loading: %s" % (where, i, type(oa).__name__, bad[:5])))
            dsa, dsb = getattr(oa, "data_source", None), getattr(ob, "data_source", None)
            if dsa is not None and (dsb is None or canon_table(dsa.df, quant) != canon_table(dsb.df, quant)):
                diffs.append(({"clause": "controller", "what": "data_source"}, "%scontroller %s data source differs" % (where, i)))
    return diffs


def have_crypto():
    try:
        import cryptography  # noqa: F401
        return True
    except Exception:  # noqa: BLE001
        return False


def roundtrip(net, path, scratch, tag):
    """returns loaded net; raises on failure"""
    import pandapipes as pp
    if path == "json_string":
        return pp.from_json_string(pp.to_json(net))
    if path == "json_string_convert":
        return pp.from_json_string(pp.to_json(net), convert=True)
    if path == "json_file":
        fn = os.path.join(scratch, "n_%s.json" % tag)
        pp.to_json(net, fn)
        return pp.from_json(fn)
    if path == "json_filelike":
        buf = io.StringIO()
        pp.to_json(net, buf)
        buf.seek(0)
        return pp.from_json(buf)
    if path == "json_encrypted":
        s = pp.to_json(net, encryption_key="k3y")
        if s.lstrip()[:1] in "{[":
            raise AssertionError("to_json(encryption_key=...) returned plain JSON")
        return pp.from_json_string(s, encryption_key="k3y")
    if path == "json_encrypted_file":
        fn = os.path.join(scratch, "n_%s.enc" % tag)
        pp.to_json(net, fn, encryption_key="k3y")
        if open(fn).read(1) in "{[":
            raise AssertionError("to_json(file, encryption_key=...) wrote plain JSON")
        return pp.from_json(fn, encryption_key="k3y")
    if path == "json_encrypted_filelike":
        buf = io.StringIO()
        pp.to_json(net, buf, encryption_key="k3y")
        if buf.getvalue()[:1] in "{[":
            raise AssertionError("to_json(file object, encryption_key=...) wrote plain JSON")
        buf.seek(0)
        return pp.from_json(buf, encryption_key="k3y")
    if path == "pickle":
        fn = os.path.join(scratch, "n_%s.p" % tag)
        pp.to_pickle(net, fn)
        return pp.from_pickle(fn)
    raise ValueError(path)


def test_nets(ctx):
    """(name, net) stream"""
    import pandapipes as pp
    from harness import gen, c15_nets, drive
    rng = ctx.rng
    for name, b in c15_nets.BUILDERS:
        yield name, b(rng), {"builder": name}
    # one fluid per property class (so that a class that cannot be stored is named)
    from pandapipes.properties import fluids as F
    import numpy as np
    t = np.array([273.15, 293.15, 313.15, 333.15])
    for cls, mk in [("FluidPropertyConstant", lambda: F.FluidPropertyConstant(998.2)),
                    ("FluidPropertyLinear", lambda: F.FluidPropertyLinear(-0.4, 1100.0)),
                    ("FluidPropertyInterExtra", lambda: F.FluidPropertyInterExtra(t, np.array([999.8, 998.2, 992.2, 983.2]))),
                    ("FluidPropertyInterExtra_bounded", lambda: F.FluidPropertyInterExtra(t, np.array([999.8, 998.2, 992.2, 983.2]), method="interpolate")),
                    ("FluidPropertyPolynominal", lambda: F.FluidPropertyPolynominal(t, np.array([999.8, 998.2, 992.2, 983.2]), 2)),
                    ("FluidPropertySutherland", lambda: F.FluidPropertySutherland(1.2e-5, 273.0, 110.4))]:
        fl = F.Fluid("f_" + cls, "liquid", density=mk(), viscosity=F.FluidPropertyConstant(1e-3),
                     heat_capacity=F.FluidPropertyConstant(4180.0))
        net = pp.create_empty_network("fluid " + cls, fluid=fl)
        j = pp.create_junctions(net, 2, 5.0, 300.0)
        pp.create_ext_grid(net, j[0], 5.0, 300.0)
        pp.create_pipe_from_parameters(net, j[0], j[1], 0.3, 80.0)
        pp.create_sink(net, j[1], 0.2)
        yield "fluid_" + cls, net, {"property_class": cls}
    for lib in (["water", "lgas", "hydrogen"] if ctx.quick else ["water"] + gen.GASES + ["air", "carbondioxide"]):
        try:
            net = pp.create_empty_network("lib " + lib, fluid=lib)
        except Exception:  # noqa: BLE001
            continue
        yield "libfluid_" + lib, net, {"library_fluid": lib}
    n_gen = 4 if ctx.quick else 60
    for i in range(n_gen):
        prof = ["water", "gas", "heat"][i % 3]
        spec = gen.gen_net(rng, prof)
        net = gen.build(spec)
        with_res = i % 2 == 0
        if with_res:
            drive.run(net, use_numba=False, mode="sequential" if prof == "heat" else "hydraulics")
        yield "gen_%s_%d%s" % (prof, i, "_res" if with_res else ""), net, {"spec": spec, "results": with_res}


def run_diff(ctx):
    import pandapipes as pp
    from harness import drive
    from pandapipes.multinet.create_multinet import MultiNet
    paths = ["json_string", "json_string_convert", "json_file", "json_filelike", "pickle"]
    if have_crypto():
        paths += ["json_encrypted", "json_encrypted_file", "json_encrypted_filelike"]
    else:
        ctx.note("module `cryptography` not importable: encrypted JSON path skipped")
        ctx.extra["skipped_paths"] = ["json_encrypted", "json_encrypted_file", "json_encrypted_filelike"]
    n_run = 0
    for name, net, info in test_nets(ctx):
        is_multi = isinstance(net, MultiNet)
        for path in paths:
            ctx.count("path:" + path)
            quant = path != "pickle"
            replay = {"net": name, "path": path, "info": info if "spec" in info else info,
                      "how": "tools/harness/c15_nets.py / gen.build(spec); save and load through %s" % path}
            sample = {"net": name, "path": path}
            ctx.case(sample, name not in ("empty_net",))
            before = drive.snapshot_tables(net) if not is_multi else None
            try:
                loaded = roundtrip(net, path, ctx.scratch, "%s_%s" % (name, path))
            except Exception as e:  # noqa: BLE001
                if is_multi and path == "pickle":
                    ctx.count("multinet_pickle_unsupported")
                    continue
                sig = {"clause": "roundtrip_raises", "path": "json" if path.startswith("json") else path,
                       "variant": path, "exception": type(e).__name__}
                sig.update({k: v for k, v in info.items() if k in ("property_class", "builder")})
                ctx.violation(sig, "saving / loading net %s through %s raises %s: %s" % (name, path, type(e).__name__, str(e)[:200]), replay)
                continue
            if not is_multi and drive.snapshot_tables(net) != before:
                ctx.violation({"clause": "save_mutates_net", "path": path}, "saving net %s through %s changed the net" % (name, path), replay)
            for sig, what in compare_nets(net, loaded, quant):
                sig = dict(sig, path="json" if path.startswith("json") else path, variant=path)
                ctx.violation(sig, "net %s via %s: %s" % (name, path, what), replay)
            if path == "json_string":
                s1 = pp.to_json(net)
                s2 = pp.to_json(loaded)
                if s1 != s2:
                    pos = next((i for i, (x, y) in enumerate(zip(s1, s2)) if x != y), min(len(s1), len(s2)))
                    try:
                        o1, o2 = json.loads(s1)["_object"], json.loads(s2)["_object"]
                        key = next((k for k in o1 if o1.get(k) != o2.get(k)), "?")
                    except Exception:  # noqa: BLE001
                        key = "?"
                    ctx.violation({"clause": "idempotent_save", "key": key}, "net %s: to_json(from_json_string(to_json(net))) differs from to_json(net) "
                                  "at byte %d: %r vs %r" % (name, pos, s1[max(0, pos - 40):pos + 40], s2[max(0, pos - 40):pos + 40]), replay)
            # pipeflow on the loaded net
            if not is_multi and len(net.get("ext_grid", [])) + len(net.get("circ_pump_pressure", [])) + \
                    len(net.get("circ_pump_mass", [])) > 0 and net.fluid is not None:
                a, b = copy.deepcopy(net), loaded
                mode = "sequential" if (len(a.get("heat_consumer", [])) or len(a.get("circ_pump_pressure", [])) or
                                        len(a.get("circ_pump_mass", []))) else "hydraulics"
                ra, rb = drive.run(a, mode=mode, use_numba=False), drive.run(b, mode=mode, use_numba=False)
                n_run += 1
                if ra[0] != rb[0]:
                    ctx.violation(dict({"clause": "pipeflow_after_load", "what": "outcome",
                                        "path": "json" if path.startswith("json") else path, "variant": path},
                                       **{k: v for k, v in info.items() if k == "property_class"}),
                                  "net %s: pipeflow %s on the original, %s on the net loaded via %s" % (name, ra, rb, path), replay)
                elif ra[0] == "ok":
                    d = drive.same_results(drive.snapshot_results(a), drive.snapshot_results(b),
                                           rtol=1e-9 if quant else 0.0, atol=1e-11 if quant else 0.0)
                    if d:
                        ctx.violation({"clause": "pipeflow_after_load", "what": "results",
                                       "path": "json" if path.startswith("json") else path, "variant": path},
                                      "net %s: results of the net loaded via %s differ: %s" % (name, path, d[:3]), replay)
    ctx.count("pipeflow_comparisons", n_run)


def run_convert(ctx):
    """convert_format on current-format nets is the identity; twice = once on an old-format document"""
    import pandapipes as pp
    from harness import c15_nets, drive
    from pandapipes.io.convert_format import convert_format
    from pandapipes.multinet.create_multinet import MultiNet

    def state(n):
        return (drive.snapshot_tables(n), sorted(k for k in n.keys() if not k.startswith("_")), n.version, n.format_version,
                str(n.sector), [c.__name__ for c in n.component_list])
    # convert_format on a document as the JSON decoder delivers it (sector = plain string), every sector
    for name, b in c15_nets.BUILDERS:
        net = b(ctx.rng)
        if isinstance(net, MultiNet):
            continue
        try:
            loaded = pp.from_json_string(pp.to_json(net))
        except Exception:  # noqa: BLE001 - reported by run_diff
            continue
        before = state(loaded)
        convert_format(loaded)
        ctx.case({"convert_format_after_load": name}, True)
        if state(loaded) != before:
            ch = [i for i, (x, y) in enumerate(zip(before, state(loaded))) if x != y]
            ctx.violation({"clause": "convert_format_fixpoint", "what": "loaded document", "sector": str(net.sector)},
                          "convert_format changes the freshly loaded current-format net %s (sector %s): parts %s of "
                          "(tables, keys, version, format_version, sector, component_list); sector %r -> %r, components %s -> %s"
                          % (name, net.sector, ch, before[4], str(loaded.sector), before[5], [c.__name__ for c in loaded.component_list]),
                          {"net": name, "how": "n = from_json_string(to_json(net)); convert_format(n)"})
    for name, b in c15_nets.BUILDERS[:8]:
        net = b(ctx.rng)
        before = (drive.snapshot_tables(net), sorted(k for k in net.keys() if not k.startswith("_")), net.version, net.format_version)
        convert_format(net)
        after = (drive.snapshot_tables(net), sorted(k for k in net.keys() if not k.startswith("_")), net.version, net.format_version)
        ctx.case({"convert_format": name}, True)
        if before != after:
            ctx.violation({"clause": "convert_format_fixpoint"}, "convert_format changes the current-format net %s" % name, {"net": name})
    # an old-format document: rename columns back, lower the version
    net = c15_nets.all_components(ctx.rng, "water")
    net.pipe = net.pipe.rename(columns={"u_w_per_m2k": "alpha_w_per_m2k"})
    net.pipe["diameter_m"] = net.pipe.pop("inner_diameter_mm") / 1000.0
    net.pipe = net.pipe.drop(columns=["outer_diameter_mm"])
    net.format_version = "0.8.0"
    convert_format(net)
    once = drive.snapshot_tables(net)
    net.format_version = "0.8.0"
    convert_format(net)
    ctx.case({"convert_format": "old_format_twice"}, True)
    if drive.snapshot_tables(net) != once:
        ctx.violation({"clause": "convert_format_idempotent"}, "convert_format applied twice to an old-format net differs from once", {})
    if "inner_diameter_mm" not in net.pipe.columns or "u_w_per_m2k" not in net.pipe.columns or "outer_diameter_mm" not in net.pipe.columns:
        ctx.violation({"clause": "convert_format_columns"}, "convert_format did not restore the current pipe columns", {})


def layer_correspondence(ctx, facts):
    """the real encoder's top level vs the model: key filter and class signatures, evaluated in Coq"""
    import pandapipes as pp
    from harness import c15_nets
    rows = []
    for name, b in c15_nets.BUILDERS[:7]:
        net = b(ctx.rng)
        net["_private_thing"] = 1
        net["__dunder"] = 2
        try:
            doc = json.loads(pp.to_json(net))
        except Exception:  # noqa: BLE001 - reported by run_diff with the net that triggers it
            continue
        keys_in = list(net.keys())
        keys_out = list(doc["_object"].keys()) if "_object" in doc else []
        head = (doc.get("_class"), doc.get("_module"))
        fl = doc["_object"].get("fluid")
        props = []
        if isinstance(fl, dict) and "_object" in fl:
            flo = fl["_object"] if isinstance(fl["_object"], dict) else json.loads(fl["_object"])
            for pn, pv in flo.get("all_properties", {}).items():
                po = pv["_object"] if isinstance(pv["_object"], dict) else json.loads(pv["_object"])
                props.append((pv["_class"], sorted(po.keys())))
        rows.append((name, keys_in, keys_out, head, props))
        ctx.case({"layer": name, "n_keys": len(keys_in)}, True)
    # the multinet encoder: same key filter, signature MultiNet, members keep names / order / classes
    try:
        mn = c15_nets.multinet(ctx.rng)
        mn["_internal_thing"] = 1
        mdoc = json.loads(pp.to_json(mn))
        rows.append(("multinet", list(mn.keys()), list(mdoc["_object"].keys()), ("pandapipesNet", "pandapipes.pandapipes_net"), []))
        ctx.case({"layer": "multinet"}, True)
        nets = mdoc["_object"]["nets"]
        got = [(k, v.get("_class")) for k, v in nets.items()]
        exp = [(k, type(v).__name__) for k, v in mn["nets"].items()]
        if mdoc.get("_class") != "MultiNet" or got != exp:
            ctx.violation({"clause": "multinet_signature"}, "multinet written with class %r, members %s (expected MultiNet, %s)"
                          % (mdoc.get("_class"), got, exp), {})
    except Exception as e:  # noqa: BLE001 - reported by run_diff
        ctx.note("multinet layer correspondence skipped: %r" % (e,))
    body = ";\n".join("(%s, %s)" % (clist([cstr(k) for k in kin]), clist([cstr(k) for k in kout])) for _, kin, kout, _, _ in rows)
    txt = ("From Coq Require Import String List ZArith Bool.\nFrom PP Require Import C15.Model Gen.CodecFacts.\nImport ListNotations.\n"
           "Open Scope string_scope.\nFixpoint seqb (a b : list string) : bool := match a, b with [], [] => true | x :: r, y :: s => String.eqb x y && seqb r s | _, _ => false end.\n"
           "Definition rows : list (list string * list string) := [\n%s\n].\n"
           "Definition bad := filter (fun x => negb (seqb (filter public_key (fst x)) (snd x))) rows.\n"
           "Eval vm_compute in (length rows, length bad, (-1)%%Z).\n" % body)
    trip, out = ctx.coq_counts(txt, "c15_layer")
    if not trip:
        ctx.broken("correspondence", "C15 key filter vs json_net (coqc failed)", out[-600:])
    else:
        ctx.corr("C15.Model.public_key filter (order kept) == keys written by json_net", trip[0][0], trip[0][1])
        if trip[0][1]:
            ctx.violation({"clause": "key_filter"}, "keys written by to_json differ from the non-underscore keys of the net", {"rows": [r[:3] for r in rows]})
    for name, _, _, head, props in rows:
        if head != ("pandapipesNet", "pandapipes.pandapipes_net"):
            ctx.violation({"clause": "signature"}, "net %s is written with signature %r" % (name, head), {})
        for cls, keys in props:
            if cls == "FluidPropertyInterExtra" and not set(facts["prop_getter_entries"]).issubset(keys):
                ctx.violation({"clause": "interextra_fields"}, "FluidPropertyInterExtra written without %s: %s" % (facts["prop_getter_entries"], keys), {})
            if cls == "FluidPropertyPolynominal" and (not set(facts["extra"]["poly_fields"]).issubset(keys) or
                                                      "prop_getter" in keys or "prop_int_getter" in keys):
                ctx.violation({"clause": "polynominal_fields"}, "FluidPropertyPolynominal written with fields %s (expected %s, "
                              "no poly1d objects)" % (keys, facts["extra"]["poly_fields"]), {})
            if cls == "FluidPropertyInterExtra" and "prop_getter" in keys:
                ctx.violation({"clause": "interextra_fields"}, "FluidPropertyInterExtra written with the interpolator object", {})


def run(ctx):
    ctx.extra["rule"] = ("nets: 11 hand-made kinds (every component type water/gas, heat loops, odd cells + custom columns + "
                         "emptied tables, custom fluids, controller, empty, bare, multinet) + one fluid per property class + "
                         "library fluids + generated nets (with / without results) x storage paths (JSON string, file, "
                         "file-like, pickle, encrypted if available). distinct = (net, path); non-trivial = net not empty")
    facts = None
    try:
        text, facts = tcf.generate()
        ctx.gen("CodecFacts", text)
    except Exception as e:  # noqa: BLE001
        ctx.broken("translator", "tools/translate/codecfacts.py", repr(e))
    proved = ctx.prove("C15") if facts is not None else False
    if facts is not None:
        layer_correspondence(ctx, facts)
    run_diff(ctx)
    run_convert(ctx)


def replay(ctx, path):
    """./check C15 --replay replay/C15_<hash>.json : rebuild the recorded net (same VERIF_SEED / tier), save and load
    it through the recorded path on the current tree and compare again"""
    obj = json.load(open(path))
    r = obj.get("replay", {})
    if "net" not in r or "path" not in r:
        ctx.broken("replay", "unsupported replay record", str(list(r)))
        return
    for name, net, info in test_nets(ctx):
        if name != r["net"]:
            continue
        quant = r["path"] != "pickle"
        ctx.case({"replay": path}, True)
        try:
            loaded = roundtrip(net, r["path"], ctx.scratch, "replay")
        except Exception as e:  # noqa: BLE001
            print("replay: %s via %s raises %s: %s" % (name, r["path"], type(e).__name__, str(e)[:200]))
            ctx.violation(obj.get("signature", {}), "replayed: " + obj.get("what", ""), r)
            return
        diffs = compare_nets(net, loaded, quant)
        for sig, what in diffs:
            print("replay: " + what[:300])
            ctx.violation(dict(sig, path="json" if r["path"].startswith("json") else r["path"], variant=r["path"]),
                          "replayed: net %s via %s: %s" % (name, r["path"], what), r)
        if not diffs:
            print("replay: net %s via %s: no difference on the current tree (re-save / pipeflow clauses are "
                  "re-evaluated by the full check)" % (name, r["path"]))
        return
    ctx.broken("replay", "net %s not produced with seed %d tier %s" % (r["net"], ctx.seed, ctx.tier), "")
