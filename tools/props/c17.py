"""C17 - restructuring tools preserve referential integrity and physics (DESIGN.md 4/C17, design_notes/C17.md).

H-tie : coq/C17/Model.v `step_opt model_sem` (operations parameterised by the tuple set that
        element_junction_tuples of the running code reports) vs the real toolbox calls on generated nets and
        random operation sequences; all label / reference columns of all tables compared inside Coq.
Monitors (failing-input search, property words as oracle): observed tables vs the property-level expectation
        (references recognised by kind), referential integrity on the real net after every operation, pipeflow
        before / after relabelling, select_subnet of a complete supplied region.
"""
import copy
import json
import os
import sys
from concurrent.futures import ThreadPoolExecutor

sys.path.insert(0, os.path.dirname(os.path.dirname(os.path.abspath(__file__))))
from harness import gen, drive, c17_gen, c17_ops as O  # noqa: E402

CLAIM = {
    "text": "Unbounded Coq theorems (any tables, any rows, any operation sequence) about an executable model of "
            "reindex_* / create_continuous_* / fuse_junctions / select_subnet / drop_*: with an exact reference-column "
            "set reindexing is a renaming of the label column and every reference column (inverse lookup = identity, "
            "continuous index = injective renaming by rank), fusing redirects exactly the references to the fused "
            "junctions, no operation sequence leaves a dangling junction reference, untouched rows are unchanged. "
            "The model takes the reference-column set from the running code and is tied to toolbox.py by an exact "
            "correspondence on generated nets and operation sequences, evaluated inside Coq.",
    "note": "Refuted on the pinned tree and kept as _refuted/_partial theorem pairs: ('valve','element') is in the "
            "junction tuple set, so pipe labels of pi valves are treated as junction labels (reindex, fuse, drop, "
            "select) and drop_pipes leaves valves on missing pipes; create_continuous_elements_index raises KeyError "
            "when result tables exist. Pipe-reference integrity is proved only for nets without pi valves (partial). "
            "Row order and non-reference columns are not modelled. All theorems closed under the global context.",
    "technique": "Coq proof over hand-written model + exact model/implementation correspondence on operation sequences "
                 "+ property-level monitors on real nets and pipeflow results",
    "design": "DESIGN.md 4/C17 + design_notes/C17.md",
}
GEN = []

REINDEX_OPS = ("reindex_junctions", "reindex_pipes", "reindex_elements", "create_continuous_junction_index",
               "create_continuous_element_index", "create_continuous_elements_index")


def make_net_spec(rng, quick=True):
    profile = rng.choice(["water", "water", "gas", "heat"])
    spec = gen.gen_net(rng, profile, size=None if profile == "heat" else rng.randint(3, 6 if quick else 9),
                       features={"one_section": rng.random() < 0.6})
    return c17_gen.augment(spec, rng)


def result_map(before, op):
    """old label -> new label per table, by the property (for comparing pipeflow results)"""
    m = {}
    k = op["op"]
    if k in ("reindex_junctions", "reindex_pipes", "reindex_elements"):
        lk = dict(op["lookup"])
        m[op["element"]] = {l: lk.get(l, l) for l in O.labels(before, op["element"])}
    elif k in ("create_continuous_junction_index", "create_continuous_element_index"):
        m[op["element"]] = O._rank(O.labels(before, op["element"]), op["start"])
    elif k == "create_continuous_elements_index":
        for t in before:
            if not t.startswith("res_") and not t.endswith("_geodata"):
                m[t] = O._rank(O.labels(before, t), op["start"])
    return m


def regions(snap):
    """junction sets closed under every element connection (any row links all junctions it references)"""
    js = O.labels(snap, "junction")
    par = {j: j for j in js}

    def find(x):
        while par[x] != x:
            par[x] = par[par[x]]
            x = par[x]
        return x
    for t, rows in snap.items():
        for l, cells in rows:
            ref = [v for _, kd, v in cells if kd == "KJ" and v in par]
            for a, b in zip(ref, ref[1:]):
                par[find(a)] = find(b)
    out = {}
    for j in js:
        out.setdefault(find(j), []).append(j)
    return list(out.values())


class Runner:
    def __init__(self, ctx):
        self.ctx = ctx
        self.cases = []          # (before, op, obs)
        self.meta = []           # replay info per case

    def violation(self, op, column, what, replay, extra=None):
        sig = {"op": op["op"], "column": column}
        if extra:
            sig.update(extra)
        self.ctx.violation(sig, what, replay)

    def sequence(self, spec, ops_or_n, rng, pipeflow_first, monitors=True):
        """run one operation sequence on the net of `spec`; ops_or_n: list of ops (replay) or a length"""
        ctx = self.ctx
        net = gen.build(spec)
        if pipeflow_first:
            st, _ = drive.run(net, use_numba=False)
            ctx.count("pipeflow_first_" + st)
        done = []
        n = ops_or_n if isinstance(ops_or_n, int) else len(ops_or_n)
        for i in range(n):
            before = O.snapshot(net)
            if not O.labels(before, "junction"):
                break
            op = O.gen_op(rng, before) if isinstance(ops_or_n, int) else ops_or_n[i]
            op = O.fill_op(op, net)
            replay = {"spec": spec, "pipeflow_first": pipeflow_first, "ops": done + [op]}
            res_before = None
            do_pf = monitors and op["op"] in REINDEX_OPS and (isinstance(ops_or_n, list) or rng.random() < 0.5)
            if do_pf:
                ncopy = copy.deepcopy(net)
                st, _ = drive.run(ncopy, use_numba=False)
                if st == "ok":
                    res_before = drive.snapshot_results(ncopy)
                ctx.count("pipeflow_monitor_before_" + st)
            try:
                net2 = O.apply_op(op, net)
                obs = O.snapshot(net2)
                err = None
            except Exception as e:  # noqa: BLE001
                obs, err, net2 = None, "%s(%s)" % (type(e).__name__, str(e)[:80]), None
            self.cases.append((before, op, obs))
            self.meta.append(replay)
            nontrivial = any(kd == "KP" for rows in before.values() for _, cells in rows for _, kd, _ in cells) or \
                bool(set(O.labels(before, "pipe")) & set(O.labels(before, "junction")))
            ctx.case({"op": {k: v for k, v in op.items() if k != "cs"}, "tables": {t: len(r) for t, r in before.items() if r}},
                     nontrivial)
            ctx.count("op_" + op["op"])
            if monitors:
                self.monitor(op, before, obs, err, replay)
                if res_before is not None and obs is not None:
                    self.monitor_pipeflow(op, before, net2, res_before, replay)
            done.append(op)
            if obs is None:
                break
            net = net2
        return net

    # ---- property-level oracle on the tables
    def monitor(self, op, before, obs, err, replay):
        exp = O.expected(op, before)
        name = op["op"]
        if obs is None:
            # the property gives every one of these calls a defined result when its arguments are labels of the net
            if self.args_valid(op, before):
                col = self.blame_exception(op, before)
                self.violation(op, col, "%s raised %s on valid arguments (%s)" % (name, err, self.short(op)), replay,
                               {"kind": "exception"})
            else:
                self.ctx.count("invalid_argument_calls")
            return
        d = O.diff(obs, exp)
        # result / geodata rows follow their element table: report them only when the element tables agree
        d = [x for x in d if not (x[0].startswith("res_") or x[0].endswith("_geodata"))] or d
        for t, c, txt in d[:3]:
            self.violation(op, "%s.%s" % (t, c), "%s(%s): table %s differs from what the property demands: %s"
                           % (name, self.short(op), t, txt), replay, {"kind": "tables"})
        # drop_junctions(drop_elements=False) is asked to leave the attached elements alone
        bad = [] if (name == "drop_junctions" and not op["drop_elements"]) else O.dangling(obs)
        for t, c, l, v in bad[:3]:
            if not any(x[:2] == (t, c) for x in O.dangling(before)):
                self.violation(op, "%s.%s" % (t, c), "after %s(%s): %s[%s].%s = %s references nothing"
                               % (name, self.short(op), t, l, c, v), replay, {"kind": "dangling"})

    @staticmethod
    def short(op):
        return ", ".join("%s=%s" % (k, v) for k, v in op.items() if k not in ("op", "cs", "order"))[:200]

    @staticmethod
    def args_valid(op, before):
        k = op["op"]
        js, ps = set(O.labels(before, "junction")), set(O.labels(before, "pipe"))
        if O.dangling(before) or O.duplicate_labels(before):
            return False
        if k in ("reindex_junctions", "reindex_pipes", "reindex_elements"):
            labs = set(O.labels(before, op["element"]))
            lk = dict(op["lookup"])
            new = [lk.get(l, l) for l in labs]
            return set(lk) <= labs and len(set(new)) == len(new)
        if k == "fuse_junctions":
            return op["j1"] in js and set(op["j2"]) <= js
        if k in ("select_subnet", "drop_junctions", "drop_elements_at_junctions"):
            return set(op["junctions"]) <= js
        if k == "drop_pipes":
            return set(op["pipes"]) <= ps
        return True

    @staticmethod
    def blame_exception(op, before):
        """which reference column cannot be translated (KeyError): a pipe label run through the junction lookup,
        or a result index already rewritten"""
        if op["op"] in ("reindex_junctions", "create_continuous_junction_index", "create_continuous_elements_index"):
            js = set(O.labels(before, "junction"))
            for t, rows in before.items():
                for l, cells in rows:
                    for c, kd, v in cells:
                        if kd == "KP" and (t, c) in [tuple(x) for x in op["cs"]] and v not in js:
                            return "%s.%s" % (t, c)
        if op["op"] == "create_continuous_elements_index":
            return "res_index"
        return "<call>"

    # ---- physics: results unchanged up to the relabelling
    def monitor_pipeflow(self, op, before, net2, res_before, replay):
        ctx = self.ctx
        st, msg = drive.run(net2, use_numba=False)
        m = result_map(before, op)
        if st != "ok":
            d = [("pipeflow", "after the relabelling pipeflow ends with %s %s" % (st, msg[:80]))]
        else:
            d = drive.same_results(res_before, drive.snapshot_results(net2), rtol=1e-10, atol=1e-12, index_map=m)
        ctx.count("pipeflow_monitor_compared")
        if d:
            exp = O.expected(op, before)
            td = [x for x in O.diff(O.snapshot(net2), exp) if not (x[0].startswith("res_") or x[0].endswith("_geodata"))]
            col = "%s.%s" % (td[0][0], td[0][1]) if td else "results"
            self.violation(op, col, "pipeflow results before / after %s(%s) differ beyond relabelling: %s"
                           % (op["op"], self.short(op), d[0][1]), replay, {"kind": "pipeflow"})

    # ---- a subnet made of a complete supplied region reproduces that region's results
    def monitor_subnet(self, spec, rng):
        ctx = self.ctx
        net = gen.build(spec)
        st, _ = drive.run(net, use_numba=False)
        ctx.count("subnet_monitor_pipeflow_" + st)
        if st != "ok":
            return
        snap = O.snapshot(net)
        regs = regions(snap)
        import numpy as np
        p = net.res_junction.p_bar
        supplied = [r for r in regs if not np.isnan(p.loc[r].values).all()]
        if len(regs) < 2 or not supplied:
            ctx.count("subnet_monitor_single_region")
            return
        reg = rng.choice(supplied)
        full = drive.snapshot_results(net)
        op = O.fill_op({"op": "select_subnet", "junctions": list(reg)}, net)
        replay = {"spec": spec, "pipeflow_first": True, "ops": [op], "monitor": "subnet_of_supplied_region"}
        sub = O.apply_op(op, net)
        st2, msg = drive.run(sub, use_numba=False)
        ctx.count("subnet_monitor_compared")
        ctx.case({"subnet_region": sorted(reg), "of": len(O.labels(snap, "junction"))}, True)
        exp = O.expected(op, snap)
        td = [x for x in O.diff(O.snapshot(sub), exp) if not (x[0].startswith("res_") or x[0].endswith("_geodata"))]
        col = "%s.%s" % (td[0][0], td[0][1]) if td else "results"
        if st2 != "ok":
            self.violation(op, col, "pipeflow on the subnet of supplied region %s ends with %s %s" % (sorted(reg), st2, msg[:80]),
                           replay, {"kind": "subnet"})
            return
        subres = drive.snapshot_results(sub)
        # the region's rows of the full results
        part = {}
        for t, tab in full.items():
            if t not in subres:
                continue
            keep = [i for i, l in enumerate(tab["index"]) if l in set(subres[t]["index"])]
            part[t] = {"index": [tab["index"][i] for i in keep], "cols": {c: [v[i] for i in keep] for c, v in tab["cols"].items()}}
            lost = [l for l in subres[t]["index"] if l not in set(tab["index"])]
            if lost:
                self.violation(op, t + ".<rows>", "subnet has result rows %s unknown to the full net" % lost, replay, {"kind": "subnet"})
        d = drive.same_results(subres, part, rtol=1e-8, atol=1e-10)
        d = [x for x in d if "missing" not in x[1]] or d
        if d:
            self.violation(op, col, "results of the subnet of supplied region %s differ from the region's results in the "
                           "full net: %s %s" % (sorted(reg), d[0][0], d[0][1]), replay, {"kind": "subnet"})


def run_correspondence(ctx, runner):
    cases = runner.cases
    size = 120
    chunks = [cases[s:s + size] for s in range(0, len(cases), size)]

    def ev(i):
        return ctx.coq_counts(O.cases_file(chunks[i]), "c17_cases_%d" % i)
    with ThreadPoolExecutor(max_workers=6) as ex:
        results = list(ex.map(ev, range(len(chunks))))
    n_tot = n_mis = n_exact = n_nopipe = 0
    bad = []
    for i, (trip, out) in enumerate(results):
        if not trip or len(trip) < 2:
            ctx.broken("correspondence", "C17.step_opt vs toolbox (coqc failed)", (out or "")[-800:])
            return
        (n, m, first), (_, ne, nn) = trip[0], trip[1]
        n_tot += n
        n_mis += m
        n_exact += ne
        n_nopipe += nn
        if m:
            bad.append(i * size + first)
    ctx.corr("C17.Model.step_opt model_sem == pandapipes.toolbox operation (all label and reference columns, all tables)",
             n_tot, n_mis, "cases under the exact-tuple-set hypothesis: %d, without pipe references: %d" % (n_exact, n_nopipe))
    for i in bad[:3]:
        before, op, obs = cases[i]
        # the model no longer describes the code: report the concrete call
        ctx.violation({"op": op["op"], "column": "model-vs-code", "kind": "correspondence"},
                      "toolbox.%s(%s) leaves tables that differ from the Coq model of today's behaviour "
                      "(observed %s)" % (op["op"], Runner.short(op), "exception" if obs is None else "tables"),
                      runner.meta[i])


def run(ctx):
    ctx.extra["rule"] = ("nets from harness/gen.py (water / gas / heat, random labellings with colliding pipe / junction "
                         "labels) augmented with pi valves, a remote pressure-controlled junction, a circulation-pump "
                         "loop and geodata; 1-6 random operations per net, each compared after the call; distinct = "
                         "canonical JSON of (operation, table sizes); non-trivial = the net has a pipe-attached valve "
                         "or a pipe label that is also a junction label")
    proved = ctx.prove("C17")
    rng = ctx.rng
    runner = Runner(ctx)
    n_seq = 110 if ctx.quick else 2500
    for s in range(n_seq):
        spec = make_net_spec(rng, ctx.quick)
        try:
            runner.sequence(spec, rng.randint(1, 6), rng, pipeflow_first=rng.random() < 0.5)
        except Exception as e:  # noqa: BLE001 - generator / harness problem, not a finding
            import traceback
            ctx.broken("harness", "sequence", traceback.format_exc()[-1200:])
            break
    n_sub = 25 if ctx.quick else 400
    for s in range(n_sub):
        spec = c17_gen.augment(gen.gen_net(rng, rng.choice(["water", "gas"]), size=rng.randint(3, 6),
                                           features={"island": rng.random() < 0.3}), rng, circ_loop=rng.random() < 0.8)
        try:
            runner.monitor_subnet(spec, rng)
        except Exception:  # noqa: BLE001
            import traceback
            ctx.broken("harness", "subnet monitor", traceback.format_exc()[-1200:])
            break
    run_correspondence(ctx, runner)
    replay_witnesses(ctx, runner)


WITNESS = {"fluid": "water", "ops": [
    ["create_junction", {"pn_bar": 5.0, "tfluid_k": 293.15, "index": i}] for i in (0, 1, 2, 3, 4)] + [
    ["create_ext_grid", {"junction": 0, "p_bar": 5.0, "t_k": 293.15, "index": 0}],
    ["create_pipe_from_parameters", {"from_junction": 0, "to_junction": 1, "length_km": 0.5, "inner_diameter_mm": 100.0, "k_mm": 0.1, "index": 1}],
    ["create_pipe_from_parameters", {"from_junction": 1, "to_junction": 2, "length_km": 0.5, "inner_diameter_mm": 100.0, "k_mm": 0.1, "index": 3}],
    ["create_pipe_from_parameters", {"from_junction": 2, "to_junction": 3, "length_km": 0.5, "inner_diameter_mm": 100.0, "k_mm": 0.1, "index": 7}],
    ["create_pipe_from_parameters", {"from_junction": 3, "to_junction": 4, "length_km": 0.5, "inner_diameter_mm": 100.0, "k_mm": 0.1, "index": 2}],
    ["create_valve", {"junction": 1, "element": 1, "et": "pi", "inner_diameter_mm": 80.0, "opened": False, "index": 0}],
    ["create_sink", {"junction": 4, "mdot_kg_per_s": 0.5, "index": 0}]]}


def replay_witnesses(ctx, runner):
    """the witnesses of the _refuted theorems (coq/C17/Props.v), replayed on the implementation"""
    import random
    rng = random.Random(1)
    n0 = len(runner.cases)
    for ops in ([{"op": "reindex_junctions", "lookup": [[0, 4], [1, 3], [2, 2], [3, 1], [4, 0]]}],
                [{"op": "drop_pipes", "pipes": [1]}],
                [{"op": "fuse_junctions", "j1": 4, "j2": [1]}],
                [{"op": "drop_junctions", "junctions": [0], "drop_elements": True}],
                [{"op": "select_subnet", "junctions": [0, 2]}],
                [{"op": "reindex_junctions", "lookup": [[0, 10], [1, 11], [2, 12], [3, 13], [4, 14]]}]):
        for o in ops:
            if "lookup" in o:
                o["lookup"] = [tuple(x) for x in o["lookup"]]
        runner.sequence(WITNESS, ops, rng, pipeflow_first=False)
    # create_continuous_elements_index on a net with result tables
    ops = [{"op": "create_continuous_elements_index", "start": 0}]
    w2 = copy.deepcopy(WITNESS)
    w2["ops"][-1][1]["index"] = 5
    w2["ops"] = [o for o in w2["ops"] if o[0] != "create_valve"]
    runner.sequence(w2, ops, rng, pipeflow_first=True)
    run_tail = runner.cases[n0:]
    trip, out = ctx.coq_counts(O.cases_file(run_tail), "c17_witness")
    if not trip:
        ctx.broken("correspondence", "C17 witness cases (coqc failed)", (out or "")[-800:])
    else:
        ctx.corr("C17 refuted-theorem witnesses replayed on the implementation == model", trip[0][0], trip[0][1])
        if trip[0][1]:
            ctx.violation({"op": "witness", "column": "model-vs-code", "kind": "correspondence"},
                          "a witness of a _refuted theorem behaves differently on the implementation than in the model "
                          "(case %d of the witness list)" % trip[0][2], {"spec": WITNESS})
    return n0


def replay(ctx, path):
    import random
    obj = json.load(open(path))
    rp = obj.get("replay", obj)
    runner = Runner(ctx)
    rng = random.Random(0)
    ops = rp["ops"]
    for o in ops:
        if "lookup" in o:
            o["lookup"] = [tuple(x) for x in o["lookup"]]
    if rp.get("monitor") == "subnet_of_supplied_region":
        runner.monitor_subnet(rp["spec"], rng)
    else:
        runner.sequence(rp["spec"], ops, rng, pipeflow_first=rp.get("pipeflow_first", False))
        run_correspondence(ctx, runner)
