"""C07 - numba and numpy engines and the matrix-update option agree (DESIGN.md 4/C07, design_notes/C07.md).

T-tie   : Gen/K*.v regenerated from derivative_toolbox(.py/_numba.py) and result_extraction.py by
          tools/translate/kernels.py; coq/C07/Props.v proves the twins equal as real functions (named exceptions
          stated as _partial / _exception / _refuted), PropsAsm.v the update path = fresh assembly (NoDup positions),
          PropsSbg.v the grouped-sum paths (model of C06).
Monitors: float differential of the real twin kernels on generated arrays; API differential (numba on/off,
          only_update_hydraulic_matrix, reuse_internal_data over load changes on one net object)."""
import os
import sys

sys.path.insert(0, os.path.dirname(os.path.dirname(os.path.abspath(__file__))))
from translate import kernels  # noqa: E402

CLAIM = {
    "text": "PROVED (22 theorems): every numpy/numba kernel pair - liquid and gas momentum kernels, steady-state thermal kernel, "
            "friction factor, mean pressure, derived values, gas result post-processing - is regenerated from the current source "
            "as a real function and proved equal output by output for ALL inputs, mask thresholds included; the two places where "
            "the twins differ are stated exactly with a refuting witness (gas df_dm at |m|<=1e-8; thermal to-node terms at "
            "0<|m|<=1e-10). The graph part of the thermal twins (nodes_flow, infeed: set-difference vs flag formulation) is proved "
            "equal for every branch list on a hand model that is compared inside Coq with both real kernels. The matrix-update "
            "path is proved equal to fresh assembly for any triplet list, data and stored permutation (the pre-33b82f8 path "
            "refuted for duplicate positions); the grouped-sum paths are proved equal (model of C06). "
            "VALIDATED, not proved: the translator (bit-exact PrimFloat shadow of 9 kernels evaluated in Coq against numpy / "
            "numba). MONITORED only: float behaviour of the twins (<= 4 ulp, NaN rows), end-to-end agreement of pipeflow under "
            "use_numba / only_update_hydraulic_matrix / reuse_internal_data over load changes.",
    "note": "Theorems over R use the standard-library real axioms (ClassicalDedekindReals.sig_forall_dec, sig_not_dec, "
            "FunctionalExtensionality.functional_extensionality_dep); PropsAsm / PropsSbg / PropsGraph are closed under the "
            "global context. NaN is outside the real model (np.isnan = false). numba code generation, spsolve and the CSR "
            "semantics (duplicates are summed) are trusted. The update-path model is hand-written and tied by the API "
            "differential only. colebrook_np / colebrook_numba are dead code (never called) and not covered. The thermal kernel "
            "is the steady-state branch only.",
    "technique": "Coq proofs (ring/field/lra) over kernels regenerated from source + hand models with exact in-Coq correspondence "
                 "+ generic-ring model of the update path + float shadow, float and API differentials",
    "design": "DESIGN.md 4/C07 + design_notes/C07.md",
}
GEN_FILES = ["KHydIncompNp", "KHydIncompNb", "KHydCompNp", "KHydCompNb", "KThermNp", "KThermNb", "KPmNp", "KPmNb",
             "KLambdaNp", "KLambdaNb", "KDerivedNp", "KDerivedNb", "KGasResNp", "KGasResNb"]
GEN = kernels.gen_entries(GEN_FILES)


def run(ctx):
    ctx.extra["rule"] = ("kernel differential: rows of 8 kinds (generic, reverse, zero flow, |m| below the 1e-8 / 1e-10 "
                         "masks, equal end pressures, zero length, NaN flow) x 13 twin pairs, one case per (kernel, output, "
                         "row kind); API differential: generated nets (water / gas / heat loop, plus pressure controllers "
                         "and gas nets with reverse-declared pipes in sequential mode) x 4 engine/update variants x 3 load "
                         "steps; distinct = canonical spec hash; non-trivial = the reference run converged")
    proved = gen_and_prove(ctx, GEN, ["Props", "PropsAsm", "PropsSbg", "PropsGraph"], "C07")
    graph_correspondence(ctx)
    float_shadow(ctx, rows_quick=8)
    kernel_differential(ctx, wide=not proved)
    api_differential(ctx, wide=not proved)


def gen_and_prove(ctx, gen_entries, props_files, sub):
    """gen -> prove; coq/Gen is shared with concurrently running checks (possibly of another tree): if a generated file
    no longer holds the text generated here once the build is over, the obligations of that attempt are discarded and
    the step is repeated."""
    import vlib
    for attempt in range(4):
        texts, ok_gen = {}, True
        for name, fn in gen_entries:
            try:
                texts[name] = fn()
                path = os.path.join(vlib.COQ, "Gen", name + ".v")
                if not (os.path.exists(path) and open(path).read() == texts[name]):
                    ctx.gen(name, texts[name])          # takes the build lock; skipped when nothing changed
            except Exception as e:  # translator is fail-closed
                ok_gen = False
                ctx.broken("translator", name, repr(e))
        if not ok_gen:
            return False
        n_obl, n_brk = len(ctx.obligations), len(ctx.brokens)
        proved = True
        for props in props_files:
            proved = ctx.prove(sub, props=props) and proved
        stale = [n for n, t in texts.items()
                 if open(os.path.join(vlib.COQ, "Gen", n + ".v")).read() != t]
        if not stale or attempt == 3:
            if stale:
                ctx.note("generated files rewritten by a concurrent run during the build: %s" % stale)
            return proved
        del ctx.obligations[n_obl:]
        del ctx.brokens[n_brk:]
    return proved


def float_shadow(ctx, rows_quick=18):
    """translator validation: the extracted expression trees over PrimFloat, evaluated in Coq, must reproduce numpy bit for bit"""
    from harness import kshadow
    rounds, rows = (1, rows_quick) if ctx.quick else (8, 120)
    n_tot = n_bad = 0
    for r in range(rounds):
        try:
            text, index = kshadow.shadow_cases(ctx.rng, rows)
        except Exception as e:
            ctx.broken("translator", "float shadow generation", repr(e))
            return
        trip, out = ctx.coq_counts(text, "shadow_%d" % r)
        if not trip:
            ctx.broken("translator", "float shadow does not evaluate", out[-600:])
            return
        n, m, first = trip[0]
        n_tot += n
        n_bad += m
        if m:
            k, o, row, kind = index[first]
            ctx.broken("translator", "float shadow: Coq evaluation of the translated %s.%s differs from numpy (row kind %s; "
                                     "%d of %d cases)" % (k, o, kind, m, n), "")
    ctx.corr("float shadow: translated kernel over PrimFloat (vm_compute) == numpy, bit-exact "
             "(hydraulic kernels and derived values of both engines, numba medium pressure and gas post-processing; all outputs)", n_tot, n_bad)



def graph_correspondence(ctx):
    """graph part of the thermal kernels (nodes_flow, infeed): C07/ModelGraph.v against both real kernels, exact, inside Coq"""
    from harness import c07_kernels as CK
    n, chunk = (300, 300) if ctx.quick else (6000, 500)
    tot = bad = 0
    for c in range(0, n, chunk):
        trip, out = ctx.coq_counts(CK.graph_cases(ctx.rng, chunk), "graph_%d" % (c // chunk))
        if not trip:
            ctx.broken("correspondence", "C07.ModelGraph vs derivatives_thermal_np/_numba (coqc failed)", out[-600:])
            return
        tot += trip[0][0]
        bad += trip[0][1]
    ctx.corr("C07.ModelGraph (np_/nb_ infeed, nodes_flow) == derivatives_thermal_np / _numba on generated branch lists", tot, bad)
    if bad:
        ctx.broken("correspondence", "graph model of the thermal kernels disagrees with the implementation", "%d of %d" % (bad, tot))


# ------------------------------------------------------------------------------------------------ kernel level
def kernel_differential(ctx, wide=False):
    from harness import c07_kernels as CK
    n_rows = 2000 if ctx.quick else 40000
    rounds = 1 if ctx.quick else 5
    if wide:
        rounds += 2
    tot_cmp = tot_exc = 0
    for _ in range(rounds):
        res, kinds, inputs = CK.run_pairs(ctx.rng, n_rows)
        n_cmp, n_exc, bad = CK.compare(res, kinds)
        tot_cmp += n_cmp
        tot_exc += n_exc
        seen = set()
        for kernel, name, a, b, exc, exc_name in res:
            for kd in CK.KINDS:
                ctx.case({"kernel": kernel, "output": name, "row_kind": kd}, True, key="k:%s:%s:%s" % (kernel, name, kd))
        for kernel, name, row, kd, x, y, u in bad:
            if (kernel, name, kd) in seen:
                continue
            seen.add((kernel, name, kd))
            replay = {"kernel": kernel, "output": name, "row": row, "row_kind": kd, "numpy": x, "numba": y, "ulps": u,
                      "how": "tools/harness/c07_kernels.py run_pairs(); the row of every input array:",
                      "branch_pit_row": [float(v).hex() for v in inputs["branch_pit"][row]] if kd != "node" else None,
                      "vectors": {k: float(v[row]).hex() for k, v in inputs["vec"].items()} if kd != "node" else None}
            ctx.violation({"clause": "kernel_twin", "kernel": kernel, "output": name, "row_kind": kd},
                          "numpy and numba twin of %s disagree on output %s (row kind %s): %r vs %r" % (kernel, name, kd, x, y),
                          replay)
    ctx.count("kernel_elements_compared", tot_cmp)
    ctx.count("kernel_elements_in_named_exceptions", tot_exc)
    ctx.note("kernel float differential: %d output elements compared (<= 4 ulp / same NaN pattern), %d in named exceptions"
             % (tot_cmp, tot_exc))


# ------------------------------------------------------------------------------------------------ API level
def classify(spec, mode, variant, kind, detail, cols, net_info):
    """structural signature of a disagreement (matched against known/C07.json)"""
    upd = "update" in variant
    sig = {"clause": "update_only" if upd else "engine_twin", "kind": kind}
    if upd and mode != "hydraulics" and kind == "status" and cols and cols[0] in ("KeyError", "IndexError", "ValueError"):
        sig.update(thermal_mode=True, failure="exception in build_system_matrix(heat_mode=True)")
        return sig
    if upd and kind == "status" and net_info["pc_on_to_junction"] and cols and cols[0] == "PipeflowNotConverged":
        sig.update(duplicate_position="pressure controller with controlled junction = to junction",
                   failure="PipeflowNotConverged")
        return sig
    if "numba" in variant and kind == "values" and spec["fluid"] != "water" and mode != "hydraulics" and net_info["reverse_flow"] and \
            set(cols) <= {"res_pipe.normfactor_from", "res_pipe.normfactor_mean", "res_pipe.v_from_m_per_s",
                          "res_pipe.v_mean_m_per_s"}:
        sig.update(clause="engine_twin", columns="gas norm factors / velocities", direction_switched=True)
        return sig
    sig.update(variant=variant, columns=cols[:3], mode=mode, fluid=spec["fluid"])
    return sig


def net_facts(spec, mode):
    """facts about the reference solution used by classify (computed on demand)"""
    from harness import gen, drive, c07_api as CA
    info = {"pc_on_to_junction": False, "reverse_flow": False, "zero_flow_branch": False}
    for fn, kw in spec["ops"]:
        if fn == "create_pressure_control" and kw.get("controlled_junction") == kw.get("to_junction") \
                and kw.get("in_service", True):
            info["pc_on_to_junction"] = True
    for nb in (False, True):
        net = gen.build(spec)
        st, _ = drive.run(net, **dict(CA.TIGHT, mode=mode, use_numba=nb))
        if st == "ok":
            for t in ("res_pipe", "res_valve", "res_heat_exchanger"):
                if t in net and len(net[t]) and "mdot_from_kg_per_s" in net[t]:
                    m = net[t]["mdot_from_kg_per_s"].values
                    info["reverse_flow"] |= bool((m < -1e-9).any())
                    info["zero_flow_branch"] |= bool((abs(m) <= 1e-8).any())
            break
    return info


def api_differential(ctx, wide=False):
    from harness import gen, c07_api as CA
    n = 12 if ctx.quick else 300
    if wide:
        n *= 2
    factors = [1.0, 0.7, 1.3]
    n_ok = n_nc = 0
    for i in range(n):
        r = (i * 4 + i // 9) % 9 if ctx.quick else i % 9          # quick: 3, 4 and 7 (PC, gas-thermal) come early
        prof = ["water", "gas", "heat"][r % 3]
        mode = "hydraulics"
        try:
            if r == 7:
                spec, mode = CA.gas_heat_net(ctx.rng), "sequential"
            else:
                spec = gen.gen_net(ctx.rng, prof, size=None if ctx.quick else ctx.rng.randint(3, 20))
                if prof == "heat":
                    mode = ctx.rng.choice(["sequential", "sequential", "bidirectional"])
                if r == 3:
                    spec = CA.pc_chain_net(ctx.rng, controlled="to" if (i // 9) % 3 != 2 else "far")
                elif r == 4:
                    s2 = CA.add_pressure_control(ctx.rng, spec, ctx.rng.choice(["to", "far"]))
                    spec = s2 or spec
                if prof != "heat" and r != 3 and i % 2 == 0:
                    from harness.c02_law import vary_temperatures
                    spec = vary_temperatures(ctx.rng, spec)        # per-junction tfluid_k (hydraulic run)
            ref, dis = CA.compare_all(spec, factors, mode)
        except Exception as e:  # generator artefact (e.g. unsupplied after editing): count, skip
            ctx.count("generator_or_build_error:" + type(e).__name__)
            continue
        d = gen.describe(spec)
        ctx.count("profile:%s/%s%s" % (spec["fluid"] if spec["fluid"] == "water" else "gas", mode,
                                       "/pc-" + spec["pc"] if spec.get("pc") else ""))
        conv = all(s == "ok" for s in ref)
        n_ok += conv
        n_nc += not conv
        ctx.case({"spec": spec, "mode": mode, "load_factors": factors, "reference": ref, "counts": d["counts"]}, conv)
        if not dis:
            continue
        if all(k == "status" for _, _, k, _, _ in dis):
            # convergence differs at tol 1e-10: below the kernels' own 1e-8 regularisation of |m| a run may stall just above
            # tol_m in one engine only (design_notes/C07.md, observation).  The property is about the same options, so the
            # comparison is repeated at the default tolerances (iter = 100); only a difference there is reported.
            ref2, dis2 = CA.compare_all(spec, factors, mode, variants=[v for v in CA.VARIANTS if v[0] in {d[0] for d in dis}],
                                        opts=dict(iter=100))
            dis2 = [d for d in dis2 if d[2] == "status"]      # values at tol 1e-5 are not comparable at 1e-9
            if not dis2:
                ctx.count("status_differs_only_at_tol_1e-10")
                continue
            dis = dis2
        if any(k == "values" for _, _, k, _, _ in dis):
            # is the solution of this net unique at all?  The numpy reference is repeated with a damped Newton iteration
            # (alpha = 0.6, another iteration path to the same equations); if the reference does not reproduce ITSELF the
            # net is ill-posed (e.g. a compressor between two pressure-fixed junctions: its flow is a free variable of a
            # singular system) and says nothing about the engines
            ref_a = CA.run_variant(spec, factors, mode, False, False, False, False)
            ref_b = CA.run_variant(spec, factors, mode, False, False, False, False, opts=dict(CA.TIGHT, alpha=0.6, iter=300))
            if any(ra[0] == "ok" and rb[0] == "ok" and CA.diff_results(ra[1], rb[1]) for ra, rb in zip(ref_a, ref_b)):
                ctx.count("ill_posed_net_reference_not_reproducible_under_damping")
                continue
        info = net_facts(spec, mode)
        for variant, step, kind, detail, cols in dis[:6]:
            sig = classify(spec, mode, variant, kind, detail, cols, info)
            ctx.violation(sig, "variant '%s' differs from the reference (fresh net, numpy kernels, fresh assembly) at load "
                               "step %d: %s" % (variant, step, detail),
                          {"spec": spec, "mode": mode, "load_factors": factors, "variant": variant, "step": step,
                           "options": CA.TIGHT, "detail": detail,
                           "how": "harness.gen.build(spec); pipeflow per load step, see tools/harness/c07_api.py run_variant"})
    ctx.count("api_nets_reference_converged", n_ok)
    ctx.count("api_nets_reference_not_converged", n_nc)


def replay(ctx, path):
    import json
    from harness import c07_api as CA
    obj = json.load(open(path))
    r = obj["replay"]
    if "spec" not in r:
        ctx.note("kernel-level replay: rerun the check with the recorded seed")
        return
    ref, dis = CA.compare_all(r["spec"], r["load_factors"], r["mode"])
    info = net_facts(r["spec"], r["mode"])
    for variant, step, kind, detail, cols in dis:
        ctx.violation(classify(r["spec"], r["mode"], variant, kind, detail, cols, info),
                      "variant '%s' step %d: %s" % (variant, step, detail), r)
