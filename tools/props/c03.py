"""C03 - prescribed pressures, flows, lifts and ratios are met (DESIGN.md 4/C03).

Proof  : coq/C03/{Proofs,Props}.v over the shared model coq/C01/Model.v: fixed_pressure_slack / _controlled (any solution
         of the assembled system has x = 0 there), identity_rows_keep_flow, momentum_row, circ_pressure_row,
         p_init_is_mean (local law, one and two calls), lift / compressor fixed points.
H-tie  : exact correspondences inside Coq (coq/C01/Corr.v): real build_system_matrix (slack rows, PC rows, identity
         rows as written by the real hooks' structure) vs trips/eps at Z; real ExtGrid / CirculationPump*
         .create_pit_node_entries (set_fixed_node_entries) vs fixed_entries at Q (PINIT, count, type; several
         elements of both classes on one junction, types p / pt / t, out-of-service rows).
         Hook columns: real solve_hydraulics call captured at build time: rows of active FlowControl /
         CirculationPumpMass / HeatConsumer / PressureControl branches carry exactly the values the theorems assume.
Search : exact rational oracle on the real matrix (x_s = 0, x_c = 0, identity rows), set-point monitors on real
         pipeflow results.
"""
import os
import sys

sys.path.insert(0, os.path.dirname(os.path.dirname(os.path.abspath(__file__))))
from harness import gen, c01_help as H  # noqa: E402
from props import c01 as C01  # noqa: E402

CLAIM = {
    "text": "Unbounded theorems over the shared executable generic-ring model (coq/C01/Model.v): every solution x of the "
            "assembled hydraulic system has x = 0 at every slack node and at every controlled node of an active "
            "pressure-control branch (p stays p_init in every iteration), identity rows keep the prescribed flow, the "
            "momentum row of any other branch is dm x_b + dp x_from + dp1 x_to = load_vec (circ-pump-pressure row as a "
            "corollary); set_fixed_node_entries over ANY table (labels, row order, several rows per junction, type "
            "filter): new PINIT_i * new count = old PINIT_i * old count + sum of the valid values on node i and the count "
            "grows by their number (p_init is the mean over ext grids and circulation pumps, grouped form), plus the "
            "one- / two-call algebra; lift / compressor-ratio fixed points of the kernel's load_vec line. Generated "
            "facts: which hooks write the prescribed rows (JAC_DERIV_DM/DP/DP1, LOAD_VEC_BRANCHES, NODE_TYPE, PL, PINIT). "
            "Tied to /repo by exact correspondences inside Coq (matrix at Z, set_fixed_node_entries at Q with both "
            "models) and by the hook columns captured at the real build call.",
    "note": "Generic-ring theorems closed under the global context; C01.PropsT kernel facts list "
            "ClassicalDedekindReals.sig_forall_dec. Partial / monitored only: lift, ratio and pump-curve clauses are "
            "fixed-point statements over the kernel line load_vec = p_from - p_to + PL + height - friction (C02's T-tie) "
            "and are monitored on results (absolute pressures with p_amb(height), own std type of each pump at its "
            "reported vdot); PumpStdType.get_pressure itself is C19 (pump_lift); const-flow result rows are C01 "
            "(constflow_results_rows).",
    "technique": "Coq proof over hand-written generic-ring model + generated hook facts + exact model/implementation "
                 "correspondence inside Coq + exact rational oracle + set-point monitors",
    "design": "DESIGN.md 4/C03 + design_notes/C03.md",
}
GEN = C01.GEN


def budget(ctx):
    if ctx.quick:
        return dict(nets=50, numba_nets=6, fixed=50, hooks=40, oracle=25, monitor=60)
    return dict(nets=500, numba_nets=60, fixed=600, hooks=400, oracle=250, monitor=900)


def hook_columns(ctx, spec):
    """real solve_hydraulics (real hooks, real kernels); at the moment build_system_matrix is called the rows of
    prescribed-flow / PC branches must carry exactly what the theorems assume -> list of problems"""
    import numpy as np
    pf, bsm, IN, IB, ps = H._mods()
    from harness import drive
    net = gen.build(spec)
    drive.stages(net, use_numba=False)
    cap = {}
    orig = pf.build_system_matrix

    def wrap(net_, b, n, heat):
        cap["b"], cap["n"] = b.copy(), n.copy()
        return orig(net_, b, n, heat)
    pf.build_system_matrix = wrap
    try:
        pf.solve_hydraulics(net)
    finally:
        pf.build_system_matrix = orig
    b, n = cap["b"], cap["n"]
    lk = ps.get_lookup(net, "branch", "from_to_active_hydraulics")
    probs, seen = [], 0

    def rows(tbl):
        if tbl in lk:
            f, t = lk[tbl]
            return b[f:t]
        return b[0:0]
    from pandapipes.component_models.component_toolbox import get_component_array
    for tbl in ("flow_control", "circ_pump_mass", "heat_consumer"):
        r = rows(tbl)
        if not len(r):
            continue
        if tbl == "flow_control":
            act = get_component_array(net, tbl)[:, 0].astype(bool)   # CONTROL_ACTIVE of the active rows
            r = r[act]
        elif tbl == "heat_consumer":
            from pandapipes.component_models import HeatConsumer
            arr = get_component_array(net, tbl)
            r = r[np.isin(arr[:, HeatConsumer.MODE], [HeatConsumer.MF_QE if hasattr(HeatConsumer, "MF_QE") else HeatConsumer.QE_MF,
                                                      HeatConsumer.MF_DT, HeatConsumer.MF_TR])]
        seen += len(r)
        ok = (np.all(r[:, IB.JAC_DERIV_DM] == 1) and np.all(r[:, IB.JAC_DERIV_DP] == 0) and np.all(r[:, IB.JAC_DERIV_DP1] == 0)
              and np.all(r[:, IB.LOAD_VEC_BRANCHES] == 0) and np.all(r[:, IB.BRANCH_TYPE] != IB.PC))
        if not ok:
            probs.append({"table": tbl, "what": "identity row columns (DM=1, DP=DP1=0, LOAD_VEC_BRANCHES=0) not as assumed"})
    r = rows("press_control")
    r = r[r[:, IB.BRANCH_TYPE] == IB.PC]
    seen += len(r)
    if len(r) and not (np.all(r[:, IB.JAC_DERIV_DM] == 0) and np.all(r[:, IB.JAC_DERIV_DP] == 0)
                       and np.all(r[:, IB.JAC_DERIV_DP1] == 0)):
        probs.append({"table": "press_control", "what": "PC branch rows not zeroed"})
    n_pcn = int((n[:, IN.NODE_TYPE] == IN.PC).sum())
    n_pcb = int((b[:, IB.BRANCH_TYPE] == IB.PC).sum())
    if n_pcn != n_pcb:
        probs.append({"table": "press_control", "what": "%d PC nodes but %d PC branches" % (n_pcn, n_pcb)})
    r = rows("circ_pump_pressure")
    seen += len(r)
    if len(r) and not (np.all(r[:, IB.JAC_DERIV_DP] == 1) and np.all(r[:, IB.JAC_DERIV_DP1] == -1)):
        probs.append({"table": "circ_pump_pressure", "what": "DP / DP1 not (1, -1)"})
    return probs, seen


def run(ctx):
    ctx.extra["rule"] = ("same generator as C01 (harness/gen.py + c01_help.augment: pressure controllers, several ext grids "
                         "with different pressures / types on one junction, circulation pumps on ext-grid junctions). "
                         "fixed-entries case = one net's pressure-fixing tables with fresh multiples of 60 as pressures; "
                         "non-trivial = >= 2 valid elements on one junction or >= 2 component classes. pipeflow case = "
                         "canonical spec; non-trivial = at least one set-point element beside ext grids")
    b = budget(ctx)
    C01.gen_tties(ctx)
    ctx.prove("C03")
    ctx.prove("C01", props="PropsT")                 # hooks_write_prescribed_rows, hooks_preserve_node_columns (generated facts)
    specs = C01.make_specs(ctx, b["nets"], heat_every=5)
    suspects = []
    # ---------------------------------------------------------------- H-tie 1: matrix (shared with C01)
    recs, metas, fails = C01.matrix_records(ctx, specs, b)
    n, mis, bad, ok = H.run_corr(ctx, "m", "C01.Model.trips/eps == build_system_matrix (slack rows, PC rows, branch rows; Z)",
                                 recs, chunk=40)
    for gi in bad[:3]:
        C01.describe_bad(ctx, "build_system_matrix", specs[metas[gi]["spec_i"]][0], metas[gi], "first mismatching case of its chunk")
        suspects.append(specs[metas[gi]["spec_i"]])
    for spec, why, opt in fails[:3]:
        ctx.broken("correspondence", "build_system_matrix exactness", "%s %s" % (why, opt))
    # ---------------------------------------------------------------- H-tie 2: set_fixed_node_entries
    frecs, fmetas = [], []
    fspecs = [H.gen_spec(ctx.rng, ("water", "gas", "heat"), force=["multi_eg", "circ"] if i % 2 == 0 else ["multi_eg"])
              for i in range(b["fixed"])]
    for i, (spec, prof) in enumerate(fspecs):
        try:
            net = gen.build(spec)
            txt, meta = H.fixed_case(ctx.rng, net)
        except ValueError as e:
            ctx.broken("correspondence", "set_fixed_node_entries exactness", str(e))
            continue
        except Exception as e:  # noqa: BLE001
            ctx.count("skipped_fixed:" + type(e).__name__)
            continue
        meta["spec_i"] = i
        frecs.append(txt)
        fmetas.append(meta)
        ctx.case({"kind": "fixed_entries", "calls": meta["calls"], "max_on_one_junction": meta["max_on_one_junction"]},
                 meta["calls"] > 1 or meta["max_on_one_junction"] > 1, key="f:%d:%s" % (i, gen.spec_key(spec)[:2000]))
        ctx.count("fixed:max_on_one_junction=%d" % meta["max_on_one_junction"])
        ctx.count("fixed:component_classes=%d" % meta["calls"])
    n2, mis2, bad2, ok2 = H.run_corr(ctx, "f", "C01.Model.fixed_entries == ExtGrid / CirculationPump*.create_pit_node_entries "
                                               "(PINIT, EXT_GRID_OCCURENCE, NODE_TYPE; Q)", frecs, chunk=60)
    for gi in bad2[:3]:
        spec = fspecs[fmetas[gi]["spec_i"]][0]
        C01.describe_bad(ctx, "set_fixed_node_entries", spec, fmetas[gi], "PINIT / count / type differ")
        suspects.append((spec, "?"))
    # ---------------------------------------------------------------- H-tie 3: hook columns at the real build call
    n_rows = 0
    for spec, prof in (specs + fspecs)[:b["hooks"]]:
        try:
            probs, seen = hook_columns(ctx, spec)
        except Exception as e:  # noqa: BLE001
            ctx.count("skipped_hooks:" + type(e).__name__)
            continue
        n_rows += seen
        for p in probs[:1]:
            ctx.broken("correspondence", "hook columns", "%s on net %s" % (p, gen.describe(spec)))
            suspects.append((spec, prof))
    ctx.corr("rows of prescribed-flow / PC / circ-pump branches at the real build_system_matrix call carry the assumed values",
             n_rows, 0 if not any(k == "correspondence" and nm == "hook columns" for k, nm, _ in ctx.brokens) else 1)
    # ---------------------------------------------------------------- search: exact oracle
    n_or = 0
    for spec, prof in (suspects + specs)[:b["oracle"] + len(suspects)]:
        try:
            badc = C01.exact_oracle(ctx, spec)
        except Exception as e:  # noqa: BLE001
            ctx.count("skipped_oracle:" + type(e).__name__)
            continue
        if badc is None:
            continue
        n_or += 1
        for c in [x for x in badc if x["clause"] in ("fixed_pressure_rows", "identity_rows_keep_flow")][:1]:
            ctx.violation({"clause": c["clause"], "oracle": "exact-rational", "kind": c.get("kind", "")},
                          "real build_system_matrix solved over Q: %s fails (%s)" % (c["clause"], c),
                          {"spec": spec, "how": "tools/props/c01.py exact_oracle", "detail": c})
    ctx.extra["exact_oracle_systems"] = n_or
    # ---------------------------------------------------------------- monitors
    mspecs = suspects + specs + fspecs
    widen = 3 if (ctx.brokens and not ctx.violations) else 1
    if widen > 1:
        mspecs += C01.make_specs(ctx, b["monitor"] * 2, heat_every=4)
    st = C01.monitor_nets(ctx, mspecs, "c03", (b["monitor"] + len(suspects)) * widen)
    ctx.extra["monitor"] = st
    ctx.note("monitor: %d nets converged, %d not converged, %d other errors, %d set-points checked"
             % (st["ok"], st["notconv"], st["other"], st["checked"]))
    if st["ok"] < 10:
        ctx.broken("harness", "monitor", "fewer than 10 generated nets converged: %s" % st)


def replay(ctx, path):
    C01.replay(ctx, path)
