"""C11 - heat exchangers, consumers and circulation pumps report consistent heat duties
(DESIGN.md 4/C11, design_notes/C11.md).

T-tie : Gen/KThermNp.v, KThermNb.v (thermal kernels), Gen/KThermExpr.v (get_branch_cp), Gen/KHooksHeat.v
        (HeatConsumer adaption_before/after_derivatives_hydraulic/thermal, extract_results; CirculationPump thermal
        hook and extract_results; HeatConsumer mode constants + ordered decision table of create_component_array;
        HeatExchanger pit wiring) - regenerated on every run, theorems of coq/C11 re-proved against them.
H-tie : coq/C11/Model.v (mode decision, admissibility) vs the real create_heat_consumer + create_component_array on
        all 16 presence patterns (exhaustive), compared inside Coq.
Monitors: loop nets with 1-6 consumers / exchangers in all five modes, +- heat flows, sequential / bidirectional.
"""
import json
import os
import sys

import numpy as np

sys.path.insert(0, os.path.dirname(os.path.dirname(os.path.abspath(__file__))))
from vlib import cz, cbool  # noqa: E402
from translate import kernels, heat  # noqa: E402
from harness import gen as hgen, c10_gen, c10_mon as M  # noqa: E402
from props import c10  # noqa: E402

CLAIM = {
    "text": "Machine-checked theorems over code regenerated from the source on every run: for a zero-length / loss-free "
            "branch the generated thermal residual (numpy and numba) vanishes iff Q = |m| * mean c_p * (T_in - T_out) with "
            "the get_branch_cp mean - the same mean the heat-consumer hooks use; for each of the five heat-consumer modes "
            "the generated hook equations at a fixed point give the two prescribed quantities their set-points (MF_DT, "
            "MF_TR, QE_MF unconditionally; QE_DT / QE_TR as joint hydraulic + thermal fixed points, i.e. bidirectional); "
            "the mode table assigns exactly one mode to every admissible pair (16 patterns enumerated, model tied to the "
            "real create functions exhaustively); reported qext_w / deltat_k are the QEXT column and T_from - T_out; for a "
            "series loop and for any branched loop the sum of mean-c_p duties equals the reported pump heat plus explicit "
            "heat-capacity discretisation terms (zero for constant c_p), and per element the reported pump heat equals the mean-c_p "
            "heat of the same temperature step plus 1/2 m (c_p(T_out) - c_p(T_in)) (T_out + T_in); results of elements that were "
            "not calculated are NaN (generated table of written rows). The mode theorems need flow along the declared direction "
            "(controlled_mdot > 0), which create_heat_consumer does not enforce: for negative controlled_mdot the faithful model "
            "refutes the set-point clause (theorem consumer_modes_refuted_for_negative_mdot; replayed on the code, known finding).",
    "note": "Theorems over R use the standard-library real axioms (ClassicalDedekindReals.sig_forall_dec, sig_not_dec, "
            "FunctionalExtensionality.functional_extensionality_dep, Classical_Prop.classic via lra/field support). "
            "Loop closure is proved for series loops (telescoping) and for arbitrary branched loops (any graph with mass "
            "balance and mean-c_p mixing at every node) with explicit branch and node discretisation terms, both zero for "
            "constant c_p; the monitor evaluates the same identity. Known findings (genuine, kept visible): QE_TR consumers in "
            "sequential mode report a heat that the fluid does not lose; negative controlled_mdot misses the set-points. "
            "Out of scope: transient thermal branch. The assembly of the hydraulic "
            "identity row is C01/C03's subject; here the generated hook values (1, 0, 0, 0) are the statement.",
    "technique": "Coq proof over generated kernels and hooks (T-tie) + exhaustive correspondence of the mode table (H-tie) "
                 "+ monitors on real pipeflow results",
    "design": "DESIGN.md 4/C11 + design_notes/C11.md",
}
GEN = kernels.gen_entries(["KThermNp", "KThermNb"]) + [("KThermExpr", heat.gen_thermexpr), ("KHooksHeat", heat.gen_hooks)]


# ----------------------------------------------------------------------------------------------- mode table (exhaustive)
def mode_correspondence(ctx):
    import pandapipes as pp
    from pandapipes.component_models.heat_consumer_component import HeatConsumer
    vals = {"controlled_mdot_kg_per_s": 0.5, "treturn_k": 330.0, "deltat_k": 20.0, "qext_w": 30000.0}
    order = ["controlled_mdot_kg_per_s", "treturn_k", "deltat_k", "qext_w"]        # mf tr dt qe
    cases = []
    for bits in range(16):
        pat = [bool(bits >> k & 1) for k in range(4)]
        net = pp.create_empty_network(fluid="water")
        j = pp.create_junctions(net, 2, pn_bar=5, tfluid_k=350)
        kw = {k: vals[k] for k, b in zip(order, pat) if b}
        raised, mode = False, 0
        try:
            pp.create_heat_consumer(net, j[0], j[1], **kw)
        except Exception:  # noqa: BLE001
            raised = True
        if not raised:
            pits = {}
            HeatConsumer.create_component_array(net, pits)
            mode = int(pits["heat_consumer"][0, HeatConsumer.MODE])
        cases.append((pat, raised, mode))
        ctx.case({"kind": "mode-pattern", "given": [k for k, b in zip(order, pat) if b], "raises": raised, "mode": mode},
                 nontrivial=sum(pat) >= 2)
    # the decision table also has to be right when create_heat_consumer is bypassed (table edited by the user:
    # three quantities given) - later assignments win
    for bits in range(16):
        pat = [bool(bits >> k & 1) for k in range(4)]
        if sum(pat) < 3:
            continue
        net = pp.create_empty_network(fluid="water")
        j = pp.create_junctions(net, 2, pn_bar=5, tfluid_k=350)
        pp.create_heat_consumer(net, j[0], j[1], controlled_mdot_kg_per_s=0.5, qext_w=100.)
        for k, b in zip(order, pat):
            net.heat_consumer.at[0, k] = vals[k] if b else np.nan
        pits = {}
        HeatConsumer.create_component_array(net, pits)
        cases.append((pat, None, int(pits["heat_consumer"][0, HeatConsumer.MODE])))
    body = []
    for pat, raised, mode in cases:
        if raised is None:
            # compare only mode_of: encode as "not raised" with admissibility forced by a separate summary
            continue
        body.append("mkMCase (mkPat %s %s %s %s) %s %s" % (cbool(pat[0]), cbool(pat[1]), cbool(pat[2]), cbool(pat[3]),
                                                         cbool(raised), cz(mode)))
    extra = ["(mkPat %s %s %s %s, %s)" % (cbool(p[0]), cbool(p[1]), cbool(p[2]), cbool(p[3]), cz(m))
             for p, r, m in cases if r is None]
    txt = ("From Coq Require Import ZArith List Bool.\nFrom PP Require Import Gen.KHooksHeat C11.Model.\nImport ListNotations.\n"
           "Definition cs : list mcase := [\n%s\n].\nEval vm_compute in (summary cs).\n"
           "Definition ex : list (pattern * Z) := [\n%s\n].\n"
           "Eval vm_compute in (length ex, length (filter (fun pm => negb (Z.eqb (mode_of hc_mode_assignments (fst pm)) (snd pm))) ex), (-1)%%Z).\n"
           % (";\n".join(body), ";\n".join(extra)))
    trip, out = ctx.coq_counts(txt, "c11_modes")
    if not trip or len(trip) < 2:
        ctx.broken("correspondence", "C11.Model.mode_of vs create_component_array (coqc failed)", (out or "")[-800:])
        return
    n = trip[0][0] + trip[1][0]
    mis = trip[0][1] + trip[1][1]
    ctx.corr("C11.Model (admissible, mode_of over the generated decision table) == create_heat_consumer / "
             "create_component_array on all 16 presence patterns (+ 5 over-specified table rows)", n, mis)
    ctx.extra["exhaustive"] = True
    ctx.extra["exhaustive_note"] = "the 16 presence patterns of the four consumer quantities are enumerated completely"
    if mis:
        if trip[0][1]:
            pat, raised, mode = cases[trip[0][2]]
        else:
            pat, raised, mode = [c for c in cases if c[1] is None][0]
        ctx.violation({"clause": "mode_table_total", "pattern": [k for k, b in zip(order, pat) if b]},
                      "heat consumer with %s given: create raises=%s, mode %s - differs from the documented decision "
                      "(exactly one mode per admissible pair)" % ([k for k, b in zip(order, pat) if b], raised, mode),
                      {"given": [k for k, b in zip(order, pat) if b], "raises": raised, "mode": mode})


# ----------------------------------------------------------------------------------------------- monitors
def cp1(net, t):
    return float(net.fluid.get_heat_capacity(np.array([float(t)]))[0])


def monitor_duties(ctx, spec, net, mode, numba):
    import pandapipes.idx_branch as ib
    import pandapipes.idx_node as inode
    replay = {"spec": spec, "mode": mode, "use_numba": numba, "options": c10.TIGHT}
    bidir = mode == "bidirectional"
    # ---- elements that were not calculated report nothing: no heat flow / temperature difference without a mass flow
    for tbl in ("heat_consumer", "circ_pump_pressure", "circ_pump_mass"):
        if tbl in net and len(net[tbl]) and "res_" + tbl in net:
            res = net["res_" + tbl]
            for lab in net[tbl].index:
                if np.isnan(res.at[lab, "mdot_from_kg_per_s"]):
                    ctx.count("not_calculated_rows")
                    for col in ("qext_w", "deltat_k"):
                        if not np.isnan(res.at[lab, col]):
                            ctx.violation({"clause": "reported_quantities", "element": tbl, "column": col, "row": "not-calculated"},
                                          "%s %s was not calculated (in_service=%s, no mass flow / temperatures reported) but reports %s = %r"
                                          % (tbl, lab, bool(net[tbl].at[lab, "in_service"]), col, float(res.at[lab, col])),
                                          dict(replay, element=tbl, index=int(lab)))
    # ---- consumers
    if "heat_consumer" in net and len(net.heat_consumer):
        for lab, row in net.heat_consumer.iterrows():
            if not row.in_service:
                continue
            r = net.res_heat_consumer.loc[lab]
            given = [k for k in ("controlled_mdot_kg_per_s", "qext_w", "deltat_k", "treturn_k") if not np.isnan(row[k])]
            hmode = "+".join(g.split("_")[0] for g in given)
            ctx.count("consumer_" + hmode)
            m, tf, tout, q = float(r.mdot_from_kg_per_s), float(r.t_from_k), float(r.t_outlet_k), float(r.qext_w)
            if q < 0:
                ctx.count("negative_heat_flow")
            cb = (cp1(net, tf) + cp1(net, tout)) / 2
            duty = m * cb * (tf - tout)
            mass_given = "controlled_mdot_kg_per_s" in given
            qe_tr_seq = (not mass_given) and ("treturn_k" in given) and not bidir
            # reported quantities consistent with each other
            if not abs(float(r.deltat_k) - (tf - tout)) <= 1e-9:
                ctx.violation({"clause": "reported_quantities", "column": "deltat_k"},
                              "heat consumer %s: deltat_k %.9f but t_from_k - t_outlet_k = %.9f" % (lab, r.deltat_k, tf - tout),
                              dict(replay, consumer=int(lab)))
            if not abs(q - duty) <= 1e-6 * max(abs(q), abs(duty), 1.0):
                ctx.violation({"clause": "exchanger_duty", "element": "heat_consumer", "consumer_mode": hmode,
                               "calc_mode": mode},
                              "heat consumer %s (%s given, %s): reported qext_w %.4f W but mdot * mean c_p * (t_from - t_outlet) "
                              "= %.6f kg/s * %.3f J/kgK * %.6f K = %.4f W" % (lab, hmode, mode, q, m, cb, tf - tout, duty),
                              dict(replay, consumer=int(lab)))
            # set-points
            if mass_given or bidir:
                for k, obs, tol in (("controlled_mdot_kg_per_s", m, 1e-9), ("qext_w", q, 1e-6),
                                    ("deltat_k", float(r.deltat_k), 1e-6), ("treturn_k", tout, 1e-6)):
                    if k in given and not abs(obs - float(row[k])) <= tol * max(1.0, abs(float(row[k]))):
                        ctx.violation({"clause": "consumer_modes", "consumer_mode": hmode, "quantity": k, "calc_mode": mode},
                                      "heat consumer %s (%s given, %s): %s is %.9g, set-point %.9g"
                                      % (lab, hmode, mode, k, obs, float(row[k])), dict(replay, consumer=int(lab)))
    # ---- exchangers
    if "heat_exchanger" in net and len(net.heat_exchanger):
        for lab, row in net.heat_exchanger.iterrows():
            if not row.in_service:
                continue
            r = net.res_heat_exchanger.loc[lab]
            m, tf, tout = float(r.mdot_from_kg_per_s), float(r.t_from_k), float(r.t_outlet_k)
            if not np.isfinite(m) or abs(m) <= 1e-10:
                continue
            tin = tf if m > 0 else float(r.t_to_k)
            cb = (cp1(net, tin) + cp1(net, tout)) / 2
            duty = abs(m) * cb * (tin - tout)
            ctx.count("exchangers")
            if float(row.qext_w) < 0:
                ctx.count("negative_heat_flow")
            if not abs(float(row.qext_w) - duty) <= 1e-6 * max(abs(duty), abs(row.qext_w), 1.0):
                ctx.violation({"clause": "exchanger_duty", "element": "heat_exchanger", "calc_mode": mode},
                              "heat exchanger %s: qext_w %.4f W but |mdot| * mean c_p * (t_in - t_outlet) = %.4f W"
                              % (lab, row.qext_w, duty), dict(replay, exchanger=int(lab)))
    # ---- loop closure
    pumps = [t for t in ("circ_pump_pressure", "circ_pump_mass") if t in net and len(net[t])]
    if pumps and not ("ext_grid" in net and len(net.ext_grid)):
        bp, npit = net["_pit"]["branch"], net["_pit"]["node"]
        na, ba = M.active_masks(net)
        fl = M.flowing(bp) & ba
        fnc, tnc = M.corrected(bp)
        ft = net["_lookups"]["branch_from_to"]
        prow = set()
        for t in pumps:
            prow |= set(range(*ft[t]))
        cp = net.fluid.get_heat_capacity
        T = npit[:, inode.TINIT]
        duty = db = dn = scale = 0.0
        for r in np.where(fl)[0]:
            m = abs(bp[r, ib.MDOTINIT])
            tin, tout = T[fnc[r]], bp[r, ib.TOUTINIT]
            ci, co, cn = cp1(net, tin), cp1(net, tout), cp1(net, T[tnc[r]])
            dn += -0.5 * m * (co - cn) * (tout + T[tnc[r]])
            if r in prow:
                continue
            duty += m * (ci + co) / 2 * (tin - tout)
            db += -0.5 * m * (ci - co) * (tin + tout)
            scale += m * (ci + co) / 2 * (abs(tin - tout) + 1.0)
        pump_q = sum(float(np.nansum(net["res_" + t].qext_w.values)) for t in pumps)
        ctx.count("loops_closed")
        ctx.extra["closure_discretisation_max_rel"] = max(ctx.extra.get("closure_discretisation_max_rel", 0.0),
                                                          (abs(db) + abs(dn)) / max(abs(pump_q), 1.0))
        if not abs(pump_q - (duty - db - dn)) <= 1e-6 * max(scale, abs(pump_q), 1.0):
            ctx.violation({"clause": "loop_energy_closure", "calc_mode": mode},
                          "circulation pump(s) report %.3f W, consumers + exchangers + pipe losses sum to %.3f W; the "
                          "heat-capacity discretisation terms (branches %.3f W, nodes %.3f W) do not account for the "
                          "difference %.3f W" % (pump_q, duty, db, dn, pump_q - duty), replay)


def hook_probe(ctx, spec, mode, numba):
    """hypothesis of the mode theorems checked on the real hooks: QEXT as left by
    HeatConsumer.adaption_before_derivatives_thermal at the first thermal iteration (independent of convergence)"""
    import pandapipes as pp
    import pandapipes.idx_branch as ib
    import pandapipes.idx_node as inode
    mod = c10.pf_mod()
    orig = mod.calculate_derivatives_thermal
    snap = []

    def wrapped(net, branch_pit, node_pit, *a, **k):
        if not snap:
            snap.append((branch_pit.copy(), node_pit.copy(), dict(net["_lookups"]["branch_from_to_active_heat_transfer"])))
        return orig(net, branch_pit, node_pit, *a, **k)
    net = hgen.build(spec)
    mod.calculate_derivatives_thermal = wrapped
    try:
        pp.pipeflow(net, mode=mode, use_numba=numba, **c10.TIGHT)
    except Exception:  # noqa: BLE001
        pass
    finally:
        mod.calculate_derivatives_thermal = orig
    if not snap or "heat_consumer" not in snap[0][2]:
        return
    bp, npit, ft = snap[0]
    f, t = ft["heat_consumer"]
    hc = net.heat_consumer[net.heat_consumer.in_service.values]
    if t - f != len(hc):
        return
    fnc, _ = M.corrected(bp)
    for k, (lab, row) in enumerate(hc.iterrows()):
        r = f + k
        tin, tout, m, q = npit[fnc[r], inode.TINIT], bp[r, ib.TOUTINIT], bp[r, ib.MDOTINIT], bp[r, ib.QEXT]
        cb = (cp1(net, tin) + cp1(net, tout)) / 2
        exp = None
        if not np.isnan(row.controlled_mdot_kg_per_s) and not np.isnan(row.deltat_k):
            exp, what = cb * m * row.deltat_k, "mdot * mean c_p * deltat_k"
        elif not np.isnan(row.controlled_mdot_kg_per_s) and not np.isnan(row.treturn_k):
            exp, what = cb * m * (tin - row.treturn_k), "mdot * mean c_p * (t_in - treturn_k)"
        elif not np.isnan(row.qext_w):
            exp, what = row.qext_w, "the qext_w set-point"
        ctx.count("hook_probe_rows")
        if exp is not None and not abs(q - exp) <= 1e-9 * max(1.0, abs(exp)):
            given = [c for c in ("controlled_mdot_kg_per_s", "qext_w", "deltat_k", "treturn_k") if not np.isnan(row[c])]
            ctx.violation({"clause": "consumer_modes", "at": "hook", "given": "+".join(g.split("_")[0] for g in given)},
                          "heat consumer %s (%s given): heat handed to the thermal equations is %r W, the mode demands %s = %r W "
                          "(mdot %.6f, t_in %.4f, t_out %.4f)" % (lab, given, float(q), what, float(exp), m, tin, tout),
                          {"spec": spec, "mode": mode, "use_numba": numba, "consumer": int(lab), "probe": "hook"})


def negative_mdot_probe(ctx):
    """replay of the refuted clause (coq/C11/Props.v consumer_modes_refuted_for_negative_mdot) on the implementation:
    a heat consumer whose controlled_mdot_kg_per_s is negative (accepted by create_heat_consumer)"""
    import random
    for hmode, col in (("MF_DT", "deltat_k"), ("MF_TR", "treturn_k")):
        spec = c10_gen.loop(random.Random(2), n_cons=3, pump="pressure", modes=[hmode, "MF_QE", "MF_QE"], p_only=False)
        first = True
        for fn, kw in spec["ops"]:
            if fn == "create_heat_consumer":
                kw["controlled_mdot_kg_per_s"] = -0.2 if first else 1.0
                if not first:
                    kw["qext_w"] = abs(kw["qext_w"])
                first = False
        net = hgen.build(spec)
        r = c10.run_pipeflow(net, "sequential", False)
        ctx.count("negative_mdot_probe_" + r)
        if r != "ok":
            continue
        lab = net.heat_consumer.index[0]
        row, res = net.heat_consumer.loc[lab], net.res_heat_consumer.loc[lab]
        obs = float(res.deltat_k) if col == "deltat_k" else float(res.t_outlet_k)
        ctx.case({"kind": "negative-mdot-probe", "mode": hmode, "observed": obs, "set_point": float(row[col])}, True)
        if not abs(obs - float(row[col])) <= 1e-6 * max(1.0, abs(float(row[col]))):
            ctx.violation({"clause": "consumer_modes", "controlled_mdot": "negative", "quantity": col},
                          "heat consumer %s with controlled_mdot_kg_per_s = %s (%s given): %s is %.6f, set-point %.6f"
                          % (lab, row.controlled_mdot_kg_per_s, hmode, col, obs, float(row[col])),
                          {"spec": spec, "mode": "sequential", "use_numba": False, "consumer": int(lab)})


def explore(ctx, n_nets, n_numba):
    rng = ctx.rng
    conv = 0
    fixed = [(["MF_QE", "MF_DT", "MF_TR", "QE_DT", "QE_TR"], "pressure"), (["QE_TR"], "pressure"), (["QE_DT", "FC_HEX"], "pressure"),
             (["MF_DT", "MF_TR", "MF_QE"], "mass")]
    for i in range(n_nets):
        if i < len(fixed):
            spec = c10_gen.loop(rng, n_cons=len(fixed[i][0]), pump=fixed[i][1], modes=fixed[i][0])
        elif i % 6 == 5:
            spec = dict(hgen.gen_net(rng, "heat"), kind="heat-profile", heat_sources=True)
        else:
            spec = c10_gen.loop(rng)
        numba = i >= n_nets - n_numba
        if i < 8:
            hook_probe(ctx, spec, "sequential", numba)
        for mode in ("sequential", "bidirectional"):
            net = hgen.build(spec)
            r = c10.run_pipeflow(net, mode, numba)
            ctx.count("pipeflow_%s_%s" % (mode, r))
            c10.report_unexpected(ctx, spec, mode, numba, r)
            if r != "ok":
                continue
            conv += 1
            ctx.case({"kind": "monitor", "rungs": spec.get("rungs", spec.get("heat_modes")), "mode": mode, "numba": numba,
                      "h": json.dumps(spec, sort_keys=True, default=str)}, nontrivial=True)
            monitor_duties(ctx, spec, net, mode, numba)
    ctx.count("converged_runs", conv)


def run(ctx):
    ctx.extra["rule"] = ("loop nets: seeded ladder loops with a circulation pump (pressure / mass), 1-6 rungs carrying a heat "
                         "consumer in any of the five modes or flow control + heat exchanger, positive and negative heat flows, "
                         "pipes declared along / against the flow, 1-4 sections; each run in sequential and bidirectional mode; "
                         "distinct = canonical JSON of the build spec + mode + numba (all non-trivial). mode patterns: all 16 "
                         "presence patterns of the four consumer quantities")
    for name, fn in GEN:
        try:
            c10.gen_if_needed(ctx, name, fn())
        except Exception as e:  # noqa: BLE001
            ctx.broken("translator", name, repr(e))
    import threading
    res = {}
    th = threading.Thread(target=lambda: res.__setitem__("proved", ctx.prove("C11")))
    th.start()
    n_nets, n_numba = (26, 4) if ctx.quick else (300, 80)
    try:
        explore(ctx, n_nets, n_numba)
    finally:
        th.join()
    proved = res.get("proved", False)
    try:
        negative_mdot_probe(ctx)
    except Exception as e:  # noqa: BLE001
        ctx.broken("harness", "negative-mdot probe could not run", repr(e))
    try:
        mode_correspondence(ctx)
    except Exception as e:  # noqa: BLE001
        ctx.broken("correspondence", "mode table correspondence could not run", repr(e))
    if (not proved or ctx.brokens) and not ctx.violations:
        ctx.note("an obligation / correspondence broke: widening the monitor sweep")
        explore(ctx, 120, 6)


def replay(ctx, path):
    obj = json.load(open(path))
    rp = obj["replay"]
    if "spec" not in rp:
        mode_correspondence(ctx)
        return
    net = hgen.build(rp["spec"])
    r = c10.run_pipeflow(net, rp.get("mode", "sequential"), rp.get("use_numba", False))
    if r != "ok":
        ctx.note("replay: pipeflow -> " + r)
        return
    monitor_duties(ctx, rp["spec"], net, rp.get("mode", "sequential"), rp.get("use_numba", False))
