"""C10 - temperatures obey the pipe cooling law, energy-conserving mixing, fixed feeds, bounds
(DESIGN.md 4/C10, design_notes/C10.md).

T-tie : Gen/KThermNp.v, KThermNb.v (thermal kernels, shared translator), Gen/KThermExpr.v (expression block of
        calculate_derivatives_thermal: cp_i1, cp_nt, cp_n, cp_b; get_branch_cp; write-back wiring; direction-switch
        threshold and update lines of solve_temperature), Gen/KHooksHeat.v (circulation-pump thermal hook) -
        regenerated from /repo on every run; the theorems of coq/C10 are re-proved against them.
H-tie : coq/C10/Model.v (thermal build_system_matrix, corrected from/to nodes, check_infeed_number, graph part of
        the kernels) vs the real functions on real thermal active pits with integer columns, compared in Coq.
Monitors: junction energy balance, cooling law per section, feeders' temperatures, bounds - on real converged
        heat nets (sequential / bidirectional, numba on/off, reverse flow, 1-4 sections, several inflows).
"""
import copy
import json
import math
import os
import sys

import numpy as np

sys.path.insert(0, os.path.dirname(os.path.dirname(os.path.abspath(__file__))))
from vlib import cz, cnat, cbool, clist  # noqa: E402
from translate import kernels, heat  # noqa: E402
from harness import gen as hgen, c10_gen, c10_mon as M  # noqa: E402

CLAIM = {
    "text": "Machine-checked theorems over the thermal kernels and glue code regenerated from the source on every run: "
            "the branch residual vanishes exactly when the outlet temperature follows the documented exponential law "
            "(numpy and numba twins, either flow direction); the node rows of the assembled thermal system at a fixed "
            "point are the energy-conserving mix with the arithmetic mean of c_p at stream and mixture temperature - "
            "the same mean get_branch_cp uses; T-typed feeders and circulation pumps keep their temperature under any "
            "solution of the linear system; local temperature bounds (branch: between inlet and ambient; node: convex "
            "combination of its inflows, any number of inflows) and global bounds (maximum principle over the flow graph: "
            "every temperature between the coldest and warmest of feed and ambient temperatures). The hand model of the thermal build_system_matrix / "
            "corrected from-to nodes / check_infeed_number / infeed detection is tied to the code by an exact integer "
            "correspondence evaluated inside Coq; monitors evaluate the conclusions on real converged nets.",
    "note": "Theorems over R use the standard-library real axioms (ClassicalDedekindReals.sig_forall_dec, sig_not_dec, "
            "FunctionalExtensionality.functional_extensionality_dep); the assembly theorems are generic-ring and closed "
            "under the global context. global_bounds (maximum principle) is proved for nets without heat sources in which "
            "every node is downstream of an infeed node (graph form + pipeline form over the generated kernels; the graph "
            "hypothesis is also given in checkable form: all nodes touched by flow + acyclic flow graph, the inflow condition "
            "being proved from the kernel's infeed definition; acyclicity itself is hydraulics and only observed by the "
            "monitor); a concrete fixed point over R (two feeders, reverse-declared branch, mixing node) shows the hypotheses "
            "of all pipeline theorems satisfiable; OUT OF SCOPE: the transient branch of the kernels is not modelled; a converged (not exact) "
            "solution satisfies the laws up to tol_T - covered by monitors, not by theorems; spsolve is an oracle "
            "(theorems quantify over any solution x).",
    "technique": "Coq proof over generated kernels (T-tie) + hand-written assembly model with exact model/implementation "
                 "correspondence inside Coq (H-tie) + monitors on real pipeflow results",
    "design": "DESIGN.md 4/C10 + design_notes/C10.md",
}
GEN = kernels.gen_entries(["KThermNp", "KThermNb"]) + [("KThermExpr", heat.gen_thermexpr), ("KHooksHeat", heat.gen_hooks)]

TIGHT = dict(tol_T=1e-9, tol_p=1e-9, tol_m=1e-9, iter=200)


# ----------------------------------------------------------------------------------------------- helpers
def pf_mod():
    import pandapipes  # noqa: F401
    return sys.modules["pandapipes.pipeflow"]


def run_pipeflow(net, mode, use_numba, capture=None, amb=None):
    """real pipeflow; capture: list that receives (branch_pit, node_pit) copies at the first thermal
    check_infeed_number (i.e. after the real calculate_derivatives_thermal + hooks of the first iteration)"""
    import pandapipes as pp
    mod = pf_mod()
    orig = mod.check_infeed_number

    def wrapped(node_pit):
        if capture is not None and not capture:
            capture.append((net["_active_pit"]["branch"].copy(), node_pit.copy()))
        return orig(node_pit)
    mod.check_infeed_number = wrapped
    kw = dict(TIGHT)
    if amb and amb[0] == "call":
        kw["ambient_temperature"] = amb[1]
    elif amb and amb[0] == "user":
        pp.set_user_pf_options(net, ambient_temperature=amb[1])
    try:
        if mode == "heat":
            # temperature calculation on a handed-in hydraulic solution: hydraulics first, sol_vec from the pit
            import pandapipes.idx_branch as ib
            import pandapipes.idx_node as inode
            pp.pipeflow(net, mode="hydraulics", use_numba=use_numba, **kw)
            sol = np.concatenate([net["_pit"]["node"][:, inode.PINIT].copy(), net["_pit"]["branch"][:, ib.MDOTINIT].copy()])
            pp.pipeflow(net, sol_vec=sol, mode="heat", use_numba=use_numba, **kw)
        else:
            pp.pipeflow(net, mode=mode, use_numba=use_numba, **kw)
        return "ok"
    except Exception as e:  # noqa: BLE001
        LAST_EXC[0] = "%s: %s" % (type(e).__name__, str(e)[:200])
        return type(e).__name__
    finally:
        mod.check_infeed_number = orig


LAST_EXC = [""]
EXPECTED_FAILURES = ("PipeflowNotConverged",)


def report_unexpected(ctx, spec, mode, numba, r, prop_clause="no_result"):
    """a well-posed generated net on which pipeflow dies with anything but PipeflowNotConverged has no thermal
    result at all: reported as a concrete failing input (never happens on the reference tree)"""
    if r == "ok" or r in EXPECTED_FAILURES:
        return False
    ctx.violation({"clause": prop_clause, "exception": r, "calc_mode": mode},
                  "pipeflow(mode=%s) on a well-posed generated heating net raises %s - no temperatures / duties are returned"
                  % (mode, LAST_EXC[0]), {"spec": spec, "mode": mode, "use_numba": numba, "options": TIGHT})
    return True


# ----------------------------------------------------------------------------------------------- correspondence
def int_variants(ctx, net, bp0, np0, n_var):
    """integer-valued variants of a real thermal active pit -> list of case dicts (with observed outputs)"""
    import pandapipes.idx_branch as ib
    import pandapipes.idx_node as inode
    from pandapipes.pf.build_system_matrix import build_system_matrix
    from pandapipes.pf.pipeflow_setup import check_infeed_number
    from pandapipes.pf.derivative_calculation import calculate_derivatives_thermal
    from pandapipes.pf.derivative_toolbox import _branches_not_zero_flow
    from pandapipes.pf.internals_toolbox import get_from_nodes_corrected, get_to_nodes_corrected
    rng = ctx.rng
    out = []
    nb, nn = len(bp0), len(np0)
    for v in range(n_var):
        bp, npit = bp0.copy(), np0.copy()
        # (1) graph part on real numbers: random direction flags / stagnant branches, real kernels
        if v > 0:
            for k in range(nb):
                r = rng.random()
                if r < 0.25:
                    bp[k, ib.FROM_NODE_T_SWITCHED] = 1 - bp[k, ib.FROM_NODE_T_SWITCHED]
                if 0.2 < r < 0.35:
                    bp[k, ib.MDOTINIT] = rng.choice([0.0, 5e-11, -5e-11])
        calculate_derivatives_thermal(net, bp, npit, None, None, net["_options"])
        flow = [bool(x) for x in _branches_not_zero_flow(bp)]
        kinfeed = [bool(x) for x in npit[:, inode.INFEED]]
        noflow = [bool(x == 1) for x in npit[:, inode.JAC_DERIV_DT_N]]
        # (2) node typing / infeed pattern
        mode = rng.choice(["real", "real", "perm", "wrong", "allT"]) if v > 0 else "real"
        if mode != "real":
            nT = rng.randint(0, min(3, nn)) if mode != "allT" else nn
            tn = rng.sample(range(nn), nT)
            npit[:, inode.NODE_TYPE_T] = 0
            npit[tn, inode.NODE_TYPE_T] = inode.T
            npit[:, inode.INFEED] = 0
            k = nT if mode in ("perm",) else (rng.randint(0, nn) if mode == "wrong" else rng.choice([nT, 0]))
            npit[rng.sample(range(nn), min(k, nn)), inode.INFEED] = 1
        # (3) integer columns
        def ri():
            return float(rng.randint(-9, 9))
        for k in range(nb):
            for c in (ib.JAC_DERIV_DT, ib.JAC_DERIV_DTOUT, ib.JAC_DERIV_DT_NODE, ib.JAC_DERIV_DTOUT_NODE,
                      ib.LOAD_VEC_BRANCHES_T, ib.LOAD_VEC_NODES_TO_T):
                bp[k, c] = ri()
        for i in range(nn):
            npit[i, inode.LOAD_T] = ri()
            npit[i, inode.JAC_DERIV_DT_N] = ri()
        nodes_before = [(int(npit[i, inode.LOAD_T]), int(npit[i, inode.JAC_DERIV_DT_N]), bool(npit[i, inode.INFEED]),
                         bool(npit[i, inode.NODE_TYPE_T] == inode.T)) for i in range(nn)]
        ok = bool(check_infeed_number(npit))
        nodes = [(int(npit[i, inode.LOAD_T]), int(npit[i, inode.JAC_DERIV_DT_N]), bool(npit[i, inode.INFEED]),
                  bool(npit[i, inode.NODE_TYPE_T] == inode.T)) for i in range(nn)]
        fnc = [int(x) for x in get_from_nodes_corrected(bp)]
        tnc = [int(x) for x in get_to_nodes_corrected(bp)]
        branches = [(int(bp[k, ib.FROM_NODE]), int(bp[k, ib.TO_NODE]), bool(bp[k, ib.FROM_NODE_T_SWITCHED]),
                     int(bp[k, ib.JAC_DERIV_DT]), int(bp[k, ib.JAC_DERIV_DTOUT]), int(bp[k, ib.JAC_DERIV_DT_NODE]),
                     int(bp[k, ib.JAC_DERIV_DTOUT_NODE]), int(bp[k, ib.LOAD_VEC_BRANCHES_T]),
                     int(bp[k, ib.LOAD_VEC_NODES_TO_T])) for k in range(nb)]
        dense, eps, built = [], [], False
        if ok:
            upd = rng.random() < 0.3
            old = net["_options"].get("only_update_hydraulic_matrix", False)
            net["_options"]["only_update_hydraulic_matrix"] = upd
            net["_internal_data"] = dict()
            try:
                jac, e = build_system_matrix(net, bp, npit, True)
            finally:
                net["_options"]["only_update_hydraulic_matrix"] = old
                net.pop("_internal_data", None)
            d = jac.toarray()
            if not (np.all(d == np.round(d)) and np.all(e == np.round(e))):
                raise RuntimeError("non-integer thermal system from integer columns")
            dense = [[int(x) for x in row] for row in d]
            eps = [int(x) for x in e]
            built = True
        out.append({"nodes": nodes, "nodes_before": nodes_before, "branches": branches, "check": ok, "built": built,
                    "dense": dense, "eps": eps, "fnc": fnc, "tnc": tnc, "flow": flow, "kinfeed": kinfeed,
                    "noflow": noflow, "variant": mode})
    return out


def coq_case(c):
    def node(t):
        return "mkTNode %s %s %s %s" % (cz(t[0]), cz(t[1]), cbool(t[2]), cbool(t[3]))

    def br(t):
        return "mkTBranch %s %s %s %s %s %s %s %s %s" % (cnat(t[0]), cnat(t[1]), cbool(t[2]), cz(t[3]), cz(t[4]),
                                                        cz(t[5]), cz(t[6]), cz(t[7]), cz(t[8]))
    return ("mkCase %s %s %s %s %s %s %s %s %s %s %s %s" % (
        clist(["(%s)" % node(t) for t in c["nodes"]]), clist(["(%s)" % node(t) for t in c["nodes_before"]]),
        clist(["(%s)" % br(t) for t in c["branches"]]), cbool(c["check"]), cbool(c["built"]),
        clist([clist([cz(x) for x in row]) for row in c["dense"]]), clist([cz(x) for x in c["eps"]]),
        clist([cnat(x) for x in c["fnc"]]), clist([cnat(x) for x in c["tnc"]]),
        clist([cbool(x) for x in c["flow"]]), clist([cbool(x) for x in c["kinfeed"]]),
        clist([cbool(x) for x in c["noflow"]])))


def correspondence(ctx, nets):
    """nets: list of (spec, net, bp, np, numba) captured thermal pits"""
    cases, origin = [], []
    n_var = 5 if ctx.quick else 8
    for spec, net, bp, npit, nb in nets:
        try:
            vs = int_variants(ctx, net, bp, npit, n_var)
        except Exception as e:  # noqa: BLE001
            ctx.broken("correspondence", "driving the real thermal assembly failed", repr(e))
            return
        for c in vs:
            cases.append(c)
            origin.append(spec)
            ctx.count("corr_variant_" + c["variant"])
            ctx.case({"kind": "thermal-assembly", "nodes": len(c["nodes"]), "branches": len(c["branches"]),
                      "switched": sum(1 for b in c["branches"] if b[2]), "infeed": sum(1 for n in c["nodes"] if n[2]),
                      "built": c["built"], "variant": c["variant"], "numba": nb,
                      "h": hash_case(c)},
                     nontrivial=len(c["branches"]) >= 3 and (any(b[2] for b in c["branches"]) or c["variant"] != "real"))
    tot = mis = 0
    size = 40
    chunks = list(range(0, len(cases), size))

    def evaluate(s):
        txt = ("From Coq Require Import ZArith List Bool.\nFrom PP Require Import C10.Model.\nImport ListNotations.\n"
               "Definition cs : list case := [\n%s\n].\nEval vm_compute in (summary cs).\n"
               % ";\n".join(coq_case(c) for c in cases[s:s + size]))
        return ctx.coq_counts(txt, "c10_cases_%d" % (s // size))
    from concurrent.futures import ThreadPoolExecutor
    with ThreadPoolExecutor(max_workers=4) as ex:          # coqc runs as a subprocess: the chunks evaluate in parallel
        results = list(ex.map(evaluate, chunks))
    for s, (trip, outp) in zip(chunks, results):
        if not trip:
            ctx.broken("correspondence", "C10.Model vs thermal build_system_matrix (coqc failed)", outp[-800:])
            return
        n, m, first = trip[0]
        tot += n
        mis += m
        if m:
            c = cases[s + first]
            sig, what = classify_mismatch(c)
            ctx.violation(sig, what, {"spec": origin[s + first], "case": c,
                                      "how": "real thermal active pit of build(spec) after the hydraulic solution, integer "
                                             "columns as in case; check_infeed_number + build_system_matrix(net, bp, np, True)"})
    ctx.corr("C10.Model (thermal build_system_matrix, corrected from/to, check_infeed_number, kernel infeed / "
             "nodes_flow) == implementation on real pits with integer columns", tot, mis)


def hash_case(c):
    import hashlib
    return hashlib.sha1(json.dumps(c, sort_keys=True).encode()).hexdigest()[:16]


def py_model(c):
    """the property-level expectation for one case (independent python re-statement, used only to *explain* a
    mismatch found inside Coq)"""
    nn, nb = len(c["nodes"]), len(c["branches"])
    fnc = [b[1] if b[2] else b[0] for b in c["branches"]]
    tnc = [b[0] if b[2] else b[1] for b in c["branches"]]
    N = nn + nb
    D = [[0] * N for _ in range(N)]
    e = [0] * N
    for k, b in enumerate(c["branches"]):
        D[nn + k][fnc[k]] += b[3]
        D[nn + k][nn + k] += b[4]
        e[nn + k] = b[7]
        if not c["nodes"][tnc[k]][2]:
            D[tnc[k]][tnc[k]] += b[5]
            D[tnc[k]][nn + k] += b[6]
            e[tnc[k]] += b[8]
    for i, nd in enumerate(c["nodes"]):
        if not nd[2]:
            D[i][i] += nd[1]
            e[i] -= nd[0]
    inf = [i for i, nd in enumerate(c["nodes"]) if nd[2]]
    tn = [i for i, nd in enumerate(c["nodes"]) if nd[3]]
    for r, col in zip(inf, tn):
        D[r][col] += 1
    return fnc, tnc, D, e


def classify_mismatch(c):
    fnc, tnc, D, e = py_model(c)
    if fnc != c["fnc"] or tnc != c["tnc"]:
        return ({"clause": "direction_switch", "function": "get_from_nodes_corrected/get_to_nodes_corrected"},
                "corrected from/to nodes differ from FROM_NODE_T_SWITCHED semantics: %s/%s vs %s/%s"
                % (c["fnc"], c["tnc"], fnc, tnc))
    if c["built"]:
        for r in range(len(D)):
            if D[r] != c["dense"][r]:
                kind = "branch row" if r >= len(c["nodes"]) else ("infeed row" if c["nodes"][r][2] else "node mixing row")
                return ({"clause": "thermal_assembly", "row_kind": kind},
                        "thermal system matrix row %d (%s) is %s, the documented assembly gives %s" % (r, kind, c["dense"][r], D[r]))
        for r in range(len(e)):
            if e[r] != c["eps"][r]:
                kind = "branch row" if r >= len(c["nodes"]) else ("infeed row" if c["nodes"][r][2] else "node mixing row")
                return ({"clause": "thermal_load_vector", "row_kind": kind},
                        "thermal load vector entry %d (%s) is %s, expected %s" % (r, kind, c["eps"][r], e[r]))
    return ({"clause": "thermal_graph_part"}, "infeed / nodes_flow / check_infeed_number differ from the model "
            "(kernel infeed %s, nodes without flow %s, check %s)" % (c["kinfeed"], c["noflow"], c["check"]))


# ----------------------------------------------------------------------------------------------- monitors
def identity_rows(net):
    """rows of the full branch pit whose T_out equation is an identity row by design"""
    import pandapipes.idx_branch as ib
    rows = set()
    ft = net["_lookups"]["branch_from_to"]
    bp = net["_pit"]["branch"]
    for tbl, (f, t) in ft.items():
        if tbl.startswith("circ_pump"):
            rows |= set(range(f, t))
        if tbl == "heat_consumer":
            hc = net.heat_consumer
            act = hc[hc.in_service.values] if "in_service" in hc else hc
            for k, (_, row) in enumerate(act.iterrows()):
                if not np.isnan(row.qext_w) and not np.isnan(row.treturn_k) and f + k < t and bp[f + k, ib.QEXT] != 0:
                    rows.add(f + k)
    return rows


def monitor_net(ctx, spec, net, mode, numba, tag="", amb=None):
    """evaluate the property's conclusions on a converged net -> number of violations reported"""
    import pandapipes.idx_branch as ib
    import pandapipes.idx_node as inode
    n0 = len(ctx.violations) + len(ctx.known_hits)
    replay = {"spec": spec, "mode": mode, "use_numba": numba, "options": TIGHT,
              "ambient": list(amb) if amb else ["default", 293.15]}
    # --- mixing
    eb = M.energy_balance(net)
    worst = None
    for i, res, scale, k, T, streams in eb:
        ctx.count("junction_inflows_%d" % min(k, 4))
        if abs(res) > 1e-7 * scale and (worst is None or abs(res) / scale > worst[0]):
            worst = (abs(res) / scale, i, res, k, T, streams)
    if worst:
        _, i, res, k, T, streams = worst
        Tstar = M.conserving_mix(net, streams)
        ctx.violation({"clause": "node_mixing_law", "inflows": min(k, 4)},
                      "energy balance of a mixing node violated: streams (mdot [kg/s], T [K]) %s give node temperature "
                      "%.6f K, the energy-conserving mix (weights mdot * mean c_p between stream and mix temperature) is "
                      "%.6f K (off by %.4f K; residual %.3f W)" % ([(round(a, 4), round(b, 3)) for a, b in streams], T, Tstar,
                                                                   T - Tstar, res),
                      dict(replay, node=i, observed_T=T, expected_T=Tstar, streams=streams))
    # --- ambient temperature column: the pipe's text_k, else the resolved option (the value the caller supplied)
    exp_amb = amb[1] if amb else 293.15
    opt_amb = float(net["_options"]["ambient_temperature"])
    if not abs(opt_amb - exp_amb) <= 1e-12:
        ctx.violation({"clause": "branch_cooling_law", "ambient": "option-resolution"},
                      "ambient_temperature supplied as %s resolves to %r" % (replay["ambient"], opt_amb), replay)
    bpf = net["_pit"]["branch"]
    for tbl, (f, t) in net["_lookups"]["branch_from_to"].items():
        if tbl == "pipe":
            tk = net.pipe.text_k.values.astype(float)
            want = np.repeat(np.where(np.isnan(tk), exp_amb, tk), net.pipe.sections.values.astype(int))
        else:
            want = np.full(t - f, exp_amb)
        got = bpf[f:t, ib.TEXT]
        ctx.count("ambient_rows_checked", t - f)
        if tbl == "pipe":
            ctx.count("pipes_without_text_k", int(np.sum(np.isnan(tk))))
        if len(want) != len(got) or not np.all(np.abs(want - got) <= 1e-12):
            k = int(np.argmax(np.abs(want - got))) if len(want) == len(got) else 0
            ctx.violation({"clause": "branch_cooling_law", "ambient": "TEXT-column", "table": tbl},
                          "%s row %d cools towards %r K, its ambient is %r K (text_k of the element, else the pipeflow option "
                          "ambient_temperature = %r supplied via %s)" % (tbl, k, float(got[k]) if len(got) else None,
                                                                        float(want[k]) if len(want) else None, exp_amb,
                                                                        replay["ambient"][0]), replay)
            break
    # --- cooling law per pit row (sections of pipes included)
    ident = identity_rows(net)
    cl = [(r, d, dat) for r, d, dat in M.cooling_law(net) if r not in ident]
    ctx.count("sections_checked", len(cl))
    ctx.count("sections_reverse_flow", sum(1 for _, _, dat in cl if dat["switched"]))
    bad = [x for x in cl if not abs(x[1]) <= 1e-6]
    if bad:
        r, d, dat = max(bad, key=lambda x: abs(x[1]) if x[1] == x[1] else 1e9)
        ctx.violation({"clause": "branch_cooling_law", "reverse_flow": dat["switched"]},
                      "outlet temperature of a flowing section deviates from the documented law by %.6f K (%s)" % (d, dat),
                      dict(replay, row=r, data=dat))
    ps = M.pipe_sections_from_results(net)
    ctx.count("sections_checked_from_result_tables", len(ps))
    badp = [p for p in ps if not abs(p[2]) <= 1e-6]
    if badp:
        ctx.violation({"clause": "branch_cooling_law", "observed_at": "res_pipe+get_internal_results"},
                      "pipe %s section %s: reported temperatures deviate from the documented law by %s K" % badp[0],
                      dict(replay, pipe=badp[0][0], section=badp[0][1]))
    # --- feeders
    npit = net["_pit"]["node"]
    if "ext_grid" in net:
        for lab, row in net.ext_grid.iterrows():
            if row.in_service and "t" in str(row.type):
                t = float(net.res_junction.at[row.junction, "t_k"])
                same = [r2.t_k for _, r2 in net.ext_grid.iterrows() if r2.junction == row.junction and r2.in_service
                        and "t" in str(r2.type)]
                exp = sum(same) / len(same)
                ctx.count("feeders_checked")
                if not abs(t - exp) <= 1e-9:
                    ctx.violation({"clause": "infeed_rows_fix_temperature", "element": "ext_grid"},
                                  "temperature-fixing ext_grid %s (t_k=%s) but junction %s has %.9f K" % (lab, exp, row.junction, t),
                                  dict(replay, ext_grid=int(lab)))
    for tbl in ("circ_pump_pressure", "circ_pump_mass"):
        if tbl in net and len(net[tbl]):
            for lab, row in net[tbl].iterrows():
                if not row.in_service:
                    continue
                tout = float(net["res_" + tbl].at[lab, "t_outlet_k"])
                ctx.count("feeders_checked")
                if not abs(tout - row.t_flow_k) <= 1e-9:
                    ctx.violation({"clause": "infeed_rows_fix_temperature", "element": tbl},
                                  "circulation pump %s (t_flow_k=%s) feeds %.9f K" % (lab, row.t_flow_k, tout),
                                  dict(replay, pump=int(lab)))
                # the flow junction carries the pump temperature when the pump is its only inflow
                inflows = [e for e in M.energy_balance(net)]
                jn = net["_lookups"]["node_index"]["junction"][row.flow_junction]
                for i, res, scale, k, T, streams in inflows:
                    if i == jn and k == 1 and not abs(T - row.t_flow_k) <= 1e-9:
                        ctx.violation({"clause": "infeed_rows_fix_temperature", "element": tbl, "at": "flow_junction"},
                                      "flow junction of circulation pump %s has %.9f K, pump feeds %s" % (lab, T, row.t_flow_k),
                                      dict(replay, pump=int(lab)))
    # --- bounds without heat sources
    if not spec.get("heat_sources", True):
        feeds = [float(r.t_k) for _, r in net.ext_grid.iterrows() if r.in_service]
        ambs = [float(x) for x in net.pipe.text_k.values if x == x] + \
               ([float(net["_options"]["ambient_temperature"])] if np.any(np.isnan(net.pipe.text_k.values)) else [])
        na, ba = M.active_masks(net)
        bp = net["_pit"]["branch"]
        fl = M.flowing(bp) & ba
        lossy = np.any(bp[fl, ib.ALPHA] > 0)
        lo, hi = min(feeds + (ambs if lossy else [])), max(feeds + (ambs if lossy else []))
        has_flow = np.zeros(len(npit), bool)
        fnc, tnc = M.corrected(bp)
        has_flow[fnc[fl]] = True
        has_flow[tnc[fl]] = True
        temps = list(npit[na & has_flow, inode.TINIT]) + list(bp[fl, ib.TOUTINIT])
        ctx.count("bounds_nets")
        # hypothesis of theorem global_bounds_acyclic, observed: the flow graph of a net without pumps is acyclic
        succ = {}
        for a, b in zip(fnc[fl], tnc[fl]):
            succ.setdefault(int(a), set()).add(int(b))
        indeg = {}
        for a in succ:
            for b in succ[a]:
                indeg[b] = indeg.get(b, 0) + 1
        todo = [a for a in set(succ) | set(indeg) if indeg.get(a, 0) == 0]
        seen = 0
        while todo:
            a = todo.pop()
            seen += 1
            for b in succ.get(a, ()):
                indeg[b] -= 1
                if indeg[b] == 0:
                    todo.append(b)
        ctx.count("flow_graph_acyclic" if seen == len(set(succ) | set(indeg)) else "flow_graph_cyclic")
        if temps and not (min(temps) >= lo - 1e-7 and max(temps) <= hi + 1e-7):
            ctx.violation({"clause": "global_bounds"},
                          "without heat sources a temperature lies outside [%.4f, %.4f] (feeds %s, ambient %s): min %.6f max %.6f"
                          % (lo, hi, feeds, sorted(set(ambs)), min(temps), max(temps)), replay)
    return len(ctx.violations) + len(ctx.known_hits) - n0


def gen_specs(ctx, n):
    rng = ctx.rng
    specs = [c10_gen.mixing_witness()]
    # loops next to a pressure-only fed part (thermal active set strictly smaller than the hydraulic one), both modes
    for md in ("bidirectional", "sequential"):
        specs.append(dict(c10_gen.loop(rng, p_only=True, pump="pressure"), force_mode=md))
    kinds = [c10_gen.star, c10_gen.star, c10_gen.mesh, c10_gen.loop]
    for i in range(n - 3):
        if i % 5 == 4:
            specs.append(dict(hgen.gen_net(rng, "heat"), kind="heat-profile", heat_sources=True))
        else:
            specs.append(kinds[i % len(kinds)](rng))
    return specs


def explore(ctx, n_nets, n_numba, with_corr=True):
    import pandapipes as pp  # noqa: F401
    rng = ctx.rng
    specs = gen_specs(ctx, n_nets)
    captured = []
    conv = 0
    for i, spec in enumerate(specs):
        numba = i >= len(specs) - n_numba
        mode = "sequential" if i == 0 else rng.choice(["sequential", "bidirectional"])
        mode = spec.get("force_mode", mode)
        try:
            net = hgen.build(spec)
        except Exception as e:  # noqa: BLE001
            ctx.note("generator produced an unbuildable spec: %r" % (e,))
            continue
        cap = []
        amb = None if i == 0 else rng.choice([None, ("call", 278.15), ("call", 303.15), ("user", 281.15), ("user", 299.15)])
        ctx.count("ambient_via_" + (amb[0] if amb else "default"))
        r = run_pipeflow(net, mode, numba, cap, amb)
        ctx.count("pipeflow_" + r)
        ctx.count("mode_" + mode)
        ctx.count("kind_" + spec.get("kind", "?"))
        ctx.count("numba_" + str(numba))
        if cap and with_corr and len(captured) < (32 if ctx.quick else 200) and len(cap[0][0]) <= 40:
            captured.append((spec, net, cap[0][0], cap[0][1], numba))
        report_unexpected(ctx, spec, mode, numba, r)
        if r != "ok":
            continue
        conv += 1
        nt = spec.get("kind") != "witness"
        ctx.case({"kind": "monitor", "net": spec.get("kind"), "mode": mode, "numba": numba,
                  "ops": len(spec["ops"]), "h": json.dumps(spec, sort_keys=True, default=str)}, nontrivial=nt)
        monitor_net(ctx, spec, net, mode, numba, amb=amb)
        # mode "heat" on the stored hydraulic solution must give the same temperatures (reverse flow included)
        if i % 2 == 0 and mode == "sequential":
            ref = net.res_junction.t_k.values.copy()
            net2 = hgen.build(spec)
            r2 = run_pipeflow(net2, "heat", numba, None, amb)
            ctx.count("pipeflow_heat_" + r2)
            report_unexpected(ctx, spec, "heat", numba, r2)
            if r2 == "ok":
                ctx.case({"kind": "monitor", "net": spec.get("kind"), "mode": "heat", "numba": numba,
                          "h": json.dumps(spec, sort_keys=True, default=str)}, nontrivial=nt)
                monitor_net(ctx, spec, net2, "heat", numba, amb=amb)
                t2 = net2.res_junction.t_k.values
                d = np.nanmax(np.abs(t2 - ref)) if len(ref) else 0.0
                if not d <= 1e-6 or np.any(np.isnan(t2) != np.isnan(ref)):
                    j = int(np.nanargmax(np.abs(t2 - ref)))
                    ctx.violation({"clause": "direction_switch", "calc_mode": "heat"},
                                  "mode='heat' on the stored hydraulic solution gives junction %s %.6f K, sequential mode %.6f K"
                                  % (net.junction.index[j], t2[j], ref[j]),
                                  {"spec": spec, "mode": "heat", "use_numba": numba, "options": TIGHT})
            elif r2 in EXPECTED_FAILURES:
                ctx.violation({"clause": "direction_switch", "calc_mode": "heat", "outcome": "not-converged"},
                              "mode='heat' on the stored hydraulic solution does not converge although sequential mode "
                              "converges on the same net", {"spec": spec, "mode": "heat", "use_numba": numba, "options": TIGHT})
    ctx.count("converged_nets", conv)
    return captured


def gen_if_needed(ctx, name, text):
    """ctx.gen takes the shared build lock; skip it when the generated text is already on disk unchanged"""
    import vlib
    path = os.path.join(getattr(vlib, "COQ", os.path.join(vlib.VERIF, "coq")), "Gen", name + ".v")
    try:
        if open(path).read() == text:
            return path
    except OSError:
        pass
    return ctx.gen(name, text)


def run(ctx):
    ctx.extra["rule"] = ("monitor nets: seeded star / mesh / loop / shared heat-profile networks plus the fixed two-stream "
                         "witness; distinct = canonical JSON of the build spec + mode + numba; non-trivial = everything but "
                         "the fixed witness. correspondence cases: real thermal active pits of those nets, numeric columns "
                         "overwritten with integers in [-9, 9], direction flags / stagnant branches / T-typing / infeed "
                         "patterns varied; distinct = hash of the integer case; non-trivial = >= 3 branches and a switched "
                         "branch or a non-real typing variant")
    import time
    t0 = time.time()
    ph = ctx.extra.setdefault("phase_s", {})
    for name, fn in GEN:
        try:
            gen_if_needed(ctx, name, fn())
        except Exception as e:  # noqa: BLE001
            ctx.broken("translator", name, repr(e))
    ph["gen"] = round(time.time() - t0, 1)
    # the Coq build (which may wait for the shared build lock) runs while the monitors run
    import threading
    res = {}
    th = threading.Thread(target=lambda: res.__setitem__("proved", ctx.prove("C10")))
    th.start()
    n_nets, n_numba = (50, 6) if ctx.quick else (400, 120)
    import vlib
    coqdir = getattr(vlib, "COQ", os.path.join(vlib.VERIF, "coq"))

    def model_fresh():
        try:
            return os.path.getmtime(os.path.join(coqdir, "C10", "Model.vo")) > os.path.getmtime(os.path.join(coqdir, "C10", "Model.v"))
        except OSError:
            return False
    fresh = model_fresh()          # the correspondence only needs C10/Model.vo: if it is up to date, do not wait for the build
    captured = []
    try:
        captured = explore(ctx, n_nets, n_numba)
        ph["monitors"] = round(time.time() - t0, 1)
        if captured and fresh:
            correspondence(ctx, captured)
            ph["correspondence"] = round(time.time() - t0, 1)
    finally:
        th.join()
        ph["build_joined"] = round(time.time() - t0, 1)
    proved = res.get("proved", False)
    if captured and not fresh:
        correspondence(ctx, captured)
        ph["correspondence"] = round(time.time() - t0, 1)
    if not captured:
        ctx.broken("correspondence", "no thermal pit could be captured", "")
    if (not proved or ctx.brokens) and not ctx.violations:
        # failing-input search: a wider monitor sweep
        ctx.note("an obligation / correspondence broke: widening the monitor sweep")
        explore(ctx, 150, 10, with_corr=False)


def replay(ctx, path):
    obj = json.load(open(path))
    rp = obj["replay"]
    spec = rp["spec"]
    net = hgen.build(spec)
    if "case" in rp:
        cap = []
        run_pipeflow(net, "sequential", False, cap)
        ctx.note("correspondence replays re-run the full correspondence on this net")
        if cap:
            correspondence(ctx, [(spec, net, cap[0][0], cap[0][1], False)])
        return
    amb = tuple(rp["ambient"]) if rp.get("ambient") and rp["ambient"][0] != "default" else None
    r = run_pipeflow(net, rp.get("mode", "sequential"), rp.get("use_numba", False), None, amb)
    if r != "ok":
        ctx.note("replay: pipeflow -> " + r)
        return
    monitor_net(ctx, spec, net, rp.get("mode", "sequential"), rp.get("use_numba", False), amb=amb)
