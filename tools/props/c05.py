"""C05 - a returned result is converged and finite; a failed run leaves no results (DESIGN.md 4/C05).

T-tie : Gen/StageWiring.v regenerated from pipeflow.py (names / tolerances / pit names handed to
        newton_raphson vs the (new, old) pairs the stage's solve function returns; statement skeletons of
        the stage functions, of pipeflow and of rerun_*); wiring theorem re-proved over it.
H-tie : (a) coq/C05/Model.v `newton_v` vs the REAL newton_raphson / finalize_iteration /
        set_damping_factor driven by scripted solve functions (exact: dyadic vectors, NaN, inf,
        oscillation, growth, late convergence, both damping methods) - compared inside Coq on
        (converged, niter, alpha, error history, restored variables);
        (b) `pipeflow` model vs real pipeflow on generated nets over sequences of calls on ONE net
        object (feasible / no supply / fighting controllers / NaN set-points / huge demand / tiny
        budgets, all four modes): the recorded per-iteration observations are replayed by the model,
        (outcome, net.converged, tables all-NaN / written) compared inside Coq.
Monitors / search: the property's own words on every scripted run and every real run; scripted solve
        functions under the real stage functions (one unknown jumping per probe).
"""
import copy
import math
import os
import sys
from concurrent.futures import ThreadPoolExecutor

sys.path.insert(0, os.path.dirname(os.path.dirname(os.path.abspath(__file__))))
from vlib import cbool, clist, cq  # noqa: E402
from translate import stagewiring as tsw  # noqa: E402

CLAIM = {
    "text": "Unbounded theorems (21, all axiom-free) about an executable Coq model of the Newton driver (newton_raphson / "
            "finalize_iteration / set_damping_factor), the three stage functions and pipeflow, for every observation oracle, "
            "budget, tolerance setting, event pattern and prior net state: at most max_iter iterations; converged implies that "
            "in the last iteration every error and the residual were within tolerance and, with automatic damping, alpha = 1; "
            "at vector level (any shape) an error within a finite tolerance makes every component of the new and old vectors a "
            "number, a NaN change or a NaN in the linear solution makes the error NaN, and (with C04's write-back theorem) "
            "every row marked supplied receives a number, every other row NaN; both damping strategies accept an iteration "
            "only through the same tolerance test (damping_same_fixed_points); alpha stays on {1, 0.1, 0.01}, falls only if "
            "all errors grew, recovers x10; exactly the rejected variables are restored; pipeflow returns only if every "
            "executed loop converged, with converged = True and tables written by the final extraction; "
            "PipeflowNotConverged - and any other exception once the set-up phase is through, incl. exceptions during "
            "extraction and exceptions escaping from a Newton loop - leaves converged = False and all-NaN tables; "
            "_internal_data is dropped however a stage ends. The stage wiring theorems (every (new, old) pair returned by a "
            "solve function is named, tested against its own tolerance, restored into its own pit column; where the restore "
            "lands) and the control-flow skeletons are re-proved over tables regenerated from pipeflow.py on every run. The "
            "hand model is tied by exact correspondence with the real driver under scripted solve functions and with real "
            "pipeflow call sequences on generated nets (recorded iterations replayed inside Coq).",
    "note": "All theorems are closed under the global context (Print Assumptions; coqchk in the thorough tier); PrimFloat "
            "primitives occur only in the Example pinning the alpha ladder to IEEE doubles. Kept visible as refuted / partial: "
            "post_loop_exception_keeps_converged_flag_refuted (an exception raised inside a stage after its loop converged - "
            "rerun_*, extract_results_active_pit - is outside pipeflow's try/except and leaves converged = True; no API input "
            "reaches it today; pipeflow_outcome excludes it by the named hypothesis nopost_env); "
            "bidirectional_restore_targets_other_pit_refuted with restore_targets_own_pit_partial / "
            "bidirectional_restore_guarantee (known finding C05-bidirectional-automatic-restore-shape: hydraulic vectors of the "
            "bidirectional stage are restored into the heat-transfer active pit; ValueError when the pits differ in size). "
            "Hypotheses: tolerance list at least as long as the variable list and (new, old) of equal length - both are facts "
            "of the generated wiring table / of the real solve functions, exercised by the correspondence; finite tolerances "
            "for the finiteness theorem (an infinite or NaN user tolerance is the user's choice). Exceptions raised before "
            "net.converged = False (init_options, create_lookups, initialize_pit) keep the old flag (modelled, outside the "
            "property's wording). Monitored only, not proved: that the solve functions report honest changes / residuals "
            "(C01/C02/C10); finiteness of derived result columns computed from the primary unknowns by extract_all_results "
            "(the theorem covers the primary unknowns p, mdot, T, T_out written back by extract_results_active_pit); the "
            "old copy being taken before the update is checked syntactically by the translator only.",
    "technique": "Coq proof over hand-written state-machine model + generated wiring table + exact model/implementation "
                 "correspondence (scripted iterations, recorded real runs)",
    "design": "DESIGN.md 4/C05 + design_notes/C05.md",
}
GEN = [("StageWiring", lambda: tsw.generate()[0])]

_SEEN = set()


def report(ctx, sig, what, replay):
    """ctx.violation once per signature (every call writes a replay file)"""
    import json
    key = json.dumps(sig, sort_keys=True, default=str)
    if key in _SEEN:
        return
    _SEEN.add(key)
    ctx.violation(sig, what, replay)


HEADER = ("From Coq Require Import String QArith List ZArith.\nFrom PP Require Import C05.Model.\n"
          "Import ListNotations.\n")

# wiring used by the failing-input search when the translator cannot read the source any more
FALLBACK_PAIRS = {
    "solve_hydraulics": [("branch", "MDOTINIT", None), ("node", "PINIT", None), ("node", "MDOTSLACKINIT", "slack_nodes")],
    "solve_temperature": [("branch", "TOUTINIT", None), ("node", "TINIT", None)],
}


def fallback_wiring():
    def pairs(l):
        return [{"new": p, "old": p, "filter": p[2]} for p in l]
    hy, ht = FALLBACK_PAIRS["solve_hydraulics"], FALLBACK_PAIRS["solve_temperature"]
    return [{"name": "hydraulics", "solver": "solve_hydraulics", "vars": ["?"], "pairs": pairs(hy)},
            {"name": "heat_transfer", "solver": "solve_temperature", "vars": ["?"], "pairs": pairs(ht)},
            {"name": "bidirectional", "solver": "solve_bidirectional", "vars": ["?"], "pairs": pairs(hy + ht)}]


# ================================================================================================ driver
def driver_signature(c, clause):
    sig = {"clause": clause, "level": "driver", "fn": "newton_raphson"}
    if clause == "nan_never_counts":
        sig["shape"] = "all result vectors of equal length (2-D object array)" \
            if c["shape"] in ("rect", "rect1") or len(set(c["lengths"])) <= 1 else "ragged"
    return sig


def driver_correspondence(ctx, n_cases):
    from harness import c05_driver as D
    rng = ctx.rng
    cases = []
    for _ in range(n_cases):
        c = D.gen_driver_case(rng, thorough=not ctx.quick)
        r = D.run_driver_case(c)
        cases.append((c, r))
        nontrivial = r["niter"] >= 2 or r["converged"]
        ctx.case({"driver_case": {k: c[k] for k in ("method", "max_iter", "vars", "tols", "tol_res", "alpha0", "shape", "style")},
                  "observed": {k: r[k] for k in ("converged", "niter", "alpha")}}, nontrivial, key="drv:%d" % c["seed"])
        ctx.count("driver:%s:%s" % (c["method"], "converged" if r["converged"] else "not_converged"))
        ctx.count("driver_shape:" + c["shape"])
        if any(any(isinstance(x, float) and math.isnan(x) for x in h) for h in r["hist"]):
            ctx.count("driver:history_with_nan")
        # the property's own words on the real run (monitor)
        for clause, text in D.driver_oracle(c, r)[:1]:
            sig = driver_signature(c, clause)
            report(ctx, sig, "scripted solve function under the real newton_raphson: " + text,
                          {"kind": "driver", "case": c, "script": r["script"], "observed":
                              {k: r[k] for k in ("converged", "niter", "alpha", "hist", "codes", "alphas", "exception")}})
    size = 250
    chunks = [cases[s:s + size] for s in range(0, len(cases), size)]

    def ev(i):
        txt = HEADER + "Definition cs : list dcase := [\n%s\n].\nEval vm_compute in (summary dcase_ok cs).\n" % \
            ";\n".join(D.case_to_coq(c, r) for c, r in chunks[i])
        return ctx.coq_counts(txt, "driver_cases_%d" % i)
    with ThreadPoolExecutor(max_workers=8) as ex:
        results = list(ex.map(ev, range(len(chunks))))
    n_tot = n_mis = 0
    for i, (trip, out) in enumerate(results):
        if not trip:
            ctx.broken("correspondence", "C05.newton_v vs newton_raphson (coqc failed)", out[-800:])
            continue
        n, m, first = trip[0]
        n_tot += n
        n_mis += m
        if m:
            c, r = chunks[i][first]
            bad = D.driver_oracle(c, r)
            rep = {"kind": "driver", "case": c, "script": r["script"],
                   "observed": {k: r[k] for k in ("converged", "niter", "alpha", "hist", "codes", "alphas", "exception")}}
            if bad:
                report(ctx, driver_signature(c, bad[0][0]),
                              "scripted solve function under the real newton_raphson: " + bad[0][1], rep)
            elif len([b for b in ctx.brokens if b[1] == "C05.newton_v vs newton_raphson"]) < 3:
                ctx.broken("correspondence", "C05.newton_v vs newton_raphson",
                           "model and implementation differ on a scripted run (method %s, max_iter %d, observed converged=%s "
                           "niter=%s alpha=%s) but the run itself satisfies the property statement; replay: %s"
                           % (c["method"], c["max_iter"], r["converged"], r["niter"], r["alpha"], ctx.replay_path(rep)))
    ctx.corr("C05.Model.newton_v == pandapipes.pipeflow.newton_raphson under scripted solve functions "
             "(converged, niter, alpha, error history, restored variables)", n_tot, n_mis)


# ================================================================================================ stage probes
def run_stage_probes(ctx, wiring):
    from harness import c05_driver as D
    res = D.stage_probes(wiring)
    n_bad = 0
    for p in res:
        ctx.case({"stage_probe": {k: p.get(k) for k in ("stage", "pair", "col", "what", "method")},
                  "outcome": p["outcome"]}, True,
                 key="probe:%s:%s:%s:%s" % (p["stage"], p["pair"], p["what"], p["method"]))
        ctx.count("stage_probe:" + p["stage"])
        if p["outcome"] != p["expect"]:
            n_bad += 1
            if p["outcome"] == "return":
                what = ("scripted iteration under the real %s(): only unknown #%d (%s) changes, by %r per iteration, every "
                        "iteration; the stage reports convergence after %d iteration(s) (net.converged=%s); names passed to "
                        "newton_raphson: %r for %d (new, old) pairs"
                        % (p["stage"], p["pair"], p["col"], p.get("change"), p["niter"], p.get("converged"), p.get("vars"),
                           len([w for w in wiring if w["name"] == p["stage"]][0]["pairs"])))
                if p["col"] == "TINIT" and p["what"] == "jump10":
                    what = "node temperature jumping by 10 K per iteration reported converged: " + what
                report(ctx, {"stage": p["stage"], "clause": "stage_wiring", "pair": p["pair"], "col": p["col"],
                               "probe": p["what"]}, what, {"kind": "stage_probe", "probe": p})
            elif p["outcome"] == "raise":
                report(ctx, {"stage": p["stage"], "clause": "stage_wiring_too_strict", "pair": p["pair"], "col": p["col"],
                               "probe": p["what"]},
                              "scripted iteration under the real %s(): unknown #%d (%s) changes by half its own tolerance "
                              "and nothing else changes, yet the stage raises PipeflowNotConverged" % (p["stage"], p["pair"], p["col"]),
                              {"kind": "stage_probe", "probe": p})
            else:
                ctx.broken("harness", "stage probe %s/%s" % (p["stage"], p["pair"]), p["outcome"])
    ctx.corr("scripted solve functions under the real stage functions (one unknown moving per probe): outcome as the "
             "wiring theorem predicts", len(res), n_bad)


# ================================================================================================ pipeflow level
FRESH = "{| n_conv := false; n_tables := AllNaN; n_hyd_flag := false; n_idata := false; n_alpha := 1 |}"
MODES = {"hydraulics": "MHydraulics", "heat": "MHeat", "sequential": "MSequential", "bidirectional": "MBidirectional"}


def gen_scenario(rng, quick):
    from harness import gen
    profile = rng.choice(["water", "water", "gas", "heat", "heat"])
    size = rng.randint(2, 6) if profile != "heat" else rng.randint(1, 3)
    spec = gen.gen_net(rng, profile, size)
    if profile == "gas":
        modes = ["hydraulics", "hydraulics", "sequential"]
    elif profile == "water":
        modes = ["hydraulics", "sequential", "bidirectional", "heat"]
    else:
        modes = ["sequential", "bidirectional", "hydraulics", "heat", "sequential"]
    muts = ["none", "none", "none", "iter1", "iter2", "no_supply", "nan_load", "huge_load", "tol_tiny", "bad_mode",
            "nan_pressure", "oos_all_junctions"]
    if profile in ("water", "gas"):
        muts += ["two_pc", "two_pc"]
    muts += ["oos_twin_supply", "oos_twin_supply"]
    if profile == "heat":
        muts += ["second_pump", "second_pump", "nan_tflow", "oos_twin_supply"]
    steps = []
    for _ in range(rng.randint(2, 5)):
        steps.append({"mut": rng.choice(muts), "mode": rng.choice(modes),
                      "method": rng.choice(["automatic", "automatic", "constant"])})
    return {"spec": spec, "profile": profile, "steps": steps, "pick": rng.getrandbits(30)}


def gen_p_only_island(rng, fixed=None):
    """directed family: a second island supplied by a pressure-only ext grid (type "p") is calculated
    hydraulically but not thermally, so the heat-transfer active pit is smaller than the hydraulic one"""
    pn, t0 = rng.choice([5.0, 0.2, 60.0]), rng.choice([300., 283.15, 600.])
    md, d = rng.choice([0.05, 1.0, 8.0]), rng.choice([40., 80.])
    if fixed:
        pn, t0, md, d = fixed
    ops = [["create_junction", {"pn_bar": pn, "tfluid_k": t0, "index": i}] for i in range(5)]

    def pipe(i, a, b, sections=1):
        return ["create_pipe_from_parameters", {"from_junction": a, "to_junction": b, "length_km": 0.5, "inner_diameter_mm": d,
                                                "k_mm": 0.1, "u_w_per_m2k": 2.0, "text_k": 283.15, "sections": sections, "index": i}]
    ops += [["create_ext_grid", {"junction": 0, "p_bar": 5.0, "t_k": 350.0, "type": "pt", "index": 0}],
            pipe(0, 0, 1, 3), pipe(1, 1, 2), ["create_sink", {"junction": 2, "mdot_kg_per_s": md, "index": 0}],
            ["create_ext_grid", {"junction": 3, "p_bar": 5.0, "type": "p", "index": 1}],
            pipe(2, 3, 4), ["create_sink", {"junction": 4, "mdot_kg_per_s": md, "index": 1}]]
    steps = [{"mut": "none", "mode": m, "method": meth} for m, meth in
             rng.sample([("bidirectional", "automatic"), ("bidirectional", "constant"), ("sequential", "automatic"),
                         ("bidirectional", "automatic")], 3)]
    if fixed:
        steps = [{"mut": "none", "mode": "bidirectional", "method": "automatic"},
                 {"mut": "none", "mode": "bidirectional", "method": "constant"}]
    return {"spec": {"fluid": "water", "ops": ops}, "profile": "water_p_only_island", "steps": steps,
            "pick": rng.getrandbits(30) if not fixed else 0}


# fixed corpus (own PRNG, runs first on every seed): literal witnesses of every finding listed in known/C05.json
CORPUS = [lambda: gen_p_only_island(__import__("random").Random(5), fixed=(5.0, 300.0, 0.05, 40.0))]


def gen_thermal_failure(rng):
    """directed family: the hydraulic stage converges, the thermal stage fails in one of its possible places
    (connectivity identification: no temperature feed / feed out of service; check_infeed_number: a source
    without temperature feeds next to the ext grid; NaN in the thermal solve; thermal iteration budget), in modes sequential,
    bidirectional and heat, on a fresh net or after a successful run"""
    kind = rng.choice(["p_only", "t_feed_oos", "extra_infeed", "nan_u", "nan_tfeed", "therm_budget"])
    n = rng.randint(3, 5) if kind != "extra_infeed" else rng.randint(4, 5)
    md, d = rng.choice([0.3, 0.5, 1.0]), rng.choice([60., 80., 100.])
    ops = [["create_junction", {"pn_bar": 4.0, "tfluid_k": rng.choice([300., 330.]), "index": i}] for i in range(n)]
    for i in range(1, n):
        a = rng.randrange(0, i)
        ops.append(["create_pipe_from_parameters", {"from_junction": a, "to_junction": i, "length_km": rng.choice([0.1, 0.3]),
                                                    "inner_diameter_mm": d, "k_mm": 0.1, "u_w_per_m2k": rng.choice([1.0, 5.0]),
                                                    "text_k": 283.15, "sections": rng.choice([1, 2]), "index": i - 1}])
    if n > 3 and rng.random() < 0.5 and kind != "extra_infeed":
        ops.append(["create_pipe_from_parameters", {"from_junction": 1, "to_junction": n - 1, "length_km": 0.2, "inner_diameter_mm": d,
                                                    "k_mm": 0.1, "u_w_per_m2k": 1.0, "text_k": 283.15, "sections": 1, "index": n}])
    for i in range(1, n):
        ops.append(["create_sink", {"junction": i, "mdot_kg_per_s": md * (rng.choice([0.5, 1.0]) if kind != "extra_infeed" else 1.0),
                                    "index": i - 1}])
    if kind == "p_only":
        ops.append(["create_ext_grid", {"junction": 0, "p_bar": 4.0, "type": "p", "index": 0}])
    elif kind == "t_feed_oos":
        ops.append(["create_ext_grid", {"junction": 0, "p_bar": 4.0, "type": "p", "index": 0}])
        ops.append(["create_ext_grid", {"junction": rng.randrange(n), "p_bar": 4.0, "t_k": 350.0, "type": rng.choice(["pt", "t"]),
                                        "in_service": False, "index": 1}])
    elif kind == "extra_infeed":
        # a leaf junction injects more than it draws: a second infeed node without a temperature
        ops.append(["create_ext_grid", {"junction": 0, "p_bar": 4.0, "t_k": 350.0, "type": "pt", "index": 0}])
        ops.append(["create_source", {"junction": n - 1, "mdot_kg_per_s": 1.5 * md, "index": 0}])
    else:
        ops.append(["create_ext_grid", {"junction": 0, "p_bar": 4.0, "t_k": 350.0, "type": "pt", "index": 0}])
    mut = {"nan_u": "nan_u", "nan_tfeed": "nan_tflow", "therm_budget": "therm_budget"}.get(kind, "none")
    steps = []
    if rng.random() < 0.6:                                   # after a successful run ...
        steps.append({"mut": "none", "mode": "hydraulics" if mut == "none" else rng.choice(["hydraulics", "sequential"]),
                      "method": rng.choice(["automatic", "constant"])})
    for _ in range(rng.randint(1, 2)):                       # ... or on the fresh net
        steps.append({"mut": mut, "mode": rng.choice(["sequential", "sequential", "bidirectional", "heat"]),
                      "method": rng.choice(["automatic", "constant"])})
    if rng.random() < 0.4:
        steps.append({"mut": "none", "mode": "hydraulics", "method": "constant"})
    return {"spec": {"fluid": "water", "ops": ops}, "profile": "thermal_failure:" + kind, "steps": steps,
            "pick": rng.getrandbits(30)}


BENIGN = ("oos_twin_supply",)       # mutations that add only out-of-service elements
DRIVER_FUNCS = ("pipeflow.py:newton_raphson", "pipeflow.py:finalize_iteration", "pipeflow.py:set_damping_factor")


def apply_mutation(net, mut, pick):
    """edit the user tables of the live net; returns (options, undo)"""
    import pandapipes as pp
    opts, undo = {}, []

    def setcol(tbl, col, val, rows=None):
        if tbl not in net or not len(net[tbl]):
            return
        idx = list(net[tbl].index) if rows is None else rows
        old = net[tbl].loc[idx, col].copy()
        net[tbl].loc[idx, col] = val

        def f():
            net[tbl].loc[idx, col] = old.values
        undo.append(f)

    def drop_added(tbl, n_before):
        def f():
            if tbl in net and len(net[tbl]) > n_before:
                net[tbl].drop(net[tbl].index[n_before:], inplace=True)
        undo.append(f)
    if mut == "iter1":
        opts["iter"] = 1
    elif mut == "iter2":
        opts["iter"] = 2
    elif mut == "tol_tiny":
        opts["tol_res"] = 1e-300
        opts["iter"] = 6
    elif mut == "therm_budget":
        opts.update(max_iter_hyd=40, max_iter_therm=1, max_iter_bidirect=1)
    elif mut == "nan_u":
        if len(net.pipe):
            setcol("pipe", "u_w_per_m2k", float("nan"), [net.pipe.index[pick % len(net.pipe)]])
    elif mut == "nan_text":
        if len(net.pipe):
            setcol("pipe", "text_k", float("nan"), [net.pipe.index[pick % len(net.pipe)]])
    elif mut == "no_supply":
        for t in ("ext_grid", "circ_pump_pressure", "circ_pump_mass"):
            setcol(t, "in_service", False)
    elif mut == "oos_all_junctions":
        setcol("junction", "in_service", False)
    elif mut == "nan_load":
        for t, c in (("sink", "mdot_kg_per_s"), ("heat_consumer", "qext_w"), ("source", "mdot_kg_per_s"),
                     ("heat_exchanger", "qext_w")):
            if t in net and len(net[t]):
                setcol(t, c, float("nan"), [net[t].index[pick % len(net[t])]])
                break
    elif mut == "huge_load":
        for t, c in (("sink", "mdot_kg_per_s"), ("heat_consumer", "controlled_mdot_kg_per_s"),
                     ("flow_control", "controlled_mdot_kg_per_s")):
            if t in net and len(net[t]):
                setcol(t, c, 5.0e4, [net[t].index[pick % len(net[t])]])
                break
    elif mut == "nan_pressure":
        for t, c in (("ext_grid", "p_bar"), ("circ_pump_pressure", "p_flow_bar"), ("circ_pump_mass", "p_flow_bar")):
            if t in net and len(net[t]):
                setcol(t, c, float("nan"), [net[t].index[0]])
                break
    elif mut == "nan_tflow":
        for t, c in (("circ_pump_pressure", "t_flow_k"), ("circ_pump_mass", "t_flow_k"), ("ext_grid", "t_k")):
            if t in net and len(net[t]):
                setcol(t, c, float("nan"), [net[t].index[0]])
                break
    elif mut == "two_pc" and len(net.pipe):
        r = net.pipe.iloc[pick % len(net.pipe)]
        n0 = len(net.press_control) if "press_control" in net else 0
        drop_added("press_control", n0)
        try:
            for p in (4.0, 2.0):
                pp.create_pressure_control(net, int(r.from_junction), int(r.to_junction), int(r.to_junction), p)
        except Exception:  # noqa: BLE001 - controllability pre-check of create_pressure_control refused / failed
            pass
    elif mut == "oos_twin_supply":
        # an out-of-service twin of every supply element, created right next to the in-service one
        for tbl in ("circ_pump_pressure", "circ_pump_mass", "ext_grid"):
            if tbl in net and len(net[tbl]):
                r = net[tbl].iloc[pick % len(net[tbl])]
                n0 = len(net[tbl])
                drop_added(tbl, n0)
                if tbl == "circ_pump_pressure":
                    pp.create_circ_pump_const_pressure(net, int(r.return_junction), int(r.flow_junction), p_flow_bar=float(r.p_flow_bar),
                                                       plift_bar=float(r.plift_bar), t_flow_k=float(r.t_flow_k), in_service=False)
                elif tbl == "circ_pump_mass":
                    pp.create_circ_pump_const_mass_flow(net, int(r.return_junction), int(r.flow_junction), p_flow_bar=float(r.p_flow_bar),
                                                        mdot_flow_kg_per_s=float(r.mdot_flow_kg_per_s), t_flow_k=float(r.t_flow_k),
                                                        in_service=False)
                else:
                    pp.create_ext_grid(net, int(r.junction), p_bar=float(r.p_bar), t_k=float(r.t_k), in_service=False)
    elif mut == "second_pump":
        tbl = "circ_pump_pressure" if len(net.circ_pump_pressure) else "circ_pump_mass"
        if len(net[tbl]):
            r = net[tbl].iloc[0]
            n0 = len(net.circ_pump_pressure)
            drop_added("circ_pump_pressure", n0)
            pp.create_circ_pump_const_pressure(net, int(r.return_junction), int(r.flow_junction),
                                               p_flow_bar=float(r.p_flow_bar), plift_bar=0.1, t_flow_k=float(r.t_flow_k))
    return opts, undo


def classify(exc, frames, runs):
    """which branch of the model's control flow the real run took -> (env flags, in_model)"""
    flags = dict(options_raise=False, setup_raise=False, unsupplied=False, conn_raise=False,
                 heat_unsupplied=False, extract_raise=False)
    if exc is None:
        return flags, True
    nc = type(exc).__name__ == "PipeflowNotConverged"
    in_stage = [f for f in frames if f in ("hydraulics", "heat_transfer", "bidirectional")]
    if "init_options" in frames:
        flags["options_raise"] = True
    elif any(f in frames for f in ("init_all_result_tables", "create_lookups", "initialize_pit")):
        flags["setup_raise"] = True
    elif "extract_all_results" in frames:
        flags["extract_raise"] = True
    elif "identify_active_nodes_branches" in frames and not in_stage:
        flags["unsupplied" if nc else "conn_raise"] = True
    elif in_stage and frames[-1] in ("hydraulics", "heat_transfer", "bidirectional") and nc:
        pass                                            # raised by the stage after its loop
    elif "heat_transfer" in in_stage and "identify_active_nodes_branches" in frames and nc and \
            "newton_raphson" not in frames:
        flags["heat_unsupplied"] = True
    elif "use_given_hydraulic_results" in frames or (frames and frames[-1] == "pipeflow"):
        pass                                            # hyd_flag test / bad mode: decided by the model
    elif in_stage and "newton_raphson" not in frames and \
            any(f in frames for f in ("rerun_hydraulics", "rerun_heat_transfer", "extract_results_active_pit")):
        # raised inside the stage after its loop converged (model transition ri_post)
        flags["post"] = ({"hydraulics": "hydraulics", "heat_transfer": "heat", "bidirectional": "bidirectional"}[in_stage[-1]],
                         "PostRerun" if any(f.startswith("rerun_") for f in frames) else "PostExtract")
    elif in_stage and "newton_raphson" in frames:
        # the exception escapes from inside a stage (solve function, reduce_pit ...): model transition ri_escape
        flags["escape"] = ({"hydraulics": "hydraulics", "heat_transfer": "heat", "bidirectional": "bidirectional"}[in_stage[-1]],
                           "EscNotConverged" if nc else "EscOther")
    else:
        return flags, False
    return flags, True


def call_step(net, st, pick, cache=None):
    """one pipeflow call of a scenario on the live net (mutation applied before, undone after)"""
    import numpy as np
    import pandapipes as pp
    from harness import c05_driver as D
    from pandapipes.idx_node import PINIT
    from pandapipes.idx_branch import MDOTINIT
    opts, undo = apply_mutation(net, st["mut"], pick)
    mode = "nonsense_mode" if st["mut"] == "bad_mode" else st["mode"]
    kw = dict(mode=mode, nonlinear_method=st["method"], use_numba=False, **opts)
    cache = cache if cache is not None else {}
    if mode == "heat" and cache.get("sol_vec") is not None:
        kw["sol_vec"] = cache["sol_vec"]
    exc, frames = None, []
    with D.Recorder() as rec:
        try:
            pp.pipeflow(net, **kw)
        except Exception as e:  # noqa: BLE001
            exc, frames = e, D.frames_of(e)
    for u in reversed(undo):
        try:
            u()
        except Exception:  # noqa: BLE001
            pass
    if exc is None and mode != "heat":
        cache["sol_vec"] = np.concatenate([net["_pit"]["node"][:, PINIT], net["_pit"]["branch"][:, MDOTINIT]])
    return mode, kw, exc, frames, rec.runs


def run_scenarios(ctx, n_scen):
    from harness import gen, drive
    from harness import c05_driver as D
    import numpy as np
    from pandapipes.idx_node import PINIT
    from pandapipes.idx_branch import MDOTINIT
    rng = ctx.rng
    seqs, meta = [], []
    n_calls = 0
    n_directed = max(4, n_scen // 20)
    n_thermal = max(21, n_scen // 6)
    for i_sc in range(-len(CORPUS), n_scen + n_directed + n_thermal):
        sc = CORPUS[i_sc + len(CORPUS)]() if i_sc < 0 else gen_scenario(rng, ctx.quick) if i_sc < n_scen else \
            gen_p_only_island(rng) if i_sc < n_scen + n_directed else gen_thermal_failure(rng)
        try:
            net = gen.build(sc["spec"])
        except Exception as e:  # noqa: BLE001
            ctx.note("generator produced an unbuildable net: %r" % (e,))
            continue
        calls, log, prev_tabs, cache = [], [], "AllNaN", {}
        start = FRESH
        for si, st in enumerate(sc["steps"]):
            mode, kw, exc, frames, runs = call_step(net, st, sc["pick"] + si, cache)
            n_calls += 1
            cls = "ok" if exc is None else type(exc).__name__
            conv = bool(net.converged)
            allnan = drive.all_results_nan(net)
            flags, in_model = classify(exc, frames, runs)
            if mode == "heat" and exc is not None and "use_given_hydraulic_results" in frames and \
                    type(exc).__name__ not in ("UserWarning", "KeyError", "AttributeError"):
                in_model = False
            ctx.count("pipeflow:%s:%s" % (mode if mode in MODES else "bad_mode", cls))
            ctx.count("mutation:" + st["mut"])
            if sc["profile"].startswith("thermal_failure"):
                ctx.count("%s:%s:%s" % (sc["profile"], mode, cls))
            entry = {"step": st, "options": {k: v for k, v in kw.items() if k != "sol_vec"}, "outcome": cls,
                     "message": "" if exc is None else str(exc)[:160], "converged": conv, "all_results_nan": allnan,
                     "frames": frames[-4:], "newton_runs": [(r["stage"], len(r["iters"]), r.get("conv")) for r in runs]}
            log.append(entry)
            ctx.case({"scenario": sc["profile"], "step": st, "outcome": cls}, st["mut"] != "none" or si > 0)
            replay = {"kind": "pipeflow_sequence", "spec": sc["spec"], "steps": sc["steps"][:si + 1], "pick": sc["pick"],
                      "log": log}
            # ---- the property's own words on this call (monitor) ----
            where = ""
            if exc is not None and exc.__traceback__ is not None:
                import traceback as tbm
                tb = [f for f in tbm.extract_tb(exc.__traceback__) if "pandapipes" in f.filename]
                if tb:
                    where = "%s:%s" % (os.path.basename(tb[-1].filename), tb[-1].name)
            if cls == "ok":
                monitor_success(ctx, net, mode, runs, replay)
            elif cls == "PipeflowNotConverged":
                if conv or not allnan:
                    report(ctx, {"clause": "failed_run_leaves_no_results", "exception": cls, "raised_in": where},
                                  "after PipeflowNotConverged (%s) net.converged=%s and result tables %s"
                                  % (where, conv, "all NaN" if allnan else "hold numbers"), replay)
                for r in runs:
                    if len(r["iters"]) > r["max_iter"]:
                        report(ctx, {"clause": "loop_terminates", "stage": r["stage"]},
                                      "%d iterations with a budget of %d" % (len(r["iters"]), r["max_iter"]), replay)
            else:
                if conv or not allnan:
                    report(ctx, {"clause": "failed_run_leaves_no_results", "exception": cls, "raised_in": where},
                                  "pipeflow raised %s (%s) and afterwards net.converged=%s and result tables %s"
                                  % (cls, where, conv, "are all NaN" if allnan else "hold numbers"), replay)
                if where in DRIVER_FUNCS:
                    report(ctx, {"clause": "fails_only_with_PipeflowNotConverged", "exception": cls, "raised_in": where,
                                 "mode": mode, "method": st["method"]},
                           "the Newton driver itself raised %s (%s: %s) in mode %s with %s damping instead of ending in a "
                           "result or in PipeflowNotConverged" % (cls, where, str(exc)[:120], mode, st["method"]), replay)
            if "_internal_data" in net:
                report(ctx, {"clause": "internal_data_dropped", "outcome": cls, "raised_in": where},
                       "after a pipeflow call without reuse_internal_data (%s, outcome %s %s) the net still carries "
                       "_internal_data" % (mode, cls, where), replay)
            if st["mut"] in BENIGN and mode in ("hydraulics", "sequential", "bidirectional") and \
                    cls not in ("ok", "PipeflowNotConverged"):
                report(ctx, {"clause": "fails_only_with_PipeflowNotConverged", "exception": cls, "raised_in": where,
                             "mutation": st["mut"]},
                       "an out-of-service supply element next to an in-service one makes pipeflow raise %s (%s: %s)"
                       % (cls, where, str(exc)[:120]), replay)
            # ---- model call ----
            tabs = "AllNaN" if allnan else "Written"
            if flags["options_raise"]:
                tabs = prev_tabs          # nothing was touched: the tables of the previous call
            prev_tabs = tabs
            if not in_model:
                # the model has no such path (exception escaping from inside a solve function ...): close the
                # sequence and start a new one from the state observed on the real net
                ctx.count("pipeflow:outside_model(exception inside a solve function)")
                if calls:
                    seqs.append("(%s, %s)" % (start, clist(calls)))
                    meta.append({"spec": sc["spec"], "steps": sc["steps"][:si + 1], "pick": sc["pick"], "log": list(log)})
                calls = []
                hf = bool(net.get("user_pf_options", {}).get("hyd_flag", False)) if "user_pf_options" in net else False
                start = ("{| n_conv := %s; n_tables := %s; n_hyd_flag := %s; n_idata := %s; n_alpha := %s |}"
                         % (cbool(conv), tabs, cbool(hf), cbool("_internal_data" in net),
                            cq(D.alpha_q(net["_options"]["alpha"] if "_options" in net else 1.0))))
                continue
            by = {"hydraulics": [], "heat": [], "bidirectional": []}
            for r in runs:
                by.setdefault(r["stage"], []).append(r)

            esc = flags.get("escape")
            if esc:
                ctx.count("pipeflow:exception escaping from inside stage %s" % esc[0])
                if not by[esc[0]] or by[esc[0]][-1].get("conv"):
                    by[esc[0]].append(dict(D.DUMMY_RUN))       # raised before the loop started

            def ri(lst, stage):
                lst = lst or [D.DUMMY_RUN]
                post = flags.get("post")
                lits = [D.run_in_coq(r, esc[1] if (esc and esc[0] == stage and i == len(lst) - 1) else "NoEscape",
                                     post[1] if (post and post[0] == stage and i == len(lst) - 1) else "NoPost")
                        for i, r in enumerate(lst)]
                lits = [l.replace("ri_rerun := false", "ri_rerun := true") if i < len(lits) - 1 else l
                        for i, l in enumerate(lits)]
                return lits
            hy, ht, bi = ri(by["hydraulics"], "hydraulics"), ri(by["heat"], "heat"), ri(by["bidirectional"], "bidirectional")
            alpha0 = runs[0]["alpha0"] if runs else 1.0
            env = ("{| pe_options_raise := %s; pe_setup_raise := %s; pe_unsupplied := %s; pe_conn_raise := %s; "
                   "pe_heat_unsupplied := %s; pe_extract_raise := %s; pe_reuse := false; pe_alpha0 := %s; "
                   "pe_hyd := (%s, %s); pe_heat := (%s, %s); pe_bid := %s |}"
                   % (cbool(flags["options_raise"]), cbool(flags["setup_raise"]), cbool(flags["unsupplied"]),
                      cbool(flags["conn_raise"]), cbool(flags["heat_unsupplied"]), cbool(flags["extract_raise"]),
                      cq(D.alpha_q(alpha0)), hy[0], clist(hy[1:]), ht[0], clist(ht[1:]), bi[-1]))
            out = "Returned" if cls == "ok" else "NotConverged" if cls == "PipeflowNotConverged" else "OtherException"
            calls.append("{| pc_mode := %s; pc_env := %s; pc_obs_outcome := %s; pc_obs_conv := %s; pc_obs_tables := %s; "
                         "pc_obs_idata := %s |}" % (MODES.get(mode, "MBad"), env, out, cbool(conv), tabs, cbool("_internal_data" in net)))
        if calls:
            seqs.append("(%s, %s)" % (start, clist(calls)))
            meta.append({"spec": sc["spec"], "steps": sc["steps"], "pick": sc["pick"], "log": log})
    size = 40
    n_tot = n_mis = 0
    for s in range(0, len(seqs), size):
        txt = HEADER + "Definition seqs : list (netst * list pcall) := [\n%s\n].\nEval vm_compute in (summary nseq_ok seqs).\n" \
            % ";\n".join(seqs[s:s + size])
        import time as _t
        _t0 = _t.time()
        trip, out = ctx.coq_counts(txt, "pipeflow_cases_%d" % (s // size))
        ctx.extra.setdefault("pipeflow_coq_s", []).append(round(_t.time() - _t0, 1))
        if not trip:
            ctx.broken("correspondence", "C05.pipeflow vs pandapipes.pipeflow (coqc failed)", out[-800:])
            continue
        n, m, first = trip[0]
        n_tot += n
        n_mis += m
        if m and not ctx.violations:
            mt = meta[s + first]
            ctx.broken("correspondence", "C05.pipeflow vs pandapipes.pipeflow",
                       "model and implementation differ on a call sequence; log: %r; replay: %s"
                       % ([(e["step"]["mut"], e["step"]["mode"], e["outcome"], e["converged"], e["all_results_nan"])
                           for e in mt["log"]], ctx.replay_path({"kind": "pipeflow_sequence", **mt})))
    ctx.corr("C05.Model.pipeflow == pandapipes.pipeflow on sequences of calls on one net object "
             "(outcome class, net.converged, tables all-NaN / written), recorded iterations replayed by the model",
             n_tot, n_mis, "%d pipeflow calls" % n_calls)


def monitor_success(ctx, net, mode, runs, replay):
    """after a normal return: converged flag, last-iteration errors within tolerance, finite results of the
    supplied in-service part"""
    import numpy as np
    from pandapipes.idx_node import ELEMENT_IDX
    if not net.converged:
        report(ctx, {"clause": "returned_implies_converged_flag"}, "pipeflow returned normally with net.converged = False", replay)
    if not runs:
        report(ctx, {"clause": "returned_implies_stage_ran"}, "pipeflow returned normally without running a Newton loop", replay)
    for r in runs:
        if not r["iters"]:
            report(ctx, {"clause": "converged_implies_last_within_tol", "stage": r["stage"], "why": "no iteration"},
                          "stage %s reported converged without a single iteration (net.converged was %s when the loop "
                          "started)" % (r["stage"], r["conv0"]), replay)
            continue
        if len(r["iters"]) > r["max_iter"]:
            report(ctx, {"clause": "loop_terminates", "stage": r["stage"]}, "%d iterations with a budget of %d"
                          % (len(r["iters"]), r["max_iter"]), replay)
        errs, res = r["iters"][-1]
        if len(r["tols"]) < len(errs):
            report(ctx, {"clause": "stage_wiring", "stage": r["stage"], "why": "fewer tolerances than variables"},
                          "stage %s: %d variables, %d tolerances" % (r["stage"], len(errs), len(r["tols"])), replay)
        for v, e, t in zip(r["vars"], errs, r["tols"]):
            if not e <= t:
                report(ctx, {"clause": "converged_implies_last_within_tol", "stage": r["stage"], "var": v},
                              "returned normally although the last change of %s in stage %s is %r > %r" % (v, r["stage"], e, t), replay)
        if not res <= r["tol_res"]:
            report(ctx, {"clause": "converged_implies_last_within_tol", "stage": r["stage"], "var": "residual"},
                          "returned normally although the last residual norm of stage %s is %r > %r" % (r["stage"], res, r["tol_res"]), replay)
        if r["method"] == "automatic" and r.get("alpha") != 1.0:
            report(ctx, {"clause": "converged_implies_last_within_tol", "stage": r["stage"], "var": "alpha"},
                          "returned normally with damping factor %r" % r.get("alpha"), replay)
    # finite results on the supplied in-service part (the solver's own active lookup)
    try:
        lk = net["_lookups"]
        f, t = lk["node_from_to"]["junction"]
        act = np.asarray(lk["node_active_hydraulics"])[f:t]
        labels = net["_pit"]["node"][f:t, ELEMENT_IDX].astype(np.int64)
        sup = labels[act]
        thermal = mode in ("sequential", "bidirectional", "heat")
        rj = net.res_junction.loc[sup]
        hyd = mode != "heat"      # mode "heat" re-extracts thermal columns only
        cols = (["p_bar"] if hyd else []) + (["t_k"] if thermal else [])
        for c in cols:
            if c == "t_k" and "node_active_heat_transfer" in lk:
                rj = net.res_junction.loc[labels[np.asarray(lk["node_active_heat_transfer"])[f:t]]]
            badj = rj.index[~np.isfinite(rj[c].values.astype(float))].tolist()
            if badj:
                report(ctx, {"clause": "supplied_results_finite", "table": "res_junction", "column": c},
                              "returned normally but res_junction.%s is not finite at supplied in-service junctions %r" % (c, badj[:5]), replay)
        supset = set(int(x) for x in sup)
        if len(net.pipe) and "pipe" in lk["branch_from_to"]:
            from pandapipes.idx_branch import ELEMENT_IDX as BR_ELEMENT_IDX
            bf, bt = lk["branch_from_to"]["pipe"]
            bact = np.asarray(lk["branch_active_hydraulics"])[bf:bt]
            blab = net["_pit"]["branch"][bf:bt, BR_ELEMENT_IDX].astype(np.int64)
            pin = [int(l) for l in np.unique(blab) if bool(np.all(bact[blab == l]))]
            rp = net.res_pipe.loc[pin]
            pin_t = pin
            if thermal and "branch_active_heat_transfer" in lk:      # thermal columns: the thermally supplied part
                bact_t = np.asarray(lk["branch_active_heat_transfer"])[bf:bt]
                pin_t = [int(l) for l in np.unique(blab) if bool(np.all(bact_t[blab == l]))]
            for c in (["mdot_from_kg_per_s", "v_mean_m_per_s", "p_from_bar"] if hyd else []) + (["t_from_k", "t_to_k"] if thermal else []):
                rp = net.res_pipe.loc[pin_t if c.startswith("t_") else pin]
                if c in rp:
                    badp = rp.index[~np.isfinite(rp[c].values.astype(float))].tolist()
                    if badp:
                        report(ctx, {"clause": "supplied_results_finite", "table": "res_pipe", "column": c},
                                      "returned normally but res_pipe.%s is not finite at supplied in-service pipes %r" % (c, badp[:5]), replay)
        for tbl in ("ext_grid", "circ_pump_pressure", "circ_pump_mass"):
            if hyd and tbl in net and len(net[tbl]) and "res_" + tbl in net:
                ins = net[tbl].index[net[tbl].in_service.values.astype(bool)]
                jcol = "junction" if tbl == "ext_grid" else "flow_junction"
                ins = [i for i in ins if int(net[tbl].at[i, jcol]) in supset]
                vals = net["res_" + tbl].loc[ins, "mdot_kg_per_s" if tbl == "ext_grid" else "mdot_from_kg_per_s"].values.astype(float)
                if not np.all(np.isfinite(vals)):
                    report(ctx, {"clause": "supplied_results_finite", "table": "res_" + tbl},
                                  "returned normally but res_%s mass flow is not finite for in-service rows" % tbl, replay)
    except KeyError as e:
        ctx.note("finite-results monitor skipped a net: %r" % (e,))


# ================================================================================================ entry points
def run(ctx):
    ctx.extra["rule"] = ("driver cases: seeded parameters (method, budget 0..40, 0..6 variables, tolerance lists incl. 0 / inf / "
                         "NaN / wrong length, ragged or rectangular result vectors, start alpha) + a scripted solve function whose "
                         "per-iteration (new, old) vectors follow a style (converging, late, stuck, oscillating, wild with NaN / "
                         "inf / inf-inf / errors exactly at, just below and one ulp above tolerance); distinct = case seed; "
                         "non-trivial = at least 2 iterations or converged. Stage probes: every (stage, unknown, amount, damping "
                         "method). pipeflow cases: generated water / gas / heat nets, 2-5 calls on one net object each with a "
                         "mutation (none, tiny budget, no supply, NaN load / pressure / feed temperature, huge load, fighting "
                         "pressure controllers, second circulation pump, bad mode, unreachable tolerance) and a mode; "
                         "non-trivial = a mutated call or a call after another call")
    wiring = None
    try:
        text, d = tsw.generate()
        wiring = d["stages"]
        ctx.gen("StageWiring", text)
        ctx.extra["stage_wiring"] = {s["name"]: {"vars": s["vars"], "tols": s["tols"], "pits": s["pits"],
                                                 "pairs": [p["new"][1] for p in s["pairs"]]} for s in wiring}
    except Exception as e:  # noqa: BLE001
        ctx.broken("translator", "tools/translate/stagewiring.py", repr(e))
    proved = ctx.prove("C05") if wiring is not None else False
    if wiring is None:
        wiring = fallback_wiring()
    import time
    t0 = time.time()
    driver_correspondence(ctx, 700 if ctx.quick else 12000)
    t1 = time.time()
    run_stage_probes(ctx, wiring)
    t2 = time.time()
    run_scenarios(ctx, 60 if ctx.quick else 900)
    ctx.extra["timing_s"] = {"driver": round(t1 - t0, 1), "stage_probes": round(t2 - t1, 1),
                             "pipeflow_sequences": round(time.time() - t2, 1)}
    print("timing: %r" % ctx.extra["timing_s"])
    if (not proved or ctx.brokens) and not ctx.violations:
        # widen the search: more scripted runs and more call sequences
        ctx.note("an obligation broke: widening the failing-input search")
        driver_correspondence(ctx, 1500)
        run_scenarios(ctx, 60)


def replay(ctx, path):
    import json
    from harness import c05_driver as D
    obj = json.load(open(path))
    rp = obj.get("replay", obj)
    kind = rp.get("kind")
    if kind == "driver":
        c = rp["case"]
        script = [([(list(map(float, n)), list(map(float, o))) for n, o in pairs], list(map(float, resid)))
                  for pairs, resid in rp["script"]]
        r = D.run_driver_case(c, script=script + [script[-1]] * (c["max_iter"] + 1) if script else None)
        bad = D.driver_oracle(c, r)
        print("replayed scripted run: converged=%s niter=%s alpha=%s" % (r["converged"], r["niter"], r["alpha"]))
        for clause, text in bad[:1]:
            report(ctx, driver_signature(c, clause), text, rp)
    elif kind == "stage_probe":
        d = tsw.generate()[1] if True else None
        res = [p for p in D.stage_probes(d["stages"]) if p["stage"] == rp["probe"]["stage"] and p["pair"] == rp["probe"]["pair"]
               and p["what"] == rp["probe"]["what"] and p["method"] == rp["probe"]["method"]]
        for p in res:
            print("replayed stage probe: %r" % p)
            if p["outcome"] != p["expect"]:
                report(ctx, {"stage": p["stage"], "clause": "stage_wiring", "pair": p["pair"], "col": p["col"]},
                              "stage probe outcome %s, expected %s" % (p["outcome"], p["expect"]), rp)
    elif kind == "pipeflow_sequence":
        from harness import gen, drive
        net = gen.build(rp["spec"])
        cache = {}
        for si, st in enumerate(rp["steps"]):
            mode, kw, exc, frames, runs = call_step(net, st, rp["pick"] + si, cache)
            cls = "ok" if exc is None else type(exc).__name__
            allnan = drive.all_results_nan(net)
            print("step %d %s/%s -> %s converged=%s all_nan=%s" % (si, st["mut"], mode, cls, net.converged, allnan))
            if cls == "ok":
                monitor_success(ctx, net, mode, runs, rp)
            elif net.converged or not allnan:
                report(ctx, {"clause": "failed_run_leaves_no_results", "exception": cls},
                              "after %s: converged=%s, tables all NaN=%s" % (cls, net.converged, allnan), rp)
    else:
        ctx.note("replay file of kind %r: nothing to re-run (obligation-level finding)" % kind)
