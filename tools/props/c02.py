"""C02 - every flowing branch obeys the documented pressure-loss law (DESIGN.md 4/C02, design_notes/C02.md).

T-tie  : Gen/K*.v (hydraulic kernels of both engines, mean pressure, calc_lambda for nikuradse / swamee-jain x liquid /
         gas x engine, result extraction, barometric formula) regenerated from source; coq/C02/Props.v proves them equal
         to the hand-written documented law coq/C02/Spec.v.
Monitor: the documented law recomputed per section on converged real nets (tools/harness/c02_law.py)."""
import os
import sys

sys.path.insert(0, os.path.dirname(os.path.dirname(os.path.abspath(__file__))))
from translate import kernels  # noqa: E402
from props.c07 import gen_and_prove, float_shadow  # noqa: E402

CLAIM = {
    "text": "PROVED (17 theorems, all over code regenerated from the source on every run): the branch residual of both engines "
            "equals the documented momentum law - liquids p_from - p_to + lift + [rho g dh - (lambda l/d + zeta) rho v|v|/2]/1e5 in "
            "either flow direction (zero-length rows = valves, heat exchangers, pumps as a corollary); gases the integrated "
            "real-gas form (P_i^2 - P_{i+1}^2)/2 = C L with compressibility, normal state, mean temperature, both directions. "
            "The friction factor used by the solver equals the documented Nikuradse and Swamee-Jain formulas; the gas Nikuradse "
            "form is the documented one with 10^0.57 for 3.71 and within 1e-3 of it for 10 <= d/k <= 1e6; the Colebrook function "
            "given to scipy's newton vanishes exactly at the documented implicit equation, its fprime is the exact derivative "
            "and a fixed point of the Newton step is a root. Mean pressure = quadratic mean; viscosity / density / c_p are taken "
            "at the inlet (flow-corrected) and outlet temperatures; reported v, Re, norm factors follow from reported m, p, T "
            "(both engines); ambient pressure = barometric formula. VALIDATED: translator by a bit-exact PrimFloat shadow. "
            "MONITORED only: that converged results satisfy the law (hydraulic runs of water / all library gases / three "
            "friction models / both engines / sections, heights, loss coefficients, valves incl. pipe-attached, heat exchangers; "
            "bidirectional runs of mixing nets), that newton() finds the Colebrook root, fluid property values (interp1d).",
    "note": "Over R with the standard-library real axioms (sig_forall_dec, sig_not_dec, functional_extensionality_dep; theorems "
            "with ln / Rpower / is_derive / interval bounds additionally Classical_Prop.classic and what Coquelicot and "
            "coq-interval import). Guards: A, D, rho (rho_N), p_i + p_{i+1} non-zero, Re > 1e-8 for the laminar term, lambda > 0 "
            "and positive log argument for Colebrook - all satisfied by admissible parameters (Examples). Exactness of the "
            "hydraulic Jacobian is not claimed.",
    "technique": "Coq proofs (field/lra/auto_derive/interval) relating kernels regenerated from source to a hand-written spec of "
                 "the documentation + float shadow + monitor recomputing the law on converged nets",
    "design": "DESIGN.md 4/C02 + design_notes/C02.md",
}
GEN_FILES = ["KHydIncompNp", "KHydIncompNb", "KHydCompNp", "KHydCompNb", "KPmNp", "KFriction", "KBasicRes", "KGasResNp",
             "KGasResNb", "KPamb", "KBranchProps", "KColebrook", "KLambdaNp"]
GEN = kernels.gen_entries(GEN_FILES)


def run(ctx):
    ctx.extra["rule"] = ("generated nets (water, every library gas, heat-loop topology run hydraulically) x friction model "
                         "(nikuradse, colebrook, swamee-jain) x engine; one case per net, evaluations per pipe section / "
                         "valve / heat exchanger; non-trivial = converged with at least one flowing section and at least one "
                         "of: height difference, loss coefficient, several sections, reverse flow")
    full_coqchk = ctx.coqchk

    def coqchk(sub, props="Props", timeout=2400):
        """Props.v (stdlib closure) is re-checked completely.  The closure of PropsExtra.v contains the installed libraries
        Coquelicot, Flocq, coq-interval and mathcomp.ssreflect, whose full re-check takes > 40 min; there our own modules are
        re-checked (-norec) and the library .vo files are trusted as installed (stated in design_notes/C02.md)."""
        if props != "PropsExtra":
            return full_coqchk(sub, props, timeout)
        import re
        import vlib
        mods = ["PP.C02.PropsExtra", "PP.C02.ProofsColebrook", "PP.C02.ProofsBounds", "PP.C02.Proofs", "PP.C02.Spec"]
        rc, out = vlib.sh("timeout 900 coqchk -silent -o -Q %s PP %s" % (vlib.COQ, " ".join("-norec " + m for m in mods)),
                          cwd=vlib.COQ, timeout=960)
        summ = out[out.find("CONTEXT SUMMARY"):] if "CONTEXT SUMMARY" in out else out[-1500:]
        m = re.search(r"\* Axioms:(.*?)\n\s*\n\* Constants/Inductives relying on type-in-type", summ, re.S)
        axioms = [l.strip() for l in m.group(1).strip().split("\n") if l.strip() and l.strip() != "<none>"] if m else []
        bad = [k for k in ("type-in-type", "unsafe (co)fixpoints", "positivity is assumed")
               if re.search(re.escape(k) + r": (?!<none>)", summ)]
        ctx.extra.setdefault("coqchk", {})["PP.C02.PropsExtra (-norec: own modules only)"] = {
            "exit": rc, "axioms": axioms, "flags_not_none": bad, "modules": mods}
        if rc != 0 or bad:
            ctx.broken("coqchk", "PP.C02.PropsExtra", summ[-1200:])
        return rc
    ctx.coqchk = coqchk
    proved = gen_and_prove(ctx, GEN, ["Props", "PropsExtra"], "C02")
    float_shadow(ctx)
    monitor(ctx, wide=not proved)


def monitor(ctx, wide=False):
    from harness import gen, drive, c02_law as L
    n = 36 if ctx.quick else 900
    if wide:
        n *= 3
    fms = ["nikuradse", "colebrook", "swamee-jain"]
    n_sec = n_flow = n_nc = 0
    for i in range(n):
        prof = ["water", "gas", "heat"][i % 3]
        fm = fms[(i // 3) % 3]
        feats = {"fluid": gen.GASES[(i // 3) % len(gen.GASES)]} if prof == "gas" else None
        try:
            if prof != "heat" and i % 4 == 1:
                feats = dict(feats or {}, pi_valve=True)                        # a pipe-attached valve with zeta != 0
            spec = gen.gen_net(ctx.rng, prof, size=None if ctx.quick else ctx.rng.randint(3, 25), features=feats)
            spec = L.lossy_pi_valves(ctx.rng, spec)
            if prof != "heat" and (i // 3) % 2 == 0:
                spec = L.vary_temperatures(ctx.rng, spec)          # per-junction tfluid_k
            gen.build(spec)
        except Exception as e:
            ctx.count("generator_or_build_error:" + type(e).__name__)
            continue
        # gas nets: both engines on the same net (the gas post-processing exists twice); others alternate
        engines = (False, True) if prof == "gas" else ((i // 9) % 2 == 1,)
        for nb in engines:
            net = gen.build(spec)
            st, msg = drive.run(net, friction_model=fm, use_numba=nb, mode="hydraulics", **L.TIGHT)
            ctx.count("run:%s/%s/%s/%s" % ("gas" if spec["fluid"] != "water" else prof, fm, "numba" if nb else "numpy", st))
            if st != "ok":
                n_nc += 1
                ctx.case({"spec": spec, "friction_model": fm, "status": st}, False)
                continue
            try:
                k, kf, bad = L.check_net(net, fm)
            except Exception as e:
                ctx.broken("monitor", "c02_law.check_net raised", repr(e))
                continue
            n_sec += k
            n_flow += kf
            d = gen.describe(spec)
            rich = kf > 0 and (d["multi_section"] > 0 or any(kw.get("height_m") for f_, kw in spec["ops"])
                               or any(kw.get("loss_coefficient") for f_, kw in spec["ops"]) or spec.get("nonuniform_t"))
            ctx.case({"spec": spec, "friction_model": fm, "use_numba": nb, "sections": k, "flowing": kf}, rich)
            for what, s, lhs, rhs in bad[:3]:
                ctx.violation({"clause": what.split(":")[0].split("(")[0].strip(), "table": s["tbl"], "friction_model": fm,
                               "gas": spec["fluid"] != "water", "use_numba": nb},
                              "%s: %s %s section %d: %r vs %r (m = %r kg/s, l = %r m, dh = %r m, zeta = %r, use_numba=%s)"
                              % (what, s["tbl"], s["idx"], s["section"], lhs, rhs, s["m"], s["l"], s["dh"], s["zeta"], nb),
                              {"spec": spec, "friction_model": fm, "use_numba": nb, "options": L.TIGHT, "section": s,
                               "lhs": lhs, "rhs": rhs,
                               "how": "net = harness.gen.build(spec); pipeflow(net, friction_model=..., **options); "
                                      "harness.c02_law.check_net(net, friction_model)"})
    # liquid nets with a solved temperature field (mode="bidirectional"): hot and cold supplies mix, heat losses; the law is
    # recomputed with eta at (T_inlet + t_outlet_k)/2 and rho = mean of rho(T_inlet), rho(t_outlet_k)
    n_mix = 8 if ctx.quick else 150
    for i in range(n_mix * (3 if wide else 1)):
        fm = fms[i % 3]
        spec = L.mixing_net_feeding(ctx.rng)
        if spec is None:
            ctx.count("mixing_net_not_admissible")
            continue
        nb = i % 4 == 3
        net = gen.build(spec)
        opts = dict(L.TIGHT, tol_T=1e-9)
        st, msg = drive.run(net, friction_model=fm, use_numba=nb, mode="bidirectional", **opts)
        ctx.count("run:water-mixing/bidirectional/%s/%s/%s" % (fm, "numba" if nb else "numpy", st))
        if st != "ok":
            n_nc += 1
            ctx.case({"spec": spec, "friction_model": fm, "status": st}, False)
            continue
        try:
            k, kf, bad = L.check_net(net, fm, thermal=True)
        except Exception as e:
            ctx.broken("monitor", "c02_law.check_net raised (thermal)", repr(e))
            continue
        n_sec += k
        n_flow += kf
        ctx.case({"spec": spec, "friction_model": fm, "use_numba": nb, "mode": "bidirectional", "sections": k}, kf > 0)
        for what, s, lhs, rhs in bad[:3]:
            ctx.violation({"clause": what.split(":")[0].split("(")[0].strip(), "table": s["tbl"], "friction_model": fm,
                           "gas": False, "use_numba": nb, "mode": "bidirectional"},
                          "%s: pipe %s (bidirectional run, inlet %.2f K, outlet %.2f K): %r vs %r (m = %r kg/s)"
                          % (what, s["idx"], s["t_i"], s["t_i1"], lhs, rhs, s["m"]),
                          {"spec": spec, "friction_model": fm, "use_numba": nb, "mode": "bidirectional", "options": opts,
                           "section": s, "lhs": lhs, "rhs": rhs,
                           "how": "net = harness.gen.build(spec); pipeflow(net, mode='bidirectional', friction_model=..., "
                                  "**options); harness.c02_law.check_net(net, friction_model, thermal=True)"})
    ctx.count("Pipe.get_internal_results raised IndexError (fallback to the pit)", len(L.API_ERRORS))
    ctx.count("sections_checked", n_sec)
    ctx.count("sections_flowing", n_flow)
    ctx.count("nets_not_converged", n_nc)
    ctx.note("law monitor: %d sections (%d flowing) on converged nets, rel. tolerance 1e-6" % (n_sec, n_flow))


def replay(ctx, path):
    import json
    from harness import gen, drive, c02_law as L
    r = json.load(open(path))["replay"]
    net = gen.build(r["spec"])
    st, msg = drive.run(net, friction_model=r["friction_model"], use_numba=r["use_numba"], mode=r.get("mode", "hydraulics"),
                        **r.get("options", L.TIGHT))
    ctx.note("replay run: %s %s" % (st, msg))
    if st == "ok":
        for what, s, lhs, rhs in L.check_net(net, r["friction_model"], thermal=r.get("mode") == "bidirectional")[2]:
            ctx.violation({"clause": what, "table": s["tbl"]}, "%s: %r vs %r" % (what, lhs, rhs), r)
