"""C01 - mass is conserved at every supplied junction and over the whole network (DESIGN.md 4/C01).

Proof  : coq/C01/{Model,Proofs,Props}.v - generic-ring model of build_system_matrix (hydraulic mode) and of the
         update lines of solve_hydraulics; node_row_shape, balance_after_step, slack_balance_after_step,
         global_balance(_after_step), load_aggregation.
H-tie  : exact correspondences, compared inside Coq (coq/C01/Corr.v):
           real build_system_matrix on real structural pits with injected integers (numba on/off,
           only_update_hydraulic_matrix on/off, first and update-only call)           vs  trips / eps at Z
           real solve_hydraulics with a scripted integer solution and dyadic alpha     vs  step_m/p/msl at Q
             (+ the kernel columns the balance theorems assume: JAC_DERIV_DM_NODE = 1, LOAD_VEC_NODES_* = MDOTINIT,
              JAC_DERIV_MSL = -1 at slack nodes, read at the moment the real code calls build_system_matrix)
           real Sink/Source/MassStorage.create_pit_node_entries on integer tables      vs  constflow_entries at Z
Search : exact algebraic oracle (real matrix solved over the rationals, theorem conclusions evaluated), and
         monitors on real pipeflow results: junction balance, global balance.
"""
import os
import sys

sys.path.insert(0, os.path.dirname(os.path.dirname(os.path.abspath(__file__))))
from harness import gen, c01_help as H  # noqa: E402
from translate import kernels, c01_hooks  # noqa: E402

CLAIM = {
    "text": "Unbounded theorems (any number of nodes / branches / table rows, parallel branches, self loops, any labels and "
            "row order) over an executable generic-ring Coq model of the hydraulic build_system_matrix, the Newton update of "
            "solve_hydraulics, ConstFlow.create_pit_node_entries, ExtGrid.extract_results and ConstFlow.extract_results: "
            "node rows are exactly the nodal balance; with ANY solution x the imbalance after m - alpha x is (1 - alpha) "
            "times the old one (alpha = 1: exact balance after one step from any iterate); the new slack mass is its "
            "node's imbalance; slack masses sum to minus the total load; LOAD_i = sum of the rows attached to node i "
            "(scaling, sign, in_service); the reported ext-grid flows on a node add up to its slack mass (even split over "
            "the in-service p/pt grids only); const-flow rows report mdot*scaling iff in service and supplied, and LOAD_i "
            "is sign * the sum of those reported values; reported mdot_from / mdot_to of a multi-section element are +m of "
            "its first / -m of its last section (over C06's placement model). Generated facts (T-tie, re-proved from the "
            "source on every run): all four hydraulic kernels write df_dm_nodes = 1 and load_vec_nodes_* = MDOTINIT, "
            "get_basic_branch_results writes mf_from = MDOTINIT, mf_to = -MDOTINIT, and no component hook writes the node "
            "columns (MDOTINIT inside hooks: HeatConsumer only; slack-mass reset: CirculationPump hook only). Models are "
            "tied to /repo by exact integer / dyadic correspondences evaluated inside Coq.",
    "note": "Generic-ring theorems are closed under the global context; the kernel facts are over R and list "
            "ClassicalDedekindReals.sig_forall_dec (+ functional_extensionality_dep via Reals). Hypotheses: kernel_cols "
            "(T-tie + read at the real build call), JAC_DERIV_MSL = -1 (checked at the real call), branch ends in range "
            "(C04), lookup injective (C06), div inverts the multiplication by the ext-grid count (field, count >= 1). "
            "Partial: HeatConsumer QE modes overwrite MDOTINIT inside hooks (balance from the next iteration on; named by "
            "hooks_preserve_node_columns); placement for branches without internals and the junction-level sum over "
            "tables are monitored, not proved. Oracles: spsolve (theorems hold for any solution), IEEE rounding. "
            "Circulation-pump flow junctions balance within ~tol_m (slack mass reset, unreported).",
    "technique": "Coq proof over hand-written generic-ring model + generated kernel / hook facts + exact "
                 "model/implementation correspondence inside Coq + exact rational oracle + result monitors",
    "design": "DESIGN.md 4/C01 + design_notes/C01.md",
}
GEN = kernels.gen_entries(["KHydIncompNp", "KHydIncompNb", "KHydCompNp", "KHydCompNb", "KBasicRes"]) + \
    [("C01Hooks", lambda: c01_hooks.generate())]


def gen_tties(ctx):
    """T-tie: regenerate the kernel files and the hook-column table from the tree under test"""
    for name, fn in GEN:
        try:
            ctx.gen(name, fn())
        except Exception as e:  # noqa: BLE001  (fail closed: anything the translators do not understand)
            ctx.broken("translator", name, repr(e)[:600])


def budget(ctx):
    if ctx.quick:
        return dict(nets=70, numba_nets=10, step=40, cf=40, oracle=30, monitor=60, msize=None)
    return dict(nets=900, numba_nets=120, step=500, cf=500, oracle=300, monitor=900, msize=None)


def matrix_records(ctx, specs, b, want_pc=False):
    """-> records, metas, failures (python-side exactness failures)"""
    recs, metas, fails = [], [], []
    rng = ctx.rng
    for i, (spec, prof) in enumerate(specs):
        numba = i >= len(specs) - b["numba_nets"]
        update = i % 2 == 1
        second = i % 4 == 3
        try:
            net = gen.build(spec)
            txt, meta = H.matrix_case(rng, net, numba, update, second)
        except ValueError as e:
            fails.append((spec, "non-integer output: %s" % e, dict(numba=numba, update=update, second=second)))
            continue
        except Exception as e:  # noqa: BLE001  (generated net not buildable / fully unsupplied: not a case)
            ctx.count("skipped:" + type(e).__name__)
            continue
        meta["spec_i"] = i
        recs.append(txt)
        metas.append(meta)
        nontrivial = meta["parallel"] or meta["slack"] > 1 or meta["pc_branches"] > 0
        ctx.case({"kind": "matrix", "n": meta["n"], "nb": meta["nb"], "slack": meta["slack"], "pc": meta["pc_branches"],
                  "numba": numba, "update": update, "second_call": second, "fluid": spec["fluid"]},
                 nontrivial, key="m:%s" % hash(str(meta["struct"]) + str((numba, update, second))))
        ctx.count("matrix:numba=%s,update=%s,second=%s" % (numba, update, second))
        ctx.count("matrix:profile=" + prof)
        if meta["pc_branches"]:
            ctx.count("matrix:with_pc")
        if meta["slack"] > 1:
            ctx.count("matrix:several_slack_nodes")
        if meta["parallel"]:
            ctx.count("matrix:parallel_branches")
    return recs, metas, fails


def exact_oracle(ctx, spec, what="oracle"):
    """identity rows (prescribed flows) make the system singular on tree branches: retry without them"""
    r = _exact_oracle(ctx, spec, True)
    return r if r is not None else _exact_oracle(ctx, spec, False)


def _exact_oracle(ctx, spec, with_identity_rows):
    """Real build_system_matrix on kernel-conform integer data, solved exactly over Q; evaluates the conclusions of
    C01.2/3/4 and C03.1/3 on the REAL matrix (no model involved). -> list of failed clause dicts"""
    from fractions import Fraction
    import numpy as np
    pf, bsm, IN, IB, ps = H._mods()
    rng = ctx.rng
    net = gen.build(spec)
    nd, br = H.prepare(net, use_numba=False)
    n, nb = len(nd), len(br)
    m = [rng.randint(-9, 9) for _ in range(nb)]
    br[:, IB.JAC_DERIV_DM] = [rng.choice([-5, -3, -2, 2, 3, 7]) for _ in range(nb)]
    br[:, IB.JAC_DERIV_DP] = 1
    br[:, IB.JAC_DERIV_DP1] = -1
    br[:, IB.JAC_DERIV_DM_NODE] = 1
    br[:, IB.LOAD_VEC_BRANCHES] = [rng.randint(-9, 9) for _ in range(nb)]
    br[:, IB.LOAD_VEC_NODES_FROM] = m
    br[:, IB.LOAD_VEC_NODES_TO] = m
    pcb = br[:, IB.BRANCH_TYPE] == IB.PC
    for col in (IB.JAC_DERIV_DM, IB.JAC_DERIV_DP, IB.JAC_DERIV_DP1):
        br[pcb, col] = 0
    ident = [k for k in range(nb) if not pcb[k] and rng.random() < 0.2] if with_identity_rows else []
    for k in ident:
        br[k, IB.JAC_DERIV_DM], br[k, IB.JAC_DERIV_DP], br[k, IB.JAC_DERIV_DP1], br[k, IB.LOAD_VEC_BRANCHES] = 1, 0, 0, 0
    nd[:, IN.LOAD] = [rng.randint(-9, 9) for _ in range(n)]
    nd[:, IN.MDOTSLACKINIT] = [rng.randint(-9, 9) for _ in range(n)]
    nd[:, IN.JAC_DERIV_MSL] = -1
    jac, eps = bsm.build_system_matrix(net, br, nd, False)
    N = jac.shape[0]
    a = [[Fraction(int(v)) for v in row] + [Fraction(int(e))] for row, e in zip(jac.toarray(), eps)]
    # Gauss-Jordan over Q
    for c in range(N):
        piv = next((r for r in range(c, N) if a[r][c] != 0), None)
        if piv is None:
            return None          # singular: no statement
        a[c], a[piv] = a[piv], a[c]
        pv = a[c][c]
        a[c] = [v / pv for v in a[c]]
        for r in range(N):
            if r != c and a[r][c] != 0:
                f = a[r][c]
                a[r] = [vr - f * vc for vr, vc in zip(a[r], a[c])]
    x = [a[r][N] for r in range(N)]
    fn, tn = br[:, IB.FROM_NODE].astype(int), br[:, IB.TO_NODE].astype(int)
    slack = [i for i in range(n) if nd[i, IN.NODE_TYPE] == IN.P]
    m1 = [Fraction(m[k]) - x[n + k] for k in range(nb)]
    bad = []

    def inflow(i):
        return sum(m1[k] for k in range(nb) if tn[k] == i) - sum(m1[k] for k in range(nb) if fn[k] == i)
    for i in range(n):
        if i not in slack and inflow(i) - int(nd[i, IN.LOAD]) != 0:
            bad.append({"clause": "balance_after_step", "node": i, "imbalance": str(inflow(i) - int(nd[i, IN.LOAD]))})
    tot = Fraction(0)
    for j, s in enumerate(slack):
        new = int(nd[s, IN.MDOTSLACKINIT]) - x[n + nb + j]
        tot += new
        if new != inflow(s) - int(nd[s, IN.LOAD]):
            bad.append({"clause": "slack_balance_after_step", "node": s})
        if x[s] != 0:
            bad.append({"clause": "fixed_pressure_rows", "node": s, "kind": "slack"})
    if tot != -sum(int(v) for v in nd[:, IN.LOAD]):
        bad.append({"clause": "global_balance"})
    pcn = [i for i in range(n) if nd[i, IN.NODE_TYPE] == IN.PC]
    if len(pcn) == int(pcb.sum()):
        for c in pcn:
            if x[c] != 0:
                bad.append({"clause": "fixed_pressure_rows", "node": c, "kind": "pc"})
    for k in ident:
        if x[n + k] != 0:
            bad.append({"clause": "identity_rows_keep_flow", "branch": k})
    return bad


def monitor_nets(ctx, specs, which, limit):
    """runs the real pipeflow with tight tolerances; which in {"c01", "c03"}; records violations; -> stats"""
    import numpy as np
    stats = {"ok": 0, "notconv": 0, "other": 0, "checked": 0}
    seen_sig = {}

    def report(sig, what, rep):
        k = str(sorted(sig.items()))
        seen_sig[k] = seen_sig.get(k, 0) + 1
        if seen_sig[k] <= 2:                     # at most two replay files per signature
            ctx.violation(sig, what, rep)
    for k_net, (spec, prof) in enumerate(specs[:limit]):
        try:
            net = gen.build(spec)
        except Exception:  # noqa: BLE001
            continue
        mode = "hydraulics"
        # C01: every fourth net with the DEFAULT tolerances (tol_m = 1e-5): by balance_after_step the nodal
        # imbalance after any full step is round-off, however loosely the iteration is stopped - this is what
        # exposes a wrong Jacobian entry whose residual is still right.
        # Sequences on ONE net object (state kept between calls must not leak into the next result):
        #   "transient": pipeflow(transient=True, simulation_time_step=0,1,2) with table edits in between,
        #   "repeat":    two ordinary calls with table edits in between
        kind = ["single", "loose" if which == "c01" else "single", "transient", "repeat"][k_net % 4]
        loose = kind == "loose"
        tol_kw = dict(tol_p=1e-5, tol_m=1e-5, tol_res=1e-3) if loose else {}
        tol_m = 1e-5 if loose else 1e-10
        steps = {"single": 1, "loose": 1, "transient": 3, "repeat": 2}[kind]
        d = gen.describe(spec)
        for step in range(steps):
            kw = dict(tol_kw)
            if kind == "transient":
                kw.update(transient=True, dt=60., simulation_time_step=step)
            if step:
                H.mutate(ctx.rng, net)
            status, msg = H.run_pipeflow(net, mode=mode, use_numba=False, **kw)
            if status != "ok":
                stats["notconv" if status == "notconv" else "other"] += 1
                ctx.count("monitor:" + status)
                break
            stats["ok"] += 1
            ctx.count("monitor:converged:%s:%s" % (prof, kind))
            opts = dict(H.TIGHT, mode=mode, use_numba=False, **kw)
            rep = {"spec": spec, "sequence": kind, "step": step, "options": opts,
                   "note": "steps > 0 follow harness.c01_help.mutate edits with the check's PRNG; "
                           "tables at the failing step are in `tables`"}
            if step:
                rep["tables"] = {t: net[t].to_dict(orient="list") for t in ("sink", "source", "mass_storage", "ext_grid",
                                                                           "flow_control", "press_control")
                                 if t in net and len(net[t])}
            _evaluate(ctx, net, which, spec, prof, kind, step, tol_m, rep, report, stats, d)
    return stats


def _evaluate(ctx, net, which, spec, prof, kind, step, tol_m, rep, report, stats, d):
    import numpy as np
    if which == "c01":
        rows, (feed, cons, mag, has_circ) = H.junction_balance(net)
        worst = 0.0
        for j, imb, sabs, bound, circ in rows:
            stats["checked"] += 1
            b = bound + (100 * tol_m if circ else 0.0)  # DESIGN C01.9: slack mass of a circ-pump flow node ~ tol_m
            worst = max(worst, abs(imb) / b)
            if not abs(imb) <= b:
                report({"clause": "junction_balance", "circ_flow_junction": circ, "profile": prof, "sequence": kind,
                        "later_step": step > 0, "features": spec.get("features", [])},
                       "reported mass flows at junction %s sum to %.3e (bound %.1e, sum|m| %.3e) [%s step %d]"
                       % (j, imb, b, sabs, kind, step), dict(rep, junction=j, imbalance=imb))
        gb = 1e-9 * (1 + mag) + (100 * tol_m if has_circ else 0.0)
        if not abs(feed + cons) <= gb:
            report({"clause": "global_balance", "profile": prof, "has_circ_pump": has_circ, "sequence": kind,
                    "later_step": step > 0},
                   "sum of ext-grid flows %.6e + (consumption - injection) %.6e = %.3e (bound %.1e) [%s step %d]"
                   % (feed, cons, feed + cons, gb, kind, step), rep)
        ctx.case({"kind": "pipeflow", "profile": prof, "junctions": d["junctions"], "counts": d["counts"],
                  "worst_imbalance_over_bound": worst, "sequence": kind, "step": step}, d["junctions"] > 3,
                 key="p:%s:%d:%s" % (kind, step, gen.spec_key(spec)[:4000]))
    else:
        for clause, tbl, idx, obs, exp, tol, extra in H.setpoints(net):
            stats["checked"] += 1
            ctx.count("setpoint:" + clause)
            ok = (np.isnan(exp) and np.isnan(obs)) or abs(obs - exp) <= tol
            if not ok:
                sig = {"clause": clause, "table": tbl}
                if clause == "pump_lift_curve":
                    # deltap equals the curve at mdot / rho(273.15 K) but not at the reported vdot = mdot / rho(T)
                    sig["explained_by_normal_density"] = extra["explained_by_normal_density"]
                    sig["fluid_is_liquid"] = True
                else:
                    sig["sequence"] = kind
                report(sig, "%s %s[%s]: result %.12g, prescribed %.12g (tol %.1e) %s [%s step %d]"
                       % (clause, tbl, idx, obs, exp, tol, extra, kind, step),
                       dict(rep, table=tbl, index=idx, observed=obs, expected=exp))
        ctx.case({"kind": "pipeflow", "profile": prof, "junctions": d["junctions"], "counts": d["counts"],
                  "sequence": kind, "step": step}, d["junctions"] > 3,
                 key="p:%s:%d:%s" % (kind, step, gen.spec_key(spec)[:4000]))


def make_specs(ctx, n, profiles=("water", "gas"), heat_every=6):
    specs = []
    for i in range(n):
        force = [["pc", "standby"], ["multi_eg"], ["pumps", "compressors"], ["circ"], None][i % 5]
        if heat_every and i % heat_every == heat_every - 1:
            specs.append(H.gen_spec(ctx.rng, ("heat",)))
        else:
            specs.append(H.gen_spec(ctx.rng, profiles, force=force))
    return specs


def describe_bad(ctx, name, spec, meta, note):
    ctx.broken("correspondence", name, "model and implementation differ on a generated case: %s ; meta=%s ; "
               "net=%s" % (note, {k: v for k, v in (meta or {}).items() if k != "struct"}, gen.describe(spec)))


def run(ctx):
    ctx.extra["rule"] = ("nets from harness/gen.py (water / gas / heat loop; islands, out-of-service parts, sparse / large / "
                         "colliding labels) augmented by harness/c01_help.augment (pressure controllers, several ext grids "
                         "with different pressures on one junction, circulation pumps next to ext grids). matrix case = "
                         "(structure of the active pit, numba, update option, first/second call); non-trivial = parallel "
                         "branches or > 1 slack node or a PC branch. pipeflow case = canonical spec; non-trivial = > 3 junctions")
    b = budget(ctx)
    gen_tties(ctx)
    proved = ctx.prove("C01")
    proved_t = ctx.prove("C01", props="PropsT")      # generated facts: kernel node columns, hook column writers
    specs = make_specs(ctx, b["nets"])
    # ---------------------------------------------------------------- H-tie 1: build_system_matrix
    recs, metas, fails = matrix_records(ctx, specs, b)
    n, mis, bad, ok = H.run_corr(ctx, "m", "C01.Model.trips/eps == build_system_matrix(net, branch_pit, node_pit, False) "
                                           "(dense matrix with duplicates summed + load vector, Z)", recs, chunk=40)
    suspects = []
    for gi in bad[:3]:
        meta = metas[gi]
        describe_bad(ctx, "build_system_matrix", specs[meta["spec_i"]][0], meta, "first mismatching case of its chunk")
        suspects.append(specs[meta["spec_i"]])
    for spec, why, opt in fails[:3]:
        ctx.broken("correspondence", "build_system_matrix exactness", "%s %s" % (why, opt))
        suspects.append((spec, "?"))
    # ---------------------------------------------------------------- H-tie 2: update lines + kernel columns
    srecs, smetas = [], []
    for i, (spec, prof) in enumerate(specs[:b["step"]]):
        if any(m.startswith("QE") for m in spec.get("heat_modes", [])):
            # HeatConsumer QE_DT / QE_TR write MDOTINIT inside the hooks (non-dyadic value; QE_TR after the kernel):
            # kernel_cols does not hold for that call (DESIGN C01.6, named partial in design_notes/C01.md)
            ctx.count("step:skipped_QE_heat_consumer")
            continue
        try:
            net = gen.build(spec)
            txt, meta = H.step_case(ctx.rng, net, [1.0, 0.5, 0.25, 1.0][i % 4])
        except ValueError as e:
            ctx.broken("correspondence", "solve_hydraulics step exactness", str(e))
            continue
        except Exception as e:  # noqa: BLE001
            ctx.count("skipped_step:" + type(e).__name__)
            continue
        meta["spec_i"] = i
        srecs.append(txt)
        smetas.append(meta)
        ctx.case({"kind": "step", "alpha": meta["alpha"], "n": meta["n"], "nb": meta["nb"], "slack": meta["slack"]},
                 meta["alpha"] != 1.0 or meta["slack"] > 1, key="s:%d:%s" % (i, gen.spec_key(spec)[:2000]))
        ctx.count("step:alpha=%s" % meta["alpha"])
    n2, mis2, bad2, ok2 = H.run_corr(ctx, "s", "C01.Model.step_m/step_p/step_msl + kernel columns == solve_hydraulics "
                                               "(scripted spsolve, dyadic alpha, Q)", srecs, chunk=60)
    for gi in bad2[:3]:
        describe_bad(ctx, "solve_hydraulics update / kernel columns", specs[smetas[gi]["spec_i"]][0], smetas[gi],
                     "alpha=%s" % smetas[gi]["alpha"])
        suspects.append(specs[smetas[gi]["spec_i"]])
    # ---------------------------------------------------------------- H-tie 3: ConstFlow load aggregation
    lrecs, lmetas = [], []
    for i, (spec, prof) in enumerate(specs[:b["cf"]]):
        try:
            net = gen.build(spec)
            for txt, meta in H.constflow_cases(ctx.rng, net, use_numba=(i % 3 == 2)):
                ctx.count("constflow:numba=%s" % (i % 3 == 2))
                meta["spec_i"] = i
                lrecs.append(txt)
                lmetas.append(meta)
                ctx.case({"kind": "constflow", "table": meta["table"], "rows": meta["rows"],
                          "shared_junction": meta["shared_junction"], "oos": meta["oos"]},
                         meta["shared_junction"] or meta["oos"] > 0, key="l:%d:%s" % (i, meta["table"]))
                ctx.count("constflow:" + meta["table"])
        except ValueError as e:
            ctx.broken("correspondence", "ConstFlow exactness", str(e))
        except Exception as e:  # noqa: BLE001
            ctx.count("skipped_cf:" + type(e).__name__)
    n3, mis3, bad3, ok3 = H.run_corr(ctx, "l", "C01.Model.constflow_entries == Sink/Source/MassStorage.create_pit_node_entries "
                                               "(LOAD column, Z)", lrecs, chunk=120)
    for gi in bad3[:3]:
        describe_bad(ctx, "ConstFlow.create_pit_node_entries", specs[lmetas[gi]["spec_i"]][0], lmetas[gi], "LOAD column differs")
        suspects.append(specs[lmetas[gi]["spec_i"]])
    # ---------------------------------------------------------------- H-tie 3b: _sum_by_group itself
    try:
        gc = H.sumbygroup_cases(ctx.rng, 240 if ctx.quick else 4000)
    except ValueError as e:
        gc = []
        ctx.broken("correspondence", "_sum_by_group exactness", str(e))
    for txt, meta in gc:
        ctx.case({"kind": "sum_by_group", **meta}, meta["regime"] != "dense", key="g:" + txt[:600])
        ctx.count("sum_by_group:%s,numba=%s" % (meta["regime"], meta["numba"]))
    n3b, mis3b, bad3b, ok3b = H.run_corr(ctx, "g", "C01.Model.sum_by_group == _sum_by_group (numpy / numba dense / numba sparse "
                                                   "fallback; unsorted, repeated, sparse and high labels; Z)",
                                         [t for t, _ in gc], chunk=300)
    for gi in bad3b[:2]:
        txt, meta = gc[gi]
        # a concrete failing input of the property: the node load differs from the sum of the loads on the junction
        ctx.violation({"clause": "load_aggregation", "fn": "_sum_by_group", "numba": meta["numba"], "regime": meta["regime"]},
                      "_sum_by_group(use_numba=%s) does not return the per-label sums (what ConstFlow adds to LOAD): %s"
                      % (meta["numba"], txt[:300]), {"case": txt, "meta": meta,
                                                     "how": "pandapipes.pf.internals_toolbox._sum_by_group(use_numba, labels, values)"})
    # ---------------------------------------------------------------- H-tie 4: result extraction of node elements
    erecs, emetas, rrecs, rmetas = [], [], [], []
    for i, (spec, prof) in enumerate(specs[:b["cf"]]):
        try:
            txt, meta = H.extgrid_result_case(ctx.rng, gen.build(spec))
            meta["spec_i"] = i
            erecs.append(txt)
            emetas.append(meta)
            ctx.case({"kind": "extgrid_results", **{k: v for k, v in meta.items() if k != "spec_i"}},
                     meta["max_active_on_one_junction"] > 1 or meta["inactive_rows"] > 0, key="e:%d" % i)
            for txt, meta in H.constflow_result_cases(ctx.rng, gen.build(spec)):
                meta["spec_i"] = i
                rrecs.append(txt)
                rmetas.append(meta)
                ctx.case({"kind": "constflow_results", **{k: v for k, v in meta.items() if k != "spec_i"}},
                         meta["unsupplied_rows"] > 0 or meta["oos"] > 0, key="r:%d:%s" % (i, meta["table"]))
        except ValueError as e:
            ctx.broken("correspondence", "result extraction exactness", str(e))
        except Exception as e:  # noqa: BLE001
            ctx.count("skipped_extract:" + type(e).__name__)
    n4, mis4, bad4, ok4 = H.run_corr(ctx, "e", "C01.Model.extgrid_results == ExtGrid.extract_results (res_ext_grid.mdot_kg_per_s "
                                               "from MDOTSLACKINIT, even split over in-service p/pt grids, Q)", erecs, chunk=120)
    for gi in bad4[:3]:
        describe_bad(ctx, "ExtGrid.extract_results", specs[emetas[gi]["spec_i"]][0], emetas[gi], "res_ext_grid differs")
        suspects.append(specs[emetas[gi]["spec_i"]])
    n5, mis5, bad5, ok5 = H.run_corr(ctx, "r", "C01.Model.constflow_results == Sink/Source/MassStorage.extract_results "
                                               "(mdot*scaling iff in service and junction supplied, else NaN; Z)", rrecs, chunk=150)
    for gi in bad5[:3]:
        describe_bad(ctx, "ConstFlow.extract_results", specs[rmetas[gi]["spec_i"]][0], rmetas[gi], "res table differs")
        suspects.append(specs[rmetas[gi]["spec_i"]])
    # ---------------------------------------------------------------- search: exact oracle on the real matrix
    n_or = n_sing = 0
    for spec, prof in (suspects + specs)[:b["oracle"] + len(suspects)]:
        try:
            badc = exact_oracle(ctx, spec)
        except Exception as e:  # noqa: BLE001
            ctx.count("skipped_oracle:" + type(e).__name__)
            continue
        if badc is None:
            n_sing += 1
            continue
        n_or += 1
        for c in [x for x in badc if x["clause"] in ("balance_after_step", "slack_balance_after_step", "global_balance")][:1]:
            ctx.violation({"clause": c["clause"], "oracle": "exact-rational"},
                          "real build_system_matrix, kernel-conform integer columns, system solved over Q: %s fails (%s)"
                          % (c["clause"], c), {"spec": spec, "how": "tools/props/c01.py exact_oracle", "detail": c})
    ctx.count("oracle:solved", n_or)
    ctx.count("oracle:singular", n_sing)
    ctx.extra["exact_oracle_systems"] = n_or
    # ---------------------------------------------------------------- monitors on real pipeflow results
    extra = make_specs(ctx, max(0, b["monitor"] - len(specs)), heat_every=4) if b["monitor"] > len(specs) else []
    widen = 3 if (ctx.brokens and not ctx.violations) else 1
    if widen > 1:
        extra += make_specs(ctx, b["monitor"] * (widen - 1), heat_every=4)
    st = monitor_nets(ctx, suspects + specs + extra, "c01", (b["monitor"] + len(suspects)) * widen)
    ctx.extra["monitor"] = st
    ctx.note("monitor: %d nets converged, %d not converged, %d other errors, %d junction balances checked"
             % (st["ok"], st["notconv"], st["other"], st["checked"]))
    if st["ok"] < 10:
        ctx.broken("harness", "monitor", "fewer than 10 generated nets converged: %s" % st)


def replay_net(obj):
    """rebuild the net of a replay file (spec + the tables as they were at the failing step) and run it"""
    import pandas as pd
    rep = obj["replay"]
    net = gen.build(rep["spec"])
    opts = dict(rep.get("options", {}))
    if rep.get("step", 0) and rep.get("sequence") == "transient":
        # the earlier steps of the sequence on the same net object (the state they leave behind is the point)
        for st in range(rep["step"]):
            H.run_pipeflow(net, **dict(opts, simulation_time_step=st))
    elif rep.get("step", 0):
        H.run_pipeflow(net, **opts)
    for t, cols in rep.get("tables", {}).items():
        for c, vals in cols.items():
            net[t][c] = pd.Series(vals, index=net[t].index).astype(net[t][c].dtype, errors="ignore")
    print("pipeflow:", H.run_pipeflow(net, **opts))
    return net


def replay(ctx, path):
    import json
    obj = json.load(open(path))
    net = replay_net(obj)
    which = "c03" if obj.get("property") == "C03" else "c01"
    stats = {"ok": 0, "notconv": 0, "other": 0, "checked": 0}
    spec = obj["replay"]["spec"]
    _evaluate(ctx, net, which, spec, "replay", obj["replay"].get("sequence", "single"), obj["replay"].get("step", 0),
              obj["replay"].get("options", {}).get("tol_m", 1e-10), {"spec": spec}, ctx.violation, stats, gen.describe(spec))
    print("checked:", stats["checked"])
