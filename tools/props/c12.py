"""C12 - pipeflow is a pure, repeatable function of the network description (DESIGN.md 4/C12).

T-tie : tools/translate/effects.py regenerates coq/Gen/Effects.v (abstract program of one pipeflow call
        per configuration, per-function read/write sets, writes through aliases of user data); the theorems of
        coq/C12/Props.v (frame, def-use scan soundness, history independence, repetition, heat mode) are
        re-proved against it on every run.
Differential (monitor + failing-input search): generated histories on real nets; deep bit-exact snapshot
        of the user part before/after every call; every comparable call of the history vs the same call on a
        fresh deep copy that saw only the user's own operations - bit-identical.
"""
import copy
import json
import os
import sys
import time

sys.path.insert(0, os.path.dirname(os.path.dirname(os.path.abspath(__file__))))
from translate import effects as teff  # noqa: E402

CLAIM = {
    "text": "PROVED (Coq, 14 theorems, no axioms) over abstract programs of pipeflow regenerated from the Python sources on "
            "every run (12 configurations mode x only_update x reuse, 4 transient ones; try/except, raise sites, component "
            "classes, implicit exceptions in the Newton loop are part of the programs): (1) no call (returning or raising) "
            "rebinds a user key; no reachable function writes through an alias of user data; no module keeps state outside "
            "the net (memoisation, mutated globals/defaults); (2) soundness of a def-use scan (noninterference) and its "
            "acceptance for ALL configurations with exactly the named exceptions (_internal_data under reuse, hyd_flag in mode "
            "heat); hence (3) after any finite history of calls / failing calls / edits a call equals the same call on a net "
            "carrying only the description; (4) repetition identical; (5) mode heat depends on description, hyd_flag, sol_vec "
            "only, runs the same thermal-stage program as sequential and hands over exactly PINIT / MDOTINIT; (6) a call "
            "without reuse leaves no cache of its own at return, stage failure, or any raise (explicit/implicit) in the Newton "
            "loop, and a filled cache only at four listed raise sites between the loop and the clean-up; (7) transient mode "
            "carries exactly _pit, _old_pit, converged (+_active_pit in bidirectional). MONITORED (bit-identical differential, "
            "not proved): generated histories incl. fluid / std-type edits, leftover probe, description-object probe, "
            "heat(sol_vec) vs sequential (rtol 1e-9), transient steps vs fresh net with the carried keys, empty cache == absent.",
    "note": "All theorems closed under the global context. Trusted: the translator effects.py (syntactic alias / effect rules, "
            "allow-lists of pure / mutating methods, MRO resolution), key-level granularity (sub-structure of internal keys not "
            "separated), rerun_* recursion as bounded loop, implicit exceptions modelled only inside the Newton loop at the "
            "points where the cache key changes, 'empty dict == absent key' (monitored), absent user_pf_options == {}. The "
            "numerical equality heat-from-stored == sequential is a monitor; the theorem is program equality of the thermal "
            "stage + the hand-over columns.",
    "technique": "Coq proof over generated effect programs (T-tie) + bit-identical history differential",
    "design": "DESIGN.md 4/C12 + design_notes/C12.md",
}
GEN = [("Effects", lambda: teff.generate()[0])]

MODES_PLAIN = ["hydraulics", "sequential", "bidirectional"]


# ------------------------------------------------------------------------------------------ histories
def base_kwargs(rng, profile, thorough):
    kw = {"use_numba": False}
    r = rng.random()
    if r < 0.15:
        kw["friction_model"] = "colebrook"
    elif r < 0.25:
        kw["friction_model"] = "swamee-jain"
    if rng.random() < 0.2:
        kw["nonlinear_method"] = "automatic"
    if rng.random() < 0.15:
        kw["tol_m"] = 1e-7
    if thorough and rng.random() < 0.25:
        kw["use_numba"] = True
    return kw


def editable_cells(net, rng):
    """candidate (table, row, column, new value | "toggle") edits; includes infeasible ones"""
    import pandas as pd
    import numpy as np
    out = []
    for t in sorted(k for k in net.keys() if isinstance(net[k], pd.DataFrame) and not k.startswith("res_")
                    and not k.startswith("_") and len(net[k]) and not k.endswith("geodata")):
        df = net[t]
        for c in df.columns:
            if c in ("from_junction", "to_junction") and t in ("pipe", "valve", "flow_control", "pump") \
                    and len(net.junction) > 2:
                row = rng.choice(list(df.index))
                other = [j for j in net.junction.index if j != df.at[row, c]]
                out.append((t, int(row), c, int(rng.choice(other))))          # re-route one end
                continue
            if c in ("name", "type", "std_type", "et", "element", "junction", "from_junction", "to_junction",
                     "return_junction", "flow_junction", "sections"):
                continue
            row = rng.choice(list(df.index))
            v = df.at[row, c]
            if isinstance(v, (bool, np.bool_)):
                out.append((t, int(row), c, not bool(v)))
            elif isinstance(v, (float, np.floating)):
                f = float(v)
                if f != f:
                    out.append((t, int(row), c, rng.choice([120.0, 95.5])))
                else:
                    out.append((t, int(row), c, f * rng.choice([0.5, 1.25, 2.0, 1e4, -1.0]) if f else 0.3))
                    out.append((t, int(row), c, None))          # NaN
            elif isinstance(v, (int, np.integer)) and not isinstance(v, (bool, np.bool_)):
                out.append((t, int(row), c, int(v) + 1))
    return out


def fluid_ops(net, rng):
    """[(op, undo op)] on the fluid / standard types of this net"""
    out = []
    fl = net.fluid
    for name, prop in sorted(fl.all_properties.items()):
        if name not in ("density", "viscosity", "heat_capacity", "compressibility", "der_compressibility", "molar_mass"):
            continue
        try:
            v = float(prop.get_at_value(293.15) if name != "compressibility" else prop.get_at_value(5.0))
        except Exception:  # noqa: BLE001
            try:
                v = float(prop.get_at_value())
            except Exception:  # noqa: BLE001
                continue
        if v == v and name != "der_compressibility":
            out.append((["fluid_const", name, v * rng.choice([0.9, 1.05, 1.2])], ["fluid_restore", name]))
        out.append((["fluid_scale", name, rng.choice([0.9, 1.1, 1.25])], ["fluid_restore", name]))
    others = [f for f in (["water"] if not fl.is_gas else ["hgas", "lgas", "hydrogen", "methane"]) if f != fl.name]
    if others:
        out.append((["fluid_swap", rng.choice(others)], ["fluid_original"]))
    # things that live outside the element tables: new standard types (pump, pipe) with an element switched to them,
    # a first row of a component the net did not use so far
    if "pump" in net and len(net.pump) and "pump" in net.std_types:
        row = int(rng.choice(list(net.pump.index)))
        cur = net.pump.at[row, "std_type"]
        base = rng.choice([x for x in sorted(net.std_types["pump"].keys()) if x != cur] or [cur])
        out.append((["stdtype_new_pump", "verif_pump_%d" % rng.randint(0, 99), base, row],
                    ["edit", "pump", row, "std_type", cur]))
    if len(net.pipe):
        row = int(rng.choice(list(net.pipe.index)))
        out.append((["stdtype_new_pipe", "verif_pipe_%d" % rng.randint(0, 99),
                     {"inner_diameter_mm": rng.choice([70.3, 107.1, 131.7]), "outer_diameter_mm": 140.0,
                      "k_mm": rng.choice([0.1, 0.3]), "u_w_per_m2k": 0.0}, row], ["row_restore", "pipe", row]))
    js = [int(j) for j in net.junction.index[net.junction.in_service.values]]
    unused = [(fn, t, kw) for fn, t, kw in (
        ("create_source", "source", {"junction": rng.choice(js), "mdot_kg_per_s": 0.011}),
        ("create_mass_storage", "mass_storage", {"junction": rng.choice(js), "mdot_kg_per_s": 0.007}),
        ("create_valve", "valve", {"junction": js[0], "element": js[-1], "et": "ju", "inner_diameter_mm": 60.,
                                   "opened": True}),
        ("create_flow_control", "flow_control", {"from_junction": js[0], "to_junction": js[-1],
                                                 "controlled_mdot_kg_per_s": 0.013}))
              if (t not in net or not len(net[t])) and len(js) >= 2]
    if unused:
        fn, t, kw = rng.choice(unused)
        out.append((["add_component", fn, kw], ["drop_rows", t]))
    if "pump" in net and len(net.pump) and "pump" in net.std_types:
        used = sorted(set(net.pump.std_type.values))
        alls = sorted(net.std_types["pump"].keys())
        if used and len(alls) > 1:
            a = rng.choice(used)
            b = rng.choice([x for x in alls if x != a])
            out.append((["stdtype_swap", "pump", a, b], ["stdtype_swap", "pump", a, a]))
    return out


def gen_history(rng, net, profile, thorough):
    """2-8 operations; every edit is undone later or stays (both occur); ends with a comparable run"""
    from harness import c12_hist as H
    n = rng.randint(2, 8)
    modes = MODES_PLAIN if profile == "heat" else ["hydraulics", "hydraulics", "sequential", "bidirectional"]
    kw0 = base_kwargs(rng, profile, thorough)
    if rng.random() < 0.3:
        # every call of this history takes the matrix-update path (no reuse requested): anything kept from an
        # earlier call would be applied to a possibly restructured net
        kw0["only_update_hydraulic_matrix"] = True
    hist, pending = [], []
    scratch = copy.deepcopy(net)
    cells = editable_cells(scratch, rng)
    fops = fluid_ops(scratch, rng)
    toggles = [c for c in cells if isinstance(c[3], bool) or c[2] in ("from_junction", "to_junction")]
    upd_focus = bool(kw0.get("only_update_hydraulic_matrix"))
    if upd_focus and toggles:
        cells = cells + toggles * 3
    reuse_used = False
    while len(hist) < n - 1:
        r = rng.random()
        if r < 0.40:
            kw = dict(kw0, mode=rng.choice(modes))
            q = rng.random()
            if q < 0.15 or (upd_focus and q < 0.4):
                # (almost certainly) failing run: too few Newton or Colebrook iterations
                if rng.random() < 0.6:
                    kw["iter"] = 1
                else:
                    kw.update(friction_model="colebrook", max_iter_colebrook=rng.choice([1, 2, 3]))
            elif q < 0.35:
                kw.update(only_update_hydraulic_matrix=True, reuse_internal_data=rng.random() < 0.6)
            elif q < 0.45 and profile == "heat":
                # thermal run from the stored solution, directly after a hydraulic run with the same options
                hist.append(["run", dict(kw0, mode="hydraulics")])
                kw = dict(kw0, mode="heat")
            hist.append(["run", kw])
        elif r < 0.52 and fops:
            # the fluid / a standard type is part of the description too
            op, undo = rng.choice(fops)
            hist.append(op)
            pending.append(undo)
        elif r < 0.70 and cells:
            t, row, c, val = rng.choice(cells)
            old = H.cell(scratch, t, row, c)
            hist.append(["edit", t, row, c, val])
            scratch[t].at[row, c] = H.val_in(val)
            pending.append(["edit", t, row, c, old])
        elif r < 0.85 and pending:
            op = pending.pop(rng.randrange(len(pending)))
            hist.append(op)
            if op[0] == "edit":
                scratch[op[1]].at[op[2], op[3]] = H.val_in(op[4])
        elif r < 0.93:
            hist.append(["setopts", rng.choice([{"tol_p": 1e-6}, {"max_iter_hyd": 25}, {"iter": 30},
                                               {"ambient_temperature": 288.15}, {"alpha": 1}])])
        else:
            hist.append(["resetopts"])
    # undo most pending edits, then the final run
    for op in pending:
        if rng.random() < 0.8:
            hist.append(op)
    final = dict(kw0, mode=rng.choice(modes))
    if upd_focus and rng.random() < 0.6:
        final["reuse_internal_data"] = True       # comparable if no earlier call asked for reuse
    hist.append(["run", final])
    return hist


def comparable(kw, reuse_before):
    """a call is compared with the same call on a fresh copy unless it falls under the named exception:
    reuse_internal_data requested AND an earlier call of the history requested it too (only such a call may
    legitimately leave a cache)"""
    return not (kw.get("reuse_internal_data") and kw.get("only_update_hydraulic_matrix") and reuse_before)


def replay_history(spec, hist, check_every=True):
    """-> (problems, stats).  problems: list of dicts(kind, where, what, index)"""
    from harness import gen, c12_hist as H
    net0 = gen.build(spec)
    net = copy.deepcopy(net0)
    problems, stats = [], {"runs": 0, "compared": 0, "failed_runs": 0, "heat_runs": 0}
    user_ops = []
    reuse_before = False
    prev_failure = "none"
    for i, op in enumerate(hist):
        if op[0] != "run":
            H.apply_user_op(net, op, net0)
            user_ops.append(op)
            continue
        kw = op[1]
        before = H.snap_user(net)
        sol = None
        if kw.get("mode") == "heat":
            sol = H.stored_solution(net) if "_pit" in net else None
        st = H.do_run(net, kw, sol_vec=sol)
        stats["runs"] += 1
        stats["failed_runs"] += st[0] != "ok"
        stats["heat_runs"] += kw.get("mode") == "heat"
        after = H.snap_user(net)
        d = H.diff_snap(before, after)
        if d:
            problems.append({"kind": "user-part-modified", "where": d.split("[")[0], "index": i,
                             "what": "pipeflow(%s) changed %s" % (kw, d)})
        cmp_ok = comparable(kw, reuse_before)
        reuse_before = reuse_before or bool(kw.get("reuse_internal_data") and kw.get("only_update_hydraulic_matrix"))
        this_failure, prev = (st[2] if st[0] != "ok" else None), prev_failure
        if this_failure:
            prev_failure = this_failure
        if not cmp_ok or not (check_every or i == len(hist) - 1):
            continue
        fresh = copy.deepcopy(net0)
        for u in user_ops:
            H.apply_user_op(fresh, u, net0)
        if kw.get("mode") == "heat":
            # the excepted state: a converged hydraulic solution of the *same* description
            hk = dict(kw, mode="hydraulics")
            if H.do_run(fresh, hk)[0] != "ok":
                continue
            st2 = H.do_run(fresh, kw)
        else:
            st2 = H.do_run(fresh, kw)
        stats["compared"] += 1
        ra, rb = H.snap_results(net), H.snap_results(fresh)
        if st[0] != st2[0]:
            problems.append({"kind": "history-dependence", "where": "outcome", "index": i,
                             "prev_failure_site": prev,
                             "outcomes": "/".join(sorted([st[0], st2[0]])),
                             "what": "pipeflow(%s) after the history: %s %s; on a fresh copy: %s %s"
                                     % (kw, st[0], st[1][:80], st2[0], st2[1][:80])})
        else:
            d = H.diff_snap(ra, rb)
            if d:
                problems.append({"kind": "history-dependence", "where": d.split("[")[0], "index": i,
                                 "prev_failure_site": prev,
                                 "outcomes": st[0],
                                 "what": "pipeflow(%s): %s differs between the net with history and a fresh copy"
                                         % (kw, d)})
        if H.diff_snap(H.snap_user(fresh), after):
            problems.append({"kind": "user-part-modified", "where": "fresh-vs-history", "index": i,
                             "what": "user part differs between fresh copy and history net: %s"
                                     % H.diff_snap(H.snap_user(fresh), after)})
    return problems, stats


def shrink_history(spec, hist, pred):
    """drop operations while the predicate (same first problem kind) still holds"""
    cur = list(hist)
    changed = True
    while changed and len(cur) > 1:
        changed = False
        for i in range(len(cur) - 1):
            cand = cur[:i] + cur[i + 1:]
            try:
                if pred(cand):
                    cur, changed = cand, True
                    break
            except Exception:  # noqa: BLE001
                pass
    return cur


# ------------------------------------------------------------------------------------------ targeted search
def cfg_kwargs(mode, upd, reuse):
    kw = {"mode": mode, "use_numba": False}
    if upd:
        kw["only_update_hydraulic_matrix"] = True
    if reuse:
        kw["reuse_internal_data"] = True
    return kw


def search_stale(ctx, specs, mode, upd, reuse, fn, key):
    """the scan rejected configuration (mode, upd, reuse): function fn reads internal key `key` that the call has
    not written.  Look for two histories with the same description whose final call differs."""
    from harness import gen, c12_hist as H
    pres = [[], [["run", {"mode": "hydraulics", "use_numba": False}]],
            [["run", {"mode": "hydraulics", "use_numba": False, "only_update_hydraulic_matrix": True,
                      "reuse_internal_data": True}]],
            [["run", {"mode": "sequential", "use_numba": False}]],
            [["run", {"mode": "hydraulics", "use_numba": False, "iter": 1}]],
            [["run", {"mode": "bidirectional", "use_numba": False}]]]
    final0 = cfg_kwargs(mode, upd, reuse)
    finals = [final0]
    if not upd and not reuse:
        finals.append(dict(final0, only_update_hydraulic_matrix=True))     # same configuration class for the scan
    for spec in specs:
        # pre-histories on a *perturbed* description that is restored before the final call
        net_p = gen.build(spec)
        perturb = []
        for eg in net_p.ext_grid.index:                       # every supply point switched off once
            perturb.append(("ext_grid", int(eg), "in_service", False, bool(net_p.ext_grid.at[eg, "in_service"])))
        for t, row, c, val in editable_cells(net_p, ctx.rng):
            if isinstance(val, bool) and len(perturb) < 6:
                perturb.append((t, row, c, val, H.cell(net_p, t, row, c)))
        for final in finals:
            # a kept _internal_data is the named exception of its own key only
            pre_all = [q for q in pres if key == "_internal_data" or
                       not any(o[0] == "run" and o[1].get("reuse_internal_data") for o in q)]
            for t, row, c, val, old in perturb:
                pre_all.append([["edit", t, row, c, val], ["run", dict(final, mode="hydraulics" if mode == "heat" else mode)],
                                ["edit", t, row, c, old]])
            outcomes = []
            for pre in pre_all:
                try:
                    net = gen.build(spec)
                    ref = gen.build(spec)
                    sol = None
                    if mode == "heat":
                        if H.do_run(ref, {"mode": "hydraulics", "use_numba": False})[0] != "ok":
                            break
                        sol = H.stored_solution(ref)
                    for op in pre:
                        if op[0] == "run":
                            H.do_run(net, op[1])
                        else:
                            H.apply_user_op(net, op)
                    if mode == "heat":
                        import pandapipes as pp
                        pp.set_user_pf_options(net, hyd_flag=True)  # the excepted state is given: same flag, same sol_vec
                    st = H.do_run(net, final, sol_vec=sol)
                    outcomes.append((pre, st[0], json.dumps(H.snap_results(net), sort_keys=True) if st[0] == "ok" else st[1][:60]))
                except Exception as e:  # noqa: BLE001
                    outcomes.append((pre, "harness:" + type(e).__name__, str(e)[:60]))
            kinds = sorted(set((o[1], o[2]) for o in outcomes))
            if len(kinds) > 1:
                a = outcomes[0]
                b = next(o for o in outcomes if (o[1], o[2]) != (a[1], a[2]))
                sig = {"kind": "stale-read", "key": key, "function": fn, "mode": mode,
                       "only_update_hydraulic_matrix": bool(final.get("only_update_hydraulic_matrix")),
                       "reuse_internal_data": bool(reuse), "outcomes": "/".join(sorted(set([a[1], b[1]])))}
                ctx.violation(sig, "pipeflow(%s) depends on what was calculated before: after %s -> %s; after %s -> %s "
                                   "(%s reads net[%r] left by an earlier call)"
                              % (final, a[0] or "nothing", a[1], b[0], b[1], fn, key),
                              {"spec": spec, "pre_a": a[0], "pre_b": b[0], "final": final})
                return True
    return False


def probe_leftover(ctx, specs):
    """search for the conclusion of no_cache_left_behind: a FAILED call without reuse_internal_data on a
    temporarily different description, then the same description as a fresh net, then a call with
    only_update_hydraulic_matrix + reuse_internal_data - must equal the fresh net"""
    from harness import gen, c12_hist as H
    inducers = [{"iter": 1}, {"friction_model": "colebrook", "max_iter_colebrook": 1},
                {"friction_model": "colebrook", "max_iter_colebrook": 2},
                {"friction_model": "colebrook", "max_iter_colebrook": 3}]
    n = bad = 0
    seen = set()
    for p, spec in specs:
        net_p = gen.build(spec)
        cand = [c for c in editable_cells(net_p, ctx.rng)
                if isinstance(c[3], bool) or c[2] in ("from_junction", "to_junction")][:5]
        cand.append(None)                                        # failing call on the unchanged description
        for mode in (["hydraulics", "bidirectional"] if p == "heat" else ["hydraulics"]):
            final = {"mode": mode, "use_numba": False, "only_update_hydraulic_matrix": True,
                     "reuse_internal_data": True}
            fresh = gen.build(spec)
            st_f = H.do_run(fresh, final)
            rf = H.snap_results(fresh)
            for c in cand:
                for ind in inducers:
                    net = gen.build(spec)
                    hist = []
                    if c is not None:
                        old = H.cell(net, c[0], c[1], c[2])
                        hist.append(["edit", c[0], c[1], c[2], c[3]])
                    pre = dict({"mode": mode, "use_numba": False, "only_update_hydraulic_matrix": True}, **ind)
                    hist.append(["run", pre])
                    if c is not None:
                        hist.append(["edit", c[0], c[1], c[2], old])
                    hist.append(["run", final])
                    try:
                        site = None
                        for op in hist[:-1]:
                            if op[0] == "run":
                                r = H.do_run(net, op[1])
                                site = r[2] if r[0] != "ok" else None
                            else:
                                H.apply_user_op(net, op)
                        if site is None:
                            continue                             # the inducer did not make the call fail
                        st = H.do_run(net, final)
                    except Exception as e:  # noqa: BLE001
                        ctx.broken("harness", "leftover probe", repr(e))
                        continue
                    n += 1
                    d = None if st[0] != st_f[0] else H.diff_snap(H.snap_results(net), rf)
                    if st[0] != st_f[0] or d:
                        bad += 1
                        if site in seen:
                            continue
                        seen.add(site)
                        ctx.violation({"kind": "cache-left-behind", "key": "_internal_data", "prev_failure_site": site,
                                       "mode": mode},
                                      "a failed pipeflow(%s) [raised in %s] leaves its cached matrix on the net: the "
                                      "later pipeflow(%s) gives %s%s, on a fresh net %s"
                                      % (pre, site, final, st[0], (" with different " + d) if d else "", st_f[0]),
                                      {"spec": spec, "history": hist})
    ctx.corr("leftover probe: failed call without reuse, then only_update+reuse call == fresh net", n, bad)
    # an empty dict in the cache key is as good as no key (premise of cache_filled_only_at_listed_sites)
    n = bad = 0
    for p, spec in specs:
        for mode in (["hydraulics", "bidirectional"] if p == "heat" else ["hydraulics"]):
            final = {"mode": mode, "use_numba": False, "only_update_hydraulic_matrix": True,
                     "reuse_internal_data": True}
            a, b = gen.build(spec), gen.build(spec)
            a["_internal_data"] = dict()
            sa, sb = H.do_run(a, final), H.do_run(b, final)
            n += 1
            if sa[0] != sb[0] or H.diff_snap(H.snap_results(a), H.snap_results(b)):
                bad += 1
                ctx.violation({"kind": "empty-cache-not-absent", "mode": mode},
                              "pipeflow(%s) on a net with net['_internal_data'] = {} differs from the net without the key"
                              % final, {"spec": spec})
    ctx.corr("empty cache dict == absent cache key for a call with reuse", n, bad)


def probe_description_objects(ctx, specs):
    """the fluid and the standard types are objects of the description: calculate, change one of them on the SAME
    net / Fluid object (replace a property, alter its parameters in place, swap the fluid, swap a standard type),
    calculate again - and: change, calculate, restore, calculate.  Every call must equal the same call on a fresh
    copy in the same state (bit-identical).  This is the search for state kept outside the net (hidden_state)."""
    from harness import gen
    n = bad = 0
    seen = set()
    for p, spec in specs:
        net = gen.build(spec)
        kws = [{"mode": "hydraulics", "use_numba": False}]
        if p == "heat":
            kws.append({"mode": "sequential", "use_numba": False})
        fo = fluid_ops(net, ctx.rng)
        if ctx.quick and len(fo) > 3:
            # always the density (used in several places of the calculation), the rest sampled
            dens = [x for x in fo if x[0][1] == "density"][:2]
            outside = [x for x in fo if x[0][0] in ("stdtype_new_pump", "stdtype_new_pipe", "add_component")]
            rest = [x for x in fo if x not in dens and x not in outside]
            ctx.rng.shuffle(rest)
            fo = dens + outside + rest[:1]
        for op, undo in fo:
            for kw in (kws if not ctx.quick else kws[-1:]):
                for hist in ([["run", kw], op, ["run", kw]], [op, ["run", kw], undo, ["run", kw]]):
                    try:
                        problems, stats = replay_history(spec, hist)
                    except Exception as e:  # noqa: BLE001
                        ctx.broken("harness", "description-object probe", repr(e) + " " + json.dumps(hist)[:200])
                        continue
                    n += stats["compared"]
                    if problems:
                        bad += 1
                        pb = problems[0]
                        key = (pb["kind"], op[0], op[1])
                        if key in seen:
                            continue
                        seen.add(key)
                        ctx.violation({"kind": pb["kind"], "where": pb["where"], "after_edit": "%s:%s" % (op[0], op[1]),
                                       "mode": kw["mode"]},
                                      "after %s on the same net object: %s" % (json.dumps(op), pb["what"]),
                                      {"spec": spec, "history": hist})
    ctx.corr("description-object probe: calls around fluid / standard-type changes == fresh copy in the same state",
             n, bad)


CARRIED = {"sequential": ["_pit", "_old_pit", "converged"],
           "bidirectional": ["_pit", "_old_pit", "converged", "_active_pit"]}


def transient_monitor(ctx, specs):
    """companion of transient_carried_keys: several transient steps on ONE net object vs, for every later step, a
    fresh copy of the pristine net that carries the current description and exactly the listed internal keys of the
    previous step - must give bit-identical results (the exception set is sufficient); without "_pit" the step must
    not reproduce them (the set is not vacuous)"""
    from harness import gen, c12_hist as H
    n = bad = needed = 0
    for p, spec in specs:
        if p != "heat":
            continue
        for mode in ("sequential", "bidirectional"):
            net0 = gen.build(spec)
            a = copy.deepcopy(net0)
            kw = {"mode": mode, "transient": True, "dt": ctx.rng.choice([30., 120.]), "use_numba": False, "iter": 30}
            if H.do_run(a, dict(kw, simulation_time_step=0))[0] != "ok":
                continue
            edits = []
            for k in (1, 2, 3):
                cand = [c for c in editable_cells(a, ctx.rng) if c[0] in ("heat_consumer", "circ_pump_pressure",
                                                                           "circ_pump_mass", "heat_exchanger", "pipe")
                        and isinstance(c[3], float) and c[2] in ("qext_w", "controlled_mdot_kg_per_s", "t_flow_k",
                                                                  "plift_bar", "u_w_per_m2k", "text_k", "deltat_k",
                                                                  "treturn_k") and abs(c[3]) < 1e6 and c[3] > 0]
                if cand:
                    t, row, c, val = ctx.rng.choice(cand)
                    old = H.cell(a, t, row, c)
                    val = (old or 1.0) * ctx.rng.choice([0.8, 1.1, 1.25]) if old else val
                    edits.append(["edit", t, row, c, val])
                    H.apply_user_op(a, edits[-1], net0)
                carried = {key: copy.deepcopy(a[key]) for key in CARRIED[mode] if key in a}
                st_a = H.do_run(a, dict(kw, simulation_time_step=k))
                b = copy.deepcopy(net0)
                for e in edits:
                    H.apply_user_op(b, e, net0)
                for key, v in carried.items():
                    b[key] = v
                st_b = H.do_run(b, dict(kw, simulation_time_step=k))
                n += 1
                ra, rb = H.snap_results(a), H.snap_results(b)
                if st_a[0] != "ok":
                    # observation (transient is outside the 20 properties): a failing transient step leaves the
                    # res_internal table of the previous step on the net; it is not a carried key
                    ra.pop("res_internal", None)
                    rb.pop("res_internal", None)
                d = None if st_a[0] != st_b[0] else H.diff_snap(ra, rb)
                if st_a[0] != st_b[0] or d:
                    bad += 1
                    ctx.violation({"kind": "transient-carried-keys", "mode": mode, "where": (d or "outcome").split("[")[0]},
                                  "transient step %d (%s): the net with the previous steps gives %s, a fresh net carrying "
                                  "the description and %s gives %s%s" % (k, mode, st_a[0], CARRIED[mode], st_b[0],
                                                                           (" with different " + d) if d else ""),
                                  {"spec": spec, "kwargs": kw, "edits": edits, "step": k})
                # necessity: without the carried pit the step cannot be reproduced
                c2 = copy.deepcopy(net0)
                for e in edits:
                    H.apply_user_op(c2, e, net0)
                st_c = H.do_run(c2, dict(kw, simulation_time_step=k))
                if st_c[0] != st_a[0] or H.diff_snap(H.snap_results(a), H.snap_results(c2)):
                    needed += 1
                if st_a[0] != "ok":
                    break
    ctx.corr("transient monitor: step k on the net with history == fresh net carrying exactly the keys of "
             "transient_carried_keys (bit-identical)", n, bad, "steps not reproducible without the carried keys: %d" % needed)


# ------------------------------------------------------------------------------------------ main
def make_specs(ctx, n):
    from harness import gen
    specs = []
    profs = ["water", "heat", "gas", "heat", "water", "heat"]
    from harness import c12_hist as H
    for i in range(n):
        p = profs[i % len(profs)]
        if p != "heat" and i % 2 == 0:
            # two supply areas: switching an external grid changes which part is calculated
            spec, changed = H.with_second_supply_area(gen.gen_net(ctx.rng, p, features={"island": True}), ctx.rng)
            ctx.count("two_supply_areas", 1 if changed else 0)
        else:
            spec = gen.gen_net(ctx.rng, p)
        specs.append((p, spec))
    return specs


def heat_vs_sequential(ctx, specs):
    """monitor for theorem 5: thermal run from the stored solution == thermal part of the sequential run"""
    from harness import gen, c12_hist as H
    n = bad = 0
    for p, spec in specs:
        if p != "heat":
            continue
        a, b = gen.build(spec), gen.build(spec)
        if H.do_run(a, {"mode": "sequential", "use_numba": False})[0] != "ok":
            continue
        if H.do_run(b, {"mode": "hydraulics", "use_numba": False})[0] != "ok":
            continue
        if H.do_run(b, {"mode": "heat", "use_numba": False})[0] != "ok":
            ctx.violation({"kind": "heat-from-stored", "where": "outcome"},
                          "sequential converges but heat from the stored hydraulic solution does not", {"spec": spec})
            bad += 1
            continue
        n += 1
        import numpy as np
        for t in ("res_junction", "res_pipe", "res_heat_consumer", "res_heat_exchanger"):
            if t not in a or not len(a[t]):
                continue
            for c in a[t].columns:
                if not (c.startswith("t_") or c in ("t_k", "qext_w", "deltat_k")):
                    continue
                x, y = a[t][c].values.astype(float), b[t][c].values.astype(float)
                if not np.allclose(x, y, rtol=1e-9, atol=1e-9, equal_nan=True):
                    bad += 1
                    ctx.violation({"kind": "heat-from-stored", "where": "%s.%s" % (t, c)},
                                  "thermal results from the stored hydraulic solution differ from the sequential "
                                  "run: %s.%s %r vs %r" % (t, c, x.tolist(), y.tolist()), {"spec": spec})
                    break
    ctx.corr("monitor heat(sol_vec) == sequential (rtol 1e-9)", n, bad)


def run(ctx):
    from harness import gen
    ctx.extra["rule"] = ("a case = (generated net, history of 2-8 operations); non-trivial iff the history contains "
                         ">= 2 pipeflow calls and (an edit or a failing call or a change of mode/options between calls)")
    t0 = time.time()
    scan_info = None
    for name, fn in GEN:
        try:
            text, sc, progs = teff.generate()
            ctx.gen(name, text)
            scan_info = (sc, progs)
        except Exception as e:  # noqa: BLE001
            ctx.broken("translator", name, repr(e))
    proved = ctx.prove("C12", timeout=900)
    ctx.note("effects scan + proofs: %.0fs" % (time.time() - t0))
    n_nets = 10 if ctx.quick else 60
    n_hist = 5 if ctx.quick else 30
    specs = make_specs(ctx, n_nets)
    # ---- findings of the scan itself, replayed on the implementation
    if scan_info:
        sc, progs = scan_info
        ctx.extra["functions_scanned"] = len(sc.reach)
        ctx.extra["program_sizes"] = {teff.cfg_name(*k): teff.size(v) for k, v in progs.items()}
        searched = set()
        for k, tr in progs.items():
            pr = []
            teff.py_scan(tr, set(), teff.allowed_for(*k), pr)
            if not pr:
                continue
            kind, key, fn = pr[0]                       # first offending read in program order
            ctx.note("scan rejects %s: %s reads %s before this call wrote it" % (teff.cfg_name(*k), fn, key))
            if (fn, key, k[0]) in searched or len(searched) >= 4:
                continue
            searched.add((fn, key, k[0]))
            found = search_stale(ctx, [s for _, s in specs][:6], k[0], k[1], k[2], fn, key)
            if not found:
                ctx.broken("scan", "%s: %s reads stale %s" % (teff.cfg_name(*k), fn, key),
                           "no concrete history found that shows the dependence")
        stage_leaks = sorted(set(teff.cfg_name(*k) for k, tr in progs.items() if not k[2] and
                                 "W" in set().union(*teff.py_eff(tr, "_internal_data",
                                                                 lambda x: x in teff.STAGE_FAILURE_SITES))))
        if stage_leaks:
            ctx.note("a call without reuse may leave its own _internal_data at a return / stage-failure exit in: %s"
                     % stage_leaks)
        inner = sorted(set(x for k, tr in progs.items() if not k[2] for x in teff.leaky_sites(tr)))
        ctx.extra["raise_sites_inside_the_loop_keeping_the_cache"] = inner
        for mod, where, kind in getattr(sc, "hidden_state", []):
            ctx.note("state outside the net: %s %s: %s" % (mod, where, kind))
        for fnq, key, how, line in sc.alias_writes:
            ctx.note("alias write: %s -> %s (%s, line %d)" % (fnq, key, how, line))
    # ---- differential
    tot = {"runs": 0, "compared": 0, "failed_runs": 0, "heat_runs": 0}
    n_cases = n_bad = 0
    deadline = time.time() + (110 if ctx.quick else 900)
    for p, spec in specs:
        net = gen.build(spec)
        for _ in range(n_hist):
            if time.time() > deadline:
                break
            hist = gen_history(ctx.rng, net, p, not ctx.quick)
            try:
                problems, stats = replay_history(spec, hist)
            except Exception as e:  # noqa: BLE001
                ctx.broken("harness", "history replay", repr(e) + " " + json.dumps(hist)[:300])
                continue
            for k in tot:
                tot[k] += stats[k]
            n_cases += 1
            runs = [o for o in hist if o[0] == "run"]
            nontrivial = len(runs) >= 2 and (any(o[0] != "run" for o in hist) or stats["failed_runs"] > 0 or
                                            len(set(json.dumps(o[1], sort_keys=True) for o in runs)) > 1)
            ctx.case({"profile": p, "net": gen.describe(spec), "history": hist}, nontrivial)
            ctx.count("profile_" + p)
            ctx.count("ops_%d" % len(hist))
            if problems:
                n_bad += 1
                pb = problems[0]

                def pred(h, kind=pb["kind"], where=pb["where"]):
                    ps, _ = replay_history(spec, h)
                    return any(q["kind"] == kind and q["where"] == where for q in ps)
                small = shrink_history(spec, hist[:pb["index"] + 1], pred)
                kw = hist[pb["index"]][1]
                sig = {"kind": pb["kind"], "where": pb["where"], "mode": kw.get("mode"),
                       "only_update_hydraulic_matrix": bool(kw.get("only_update_hydraulic_matrix")),
                       "reuse_internal_data": bool(kw.get("reuse_internal_data"))}
                if "outcomes" in pb:
                    sig["outcomes"] = pb["outcomes"]
                if "prev_failure_site" in pb:
                    sig["prev_failure_site"] = pb["prev_failure_site"]
                if pb["kind"] == "user-part-modified":
                    sig = {"kind": pb["kind"], "where": pb["where"]}
                ctx.violation(sig, pb["what"], {"spec": spec, "history": small, "full_history": hist})
    ctx.corr("history differential: every comparable call == same call on a fresh copy (bit-identical) "
             "and user part unchanged", n_cases, n_bad,
             "calls %(runs)d, compared %(compared)d, failing calls %(failed_runs)d, heat-from-stored %(heat_runs)d" % tot)
    for k, v in tot.items():
        ctx.count(k, v)
    probe_leftover(ctx, specs[:6] if ctx.quick else specs[:20])
    # where a fluid property enters depends on the net (heights, pumps / compressors, friction model, thermal part):
    # all generated nets plus gas / water nets with height differences
    extra = []
    npump = 0
    for _ in range(60):                                   # water nets with an in-service pump (standard types in use)
        if npump >= (3 if ctx.quick else 6):
            break
        sp = gen.gen_net(ctx.rng, "water")
        if any(fn == "create_pump" and kw.get("in_service", True) for fn, kw in sp["ops"]):
            from harness import c12_hist as H
            if H.do_run(gen.build(sp), {"mode": "hydraulics", "use_numba": False})[0] != "ok":
                continue                                  # a net that does not converge shows nothing
            extra.append(("water", sp))
            npump += 1
    want = ["gas", "gas", "gas", "water"] if ctx.quick else ["gas"] * 8 + ["water"] * 4
    for _ in range(80):
        if not want:
            break
        sp = gen.gen_net(ctx.rng, want[0])
        if sum(1 for fn, kw in sp["ops"] if fn == "create_junction" and kw.get("height_m")) >= 2:
            extra.append((want.pop(0), sp))
    probe_description_objects(ctx, extra + (specs if ctx.quick else specs[:20]))
    heat_vs_sequential(ctx, specs)
    try:
        transient_monitor(ctx, specs if ctx.quick else specs[:30])
    except Exception:  # noqa: BLE001
        import traceback
        ctx.broken("harness", "transient monitor", traceback.format_exc()[-800:])
    if not proved and not ctx.violations:
        ctx.note("obligation broken and the differential found no concrete input")


def replay(ctx, path):
    obj = json.load(open(path))
    r = obj["replay"]
    if "history" in r:
        problems, _ = replay_history(r["spec"], r["history"])
        for pb in problems:
            ctx.violation(obj["signature"], pb["what"], r)
        if not problems:
            print("replay: no problem reproduced")
    else:
        print("replay of targeted searches: run ./check C12")
