"""C16 - element creation keeps the net referentially intact, atomic and as documented (DESIGN.md 4/C16).

T-tie : Gen/CreateSigs.v = one schema per create function, regenerated from the AST of create.py
        (table, reference columns + whether checked before the first write, std-type column, ext-grid-like
        type inference, failure possible after the row write, literal defaults).
H-tie : coq/C16/Model.v (NetDB: create1 / create_bulk over any schema) vs the real functions on empty and
        populated nets: valid calls and every kind of invalid reference at every reference position;
        outcome, returned labels, label + reference columns of the target table and std-type count are
        compared inside Coq.
Monitors (failing-input search, Python): deep snapshot identical after every rejected call; accepted calls
        add exactly the rows, leave all else bit-identical, keep declared dtypes, keep referential integrity;
        bulk == fold of the single twin table by table; create_pipe(std type) == create_pipe_from_parameters
        (that type's parameters) for every library pipe type; scalar vs vectorised ext-grid type inference;
        pipeflow on default-created std-type pipes.
"""
import copy
import itertools
import json
import math
import os
import sys

sys.path.insert(0, os.path.dirname(os.path.dirname(os.path.abspath(__file__))))
from vlib import cstr, cz, cbool, clist, cnat  # noqa: E402
from translate import createsigs as tsig  # noqa: E402

CLAIM = {
    "text": "Unbounded theorems over ONE parametric model (NetDB) of all 28 create functions, for any schema, any call "
            "sequence (single / bulk, accepted, rejected or failing late) from any empty net: unique labels + referential "
            "integrity invariant (all reference columns for every generated function except create_pump_from_parameters); "
            "rejection of missing junction / pipe / std type, unconnected pipe, unknown et, duplicate or existing label, "
            "unequal bulk lengths, one bad row, missing p and t; atomicity of every rejection that precedes the row write; "
            "accepted calls add exactly the requested rows WITH THEIR VALUES: every value column holds the argument passed "
            "for the parameter that feeds it, else the signature's literal default, else None (column -> parameter map, "
            "defaults and 'computed' columns generated from the AST of create.py; canonical dtype-free cell encoding); "
            "bulk = left fold of the single twin with consecutive labels from max+1; total decision table of the ext-grid "
            "type inference, scalar = vectorised on allowed types. Twelve computed theorems pin what the regenerated "
            "schemas say (checked reference columns, no failure after the write, twin shapes / columns / defaults equal, "
            "arguments land in the column of their name, computed columns, index-length check), each with its listed "
            "exceptions = known findings. Tie: exact correspondence inside Coq (outcome, labels, reference columns, value "
            "cells of the new rows, std-type count) for every function x fault kind x reference position x base net.",
    "note": "All 34 theorems closed under the global context (no axioms). Kept visible as refuted: atomicity for failures "
            "after the row write (geodata of the bulk / pipe functions), scalar = vector for unknown types. Columns computed "
            "by the function (std-type parameters of create_pipe(s) - their values are C19.std_type_reaches_pipe_unchanged -, "
            "inferred ext-grid type, clamped storage level) are 'Derived' and only covered by the differential monitors "
            "(std-type vs parameters for all 286 library types, bulk vs fold, Series arguments, reuse of std types, thermal "
            "default run). bool(x) columns are modelled for Python bools only. pandas dtype coercion and pandapower index "
            "helpers are oracles exercised by every case; deprecated keywords (alpha_w_per_m2k, diameter_m, qext_w) are outside "
            "the model. create_pressure_control is driven with check_controllability=False.",
    "technique": "Coq proof over hand-written parametric model + schemas (references, column map, defaults) generated from the "
                 "AST + exact model/implementation correspondence inside Coq + differential monitors",
    "design": "DESIGN.md 4/C16 + design_notes/C16.md",
}
GEN = [("CreateSigs", lambda: tsig.generate()[0])]

VAL = {"pn_bar": 5.0, "tfluid_k": 300.0, "mdot_kg_per_s": 0.5, "length_km": 1.0, "inner_diameter_mm": 100.0,
       "qext_w": 1000.0, "p_flow_bar": 5.0, "plift_bar": 1.0, "mdot_flow_kg_per_s": 2.0, "pressure_ratio": 1.25,
       "controlled_p_bar": 4.0, "controlled_mdot_kg_per_s": 0.25, "nr_junctions": 2}
# arguments that make the step AFTER the row write fail (model: a_late_bad)
LATE_BAD = {"create_junction": {"geodata": (1, 2, 3)},
            "create_junctions": {"geodata": [(1, 2, 3), (4, 5, 6)]},
            "create_pipes": {"geodata": 5},
            "create_pipes_from_parameters": {"geodata": 5}}
MISSING_J, MISSING_P = 987654, 876543


# ----------------------------------------------------------------------------------------------- nets
def base_nets(ctx):
    """(name, builder) of nets the calls are made on: each has >= 4 junctions and >= 2 pipes"""
    import pandapipes as pp
    from harness import gen

    def small(labels, fluid):
        def f():
            net = pp.create_empty_network(fluid=fluid)
            for l in labels:
                pp.create_junction(net, 5, 300, index=l)
            pp.create_pipe_from_parameters(net, labels[0], labels[1], 1., 100., index=labels[1])
            pp.create_pipe_from_parameters(net, labels[1], labels[2], 1., 100., index=labels[3] + 11)
            return net
        return f

    def fresh(n):
        def f():
            net = pp.create_empty_network(fluid="water")
            pp.create_junctions(net, n, 5, 300)
            pp.create_pipes_from_parameters(net, [0, 1], [1, 2], 1., 100.)
            return net
        return f

    nets = [("fresh4", fresh(4)), ("sparse", small([7, 3, 12, 5], "water")), ("large", small([100005, 3, 100001, 9], "lgas"))]
    n_gen = 1 if ctx.quick else 12
    for i in range(n_gen):
        for prof in ("water", "gas", "heat"):
            for _ in range(20):
                spec = gen.gen_net(ctx.rng, prof)
                njun = sum(1 for fn, _ in spec["ops"] if fn == "create_junction")
                npipe = sum(1 for fn, _ in spec["ops"] if fn == "create_pipe_from_parameters")
                if njun >= 4 and npipe >= 2:
                    break
            nets.append(("%s%d" % (prof, i), (lambda s: (lambda: gen.build(s)))(spec)))
    return nets


def deep_snapshot(net):
    from harness import drive
    snap = {"tables": drive.snapshot_tables(net)}
    st = {}
    for tab, d in net.get("std_types", {}).items():
        st[tab] = {k: (repr(sorted((kk, repr(vv)) for kk, vv in v.items())) if isinstance(v, dict) else
                       repr(getattr(v, "reg_par", None)) + type(v).__name__) for k, v in d.items()}
    snap["std_types"] = st
    fl = net.get("fluid", None)
    snap["fluid"] = None if fl is None else (fl.name, fl.fluid_type, sorted(
        (k, type(p).__name__) for k, p in fl.all_properties.items()))
    snap["component_list"] = [c.__name__ for c in net["component_list"]]
    snap["scalars"] = {k: repr(net[k]) for k in ("name", "sector", "version", "format_version") if k in net}
    snap["keys"] = sorted(k for k in net.keys() if not k.startswith("_"))
    return snap


def snap_diff(a, b):
    out = []
    for k in a:
        if a[k] != b[k]:
            if k == "tables":
                out += ["table:" + t for t in sorted(set(a[k]) | set(b[k])) if a[k].get(t) != b[k].get(t)]
            else:
                out.append(k)
    return out


# ----------------------------------------------------------------------------------------------- schemas
class Sig:
    def __init__(self, d):
        self.__dict__.update(d)
        self.req = [p for p, dflt in self.params if dflt == tsig.REQUIRED]
        self.pnames = [p for p, _ in self.params]
        self.ref_params = [r["param"] for r in self.refcols]


def table_refcols(sigs, table):
    for s in sigs:
        if s.table == table and not s.bulk:
            return [r["col"] for r in s.refcols]
    return []


def coq_db(net, sigs, table):
    """abstraction of the real net: junction labels, pipe rows with end points, rows of the target table"""
    tabs = []
    names = ["junction", "pipe"] + ([table] if table not in ("junction", "pipe") else [])
    for t in names:
        rows = []
        if t in net:
            df = net[t]
            cols = [c for c in table_refcols(sigs, t) if c in df.columns]
            for lab, vals in zip(df.index.tolist(), df[cols].values.tolist() if cols else [[]] * len(df)):
                vals = [int(v) for v in vals]
                refs = clist(["(TJ, %s)" % cz(v) for v in vals]) if t == "pipe" else "[]"
                rows.append("{| r_label := %s; r_refvals := %s; r_refs := %s; r_loose := []; r_std := []; "
                            "r_loose_std := []; r_vals := []; r_pay := 0 |}" % (cz(int(lab)), clist([cz(v) for v in vals]), refs))
        tabs.append("(%s, %s)" % (cstr(t), clist(rows)))
    std = []
    for t, d in net.get("std_types", {}).items():
        std += ["(%s, %s)" % (cstr(t), cstr(k)) for k in d]
    return "{| d_tabs := %s; d_std := %s |}" % (clist(tabs), clist(std))


def view_after(net, sig):
    df = net[sig.table]
    cols = [r["col"] for r in sig.refcols]
    out = []
    for lab, vals in zip(df.index.tolist(), df[cols].values.tolist() if cols else [[]] * len(df)):
        out.append("(%s, %s)" % (cz(int(lab)), clist([cz(int(v)) for v in vals])))
    return clist(out)


def new_row_values(net, sig, n_old):
    """value columns (as the generated schema lists them, computed columns excluded) of the rows added by the call"""
    df = net[sig.table]
    out = []
    for pos in range(n_old, len(df)):
        cells = []
        for col, k in sig.colsrc:
            if k[0] == "derived":
                continue
            if col not in df.columns:
                cells.append((col, "<missing>"))
                continue
            try:
                cells.append((col, tsig.norm_value(df[col].iloc[pos])))
            except Exception:  # noqa: BLE001
                cells.append((col, "<unencodable %s>" % type(df[col].iloc[pos]).__name__))
        out.append(clist(["(%s, %s)" % (cstr(c), cstr(v)) for c, v in cells]))
    return clist(out)


def coq_args(m):
    et = {"ju": "(Some TJ)", "pi": "(Some TP)"}.get(m.get("et", "ju"), "None")
    return ("{| a_index := %s; a_refvals := %s; a_et := %s; a_std := %s; a_reg_std := %s; a_pt_null := %s; "
            "a_invalid := %s; a_late_bad := %s; a_vals := %s; a_pay := 0 |}" %
            ("None" if m.get("index") is None else "(Some %s)" % cz(m["index"]), clist([cz(v) for v in m["refvals"]]),
             et, cstr(m.get("std", "")), cbool(m.get("reg_std", False)), cbool(m.get("pt_null", False)),
             cbool(m.get("invalid", False)), cbool(m.get("late_bad", False)),
             clist(["(%s, %s)" % (cstr(k), cstr(v)) for k, v in m.get("vals", [])])))


# ----------------------------------------------------------------------------------------------- call plans
def valid_kwargs(sig, net, rng, n=None):
    """kwargs of a valid call of `sig` on `net` (required parameters only) and the model view of them"""
    js = [int(x) for x in net.junction.index.tolist()]
    kw = {}
    bulk = sig.bulk
    n = n or (rng.choice([1, 2, 3]) if bulk else 1)
    pipes = [int(x) for x in net.pipe.index.tolist()]
    for p in sig.req:
        sp = tsig.singular(p)
        if p in sig.ref_params:
            col = [r for r in sig.refcols if r["param"] == p][0]
            if col["tsel"] == "by_et":
                continue
            vals = [rng.choice(js) for _ in range(n)]
            kw[p] = vals if bulk else vals[0]
        elif sp == "element":
            continue
        elif p == "et":
            continue
        elif p == "std_type":
            lib = sorted(net.std_types[sig.table].keys())        # the whole library, incl. the heat types with u_w_per_mk
            kw[p] = rng.choice(lib) if rng.random() < 0.7 or sig.table != "pipe" else rng.choice([x for x in lib if "ISOPLUS" in x] or lib)
        elif p == "new_std_type_name":
            kw[p] = "Pnew%d" % rng.randint(0, 2)
            kw["poly_coefficents"] = [-1.0, 0.0, 6.0]
        elif p == "nr_junctions":
            kw[p] = n
        elif p in ("p_bar", "t_k"):
            kw[p] = [VAL_PT[p]] * n if bulk else VAL_PT[p]
        elif sp in VAL:
            kw[p] = VAL[sp]
        else:
            raise KeyError("no valid value known for required parameter %s of %s" % (p, sig.fn))
    if sig.table == "valve":
        et = rng.choice(["ju", "pi"]) if pipes else "ju"
        jp, ep = ("junctions", "elements") if bulk else ("junction", "element")
        jl, el = [], []
        for _ in range(n):
            if et == "pi":
                pi = rng.choice(pipes)
                el.append(pi)
                jl.append(int(net.pipe.at[pi, rng.choice(["from_junction", "to_junction"])]))
            else:
                jl.append(rng.choice(js))
                el.append(rng.choice(js))
        kw[jp], kw[ep], kw["et"] = (jl, el, et) if bulk else (jl[0], el[0], et)
    if sig.eg and not bulk:
        kw.setdefault(sig.eg["p"], 5.0)
        kw.setdefault(sig.eg["t"], 300.0)
    if sig.table == "heat_consumer":
        kw["qext_w"] = 1000.0
        kw["controlled_mdot_kg_per_s"] = 0.25
    if sig.fn == "create_pressure_control":
        kw["check_controllability"] = False     # topological precondition outside the model
    return kw, n


VAL_PT = {"p_bar": 5.0, "t_k": 300.0}


def model_view(sig, kw, n):
    """model arguments (per row) of a real call"""
    rows = []
    for i in range(n):
        m = {"refvals": [], "et": "ju"}
        for r in sig.refcols:
            v = kw[r["param"]]
            m["refvals"].append(int(v[i] if sig.bulk else v))
        if sig.table == "valve":
            et = kw["et"]
            m["et"] = et[i] if isinstance(et, (list, tuple)) else et
        if sig.std:
            st = kw[sig.std["param"]]
            m["std"] = st[i] if isinstance(st, (list, tuple)) else st
            m["reg_std"] = (not sig.std["checked"]) and ("poly_coefficents" in kw or "pressure_list" in kw)
        # explicitly passed arguments that feed a value column, in canonical encoding
        m["vals"] = []
        feeding = {k[1] for _, k in sig.colsrc if k[0] in ("param", "bool")}
        for p_, v_ in kw.items():
            if p_ in feeding:
                x_ = v_[i] if isinstance(v_, (list, tuple)) else v_
                try:
                    m["vals"].append((p_, tsig.norm_value(x_)))
                except Exception:  # noqa: BLE001 - a malformed value: the call must be rejected anyway
                    m["vals"].append((p_, "<unencodable>"))
        if sig.eg:
            def isnull(x):
                x = x[i] if isinstance(x, (list, tuple)) else x
                return x is None or (isinstance(x, float) and math.isnan(x))
            m["pt_null"] = isnull(kw.get(sig.eg["p"])) and isnull(kw.get(sig.eg["t"]))
        rows.append(m)
    return rows


def plans(sig, net, rng):
    """list of (fault kind, kwargs, model rows, model extras) for one function on one net"""
    out = []
    js = [int(x) for x in net.junction.index.tolist()]
    existing = [int(x) for x in net[sig.table].index.tolist()] if sig.table in net else []
    free = (max(existing) if existing else 0) + rng.randint(2, 9)

    def add(kind, kw, n, rows=None, **extra):
        rows = rows or model_view(sig, kw, n)
        for k, v in extra.items():
            if k in ("invalid", "late_bad"):
                rows[-1][k] = v
        out.append((kind, kw, rows, extra))

    kw, n = valid_kwargs(sig, net, rng)
    add("valid", kw, n)
    kw, n = valid_kwargs(sig, net, rng, n=2 if sig.fn == "create_pressure_controls" else None)
    if sig.bulk:
        kw["index"] = [free + 3 * k for k in range(n)][::-1]
    else:
        kw["index"] = free
    add("valid_index", kw, n)
    # every optional value argument passed explicitly (values different from the defaults; bulk: one per row)
    kw, n = valid_kwargs(sig, net, rng, n=3 if sig.bulk else None)
    for p_, dflt in sig.params:
        if p_ in kw or dflt == tsig.REQUIRED or p_ not in OPT_VALUES or (sig.eg and p_ == "type"):
            continue
        vals = OPT_VALUES[p_]
        kw[p_] = [vals[(i + 1) % len(vals)] for i in range(n)] if sig.bulk else vals[1]
    add("valid_all_optional", kw, n)
    if sig.fn == "create_pressure_controls":
        # plain lists: `controlled_junctions != from_junctions` is ONE bool, index[True] -> index[1]
        kw, n = valid_kwargs(sig, net, rng, n=1)
        kw["index"] = [free]
        kw["from_junctions"], kw["to_junctions"], kw["controlled_junctions"] = [js[0]], [js[1]], [js[2]]
        add("list_index_late", kw, n, late_bad=True)
    # duplicate / existing index
    if existing:
        kw, n = valid_kwargs(sig, net, rng)
        kw["index"] = [free + k for k in range(n - 1)] + [existing[-1]] if sig.bulk else existing[0]
        add("existing_index", kw, n)
    if sig.bulk:
        kw, n = valid_kwargs(sig, net, rng, n=2)
        kw["index"] = [free, free]
        add("duplicate_in_index", kw, n)
        kw, n = valid_kwargs(sig, net, rng, n=2)
        kw["index"] = [free]
        if sig.fn == "create_junctions" and not sig.index_len_check:
            # the code ignores nr_junctions when an index is passed (no length comparison found by the translator): 1 row
            add("index_length", kw, 1)
        else:
            add("index_length", kw, n, len_bad=True)
    # every reference position: missing target
    for r in sig.refcols:
        if not r["checked"]:
            continue
        for pos in (range(2) if sig.bulk else [0]):
            kw, n = valid_kwargs(sig, net, rng, n=2 if sig.bulk else None)
            if sig.table == "valve":
                kw["et"] = "ju"
                other = [x for x in sig.refcols if x is not r][0]["param"]
                kw[other] = [rng.choice(js) for _ in range(n)] if sig.bulk else rng.choice(js)
                kw[r["param"]] = [rng.choice(js) for _ in range(n)] if sig.bulk else rng.choice(js)
            if sig.bulk:
                kw[r["param"]] = list(kw[r["param"]])
                kw[r["param"]][pos] = MISSING_J
            else:
                kw[r["param"]] = MISSING_J
            add("missing_junction:%s:%d" % (r["col"], pos), kw, n)
    if sig.bulk and len([r for r in sig.refcols]) >= 2:
        kw, n = valid_kwargs(sig, net, rng, n=2)
        p = sig.refcols[1]["param"]
        rows = model_view(sig, kw, n)
        kw[p] = list(kw[p])[:1]
        add("unequal_lengths:%s" % sig.refcols[1]["col"], kw, n, rows=rows, len_bad=True)
    if sig.table == "valve" and len(net.pipe):
        jp, ep = ("junctions", "elements") if sig.bulk else ("junction", "element")
        pipes = [int(x) for x in net.pipe.index.tolist()]
        pi = rng.choice(pipes)
        fj, tj = int(net.pipe.at[pi, "from_junction"]), int(net.pipe.at[pi, "to_junction"])
        notconn = [j for j in js if j not in (fj, tj)]
        for kind, jv, ev, et in [("missing_pipe", fj, MISSING_P, "pi"), ("unknown_et", fj, tj, "xx")] + \
                ([("pipe_not_connected", notconn[0], pi, "pi")] if notconn else []):
            kw, n = valid_kwargs(sig, net, rng, n=1)
            kw[jp], kw[ep], kw["et"] = ([jv], [ev], et) if sig.bulk else (jv, ev, et)
            add(kind, kw, 1)
        if sig.bulk:
            kw, n = valid_kwargs(sig, net, rng, n=2)
            kw[jp], kw[ep], kw["et"] = [fj, js[0]], [pi, js[1]], ["pi", "ju"]
            add("valid_mixed_et", kw, 2)
    if sig.std and sig.std["checked"]:
        kw, n = valid_kwargs(sig, net, rng)
        kw[sig.std["param"]] = "no_such_type"
        add("unknown_std_type", kw, n)
        if sig.bulk:
            kw, n = valid_kwargs(sig, net, rng, n=2)
            kw[sig.std["param"]] = ["80_GGG", "no_such_type"]
            add("unknown_std_type_in_list", kw, n)
            kw, n = valid_kwargs(sig, net, rng, n=2)
            kw[sig.std["param"]] = ["80_GGG", "100_GGG"]
            add("valid_std_list", kw, n)
    if sig.std and not sig.std["checked"]:
        kw, n = valid_kwargs(sig, net, rng)
        kw.pop("poly_coefficents", None)
        kw[sig.std["param"]] = "never_registered"
        add("unregistered_std_type", kw, n)
    if sig.eg:
        kw, n = valid_kwargs(sig, net, rng)
        if sig.bulk:
            kw[sig.eg["p"]], kw[sig.eg["t"]] = [5.0] * (n - 1) + [float("nan")], [300.0] * (n - 1) + [float("nan")]
        else:
            kw[sig.eg["p"]], kw[sig.eg["t"]] = None, None
        add("neither_p_nor_t", kw, n)
        kw, n = valid_kwargs(sig, net, rng)
        if sig.bulk:
            kw[sig.eg["p"]], kw[sig.eg["t"]] = [5.0] * n, [float("nan")] * n
        else:
            kw[sig.eg["p"]], kw[sig.eg["t"]] = 5.0, None
        add("valid_p_only", kw, n)
    # unchecked reference columns: the code accepts a dangling value
    for r in sig.refcols:
        if not r["checked"]:
            kw, n = valid_kwargs(sig, net, rng, n=1)
            kw[r["param"]] = [MISSING_J] if sig.bulk else MISSING_J
            add("dangling_unchecked:%s" % r["col"], kw, 1)
    if sig.fn in LATE_BAD:
        kw, n = valid_kwargs(sig, net, rng, n=2 if sig.bulk else None)
        kw.update(copy.deepcopy(LATE_BAD[sig.fn]))
        # late only while the translator finds no evaluation of `geodata` (call / subscript) before the row write;
        # once the geodata is validated / built first, the fault is an ordinary rejection
        if sig.geodata_early:
            add("malformed_geodata", kw, n, invalid=True)
        else:
            add("malformed_geodata", kw, n, late_bad=True)
    if sig.table == "heat_consumer":
        kw, n = valid_kwargs(sig, net, rng)
        kw.pop("qext_w")
        add("one_of_four_values", kw, n, invalid=True)
        kw, n = valid_kwargs(sig, net, rng)
        kw.pop("qext_w")
        kw.update(deltat_k=10., treturn_k=300.)
        add("deltat_and_treturn", kw, n, invalid=True)
    # per-element validity rules of bulk functions: invalid rows whose defects cancel out over the list
    if sig.bulk and sig.table == "heat_consumer":
        nan = float("nan")
        for kind, vals in [("cancelling_3_and_1_set_points", dict(controlled_mdot_kg_per_s=[0.25, 0.25], qext_w=[1000.0, nan], deltat_k=[10.0, nan])),
                           ("cancelling_4_and_0_set_points", dict(controlled_mdot_kg_per_s=[0.25, nan], qext_w=[1000.0, nan], deltat_k=[10.0, nan], treturn_k=[300.0, nan])),
                           ("cancelling_3_and_1_with_none", dict(controlled_mdot_kg_per_s=[0.25, 0.25], qext_w=[1000.0, None], treturn_k=[310.0, None])),
                           ("deltat_and_treturn_one_row", dict(controlled_mdot_kg_per_s=[0.25, nan], qext_w=[nan, 1000.0], deltat_k=[10.0, nan], treturn_k=[300.0, 300.0]))]:
            kw, n = valid_kwargs(sig, net, rng, n=2)
            kw.pop("qext_w"), kw.pop("controlled_mdot_kg_per_s")
            kw.update(vals)
            add(kind, kw, 2, invalid=True)
        kw, n = valid_kwargs(sig, net, rng, n=2)
        kw.pop("qext_w"), kw.pop("controlled_mdot_kg_per_s")
        kw.update(controlled_mdot_kg_per_s=[0.25, float("nan")], qext_w=[float("nan"), 1000.0], deltat_k=[10.0, float("nan")], treturn_k=[float("nan"), 300.0])
        add("valid_mixed_modes", kw, 2)
    if sig.bulk and sig.eg:
        nan = float("nan")
        for kind, pv, tv, ty in [("cancelling_p_and_t_rows", [5.0, nan], [300.0, nan], "auto"),
                                 ("cancelling_types", [5.0, nan], [nan, 300.0], ["t", "p"]),
                                 ("type_pt_one_row_without_t", [5.0, 5.0], [300.0, nan], ["pt", "pt"])]:
            kw, n = valid_kwargs(sig, net, rng, n=2)
            kw[sig.eg["p"]], kw[sig.eg["t"]], kw[sig.eg["type"]] = pv, tv, ty
            add(kind, kw, 2, invalid=True)
        kw, n = valid_kwargs(sig, net, rng, n=2)
        kw[sig.eg["p"]], kw[sig.eg["t"]], kw[sig.eg["type"]] = [5.0, float("nan")], [float("nan"), 300.0], ["p", "t"]
        add("valid_mixed_types", kw, 2)
    if sig.bulk and sig.table == "valve" and len(net.pipe):
        pipes = [int(x) for x in net.pipe.index.tolist()]
        only_pipe = [x for x in pipes if x not in js]
        if only_pipe:
            pi = only_pipe[0]
            fj = int(net.pipe.at[pi, "from_junction"])
            only_j = [x for x in js if x not in pipes and x != fj]
            if only_j:
                # the same (junction, element) pairs are valid with et = ["pi", "ju"]; swapped they are both invalid
                kw, n = valid_kwargs(sig, net, rng, n=2)
                kw["junctions"], kw["elements"], kw["et"] = [fj, fj], [pi, only_j[0]], ["pi", "ju"]
                add("valid_pairs_pi_ju", kw, 2)
                kw, n = valid_kwargs(sig, net, rng, n=2)
                kw["junctions"], kw["elements"], kw["et"] = [fj, fj], [pi, only_j[0]], ["ju", "pi"]
                add("cancelling_et_swapped", kw, 2)
    if sig.fn == "create_mass_storage":
        kw, n = valid_kwargs(sig, net, rng)
        kw["init_m_stored_kg"] = -1.0
        add("negative_storage", kw, n, invalid=True)
    return out


# ----------------------------------------------------------------------------------------------- checks on real nets
def declared_dtypes(net, table):
    for c in net["component_list"]:
        if c.table_name() == table:
            return [(n, str(__import__("numpy").dtype(t))) for n, t in c.get_component_input()]
    return []


def ri_violations(net, sigs, table, labels):
    """dangling references in the given rows of the real net"""
    bad = []
    sig = [s for s in sigs if s.table == table and not s.bulk][0]
    df = net[table]
    for r in sig.refcols:
        for lab in labels:
            v = df.at[lab, r["col"]]
            tgt = "junction"
            if r["tsel"] == "by_et":
                tgt = "pipe" if df.at[lab, "et"] == "pi" else "junction"
            if v not in net[tgt].index:
                bad.append((r["col"], int(lab), int(v)))
    if "std_type" in df.columns and table in net.std_types:
        for lab in labels:
            v = df.at[lab, "std_type"]
            if v is not None and not (isinstance(v, float) and math.isnan(v)) and v not in net.std_types[table]:
                bad.append(("std_type", int(lab), v))
    return bad


def jsonable(kw):
    return json.loads(json.dumps(kw, default=lambda o: repr(o)))


def run_plans(ctx, sigs):
    import pandapipes as pp
    from harness import drive
    cases = []       # coq case texts
    meta = []
    byname = {s.fn: s for s in sigs}
    for net_name, build in base_nets(ctx):
        net0 = build()
        for sig in sigs:
            if sig.table not in net0:
                continue
            for kind, kw, rows, extra in plans(sig, net0, ctx.rng):
                net = copy.deepcopy(net0)
                before = deep_snapshot(net)
                dbtxt = coq_db(net, sigs, sig.table)
                try:
                    ret = getattr(pp, sig.fn)(net, **copy.deepcopy(kw))
                    ok, exc = True, ""
                except Exception as e:  # noqa: BLE001
                    ok, ret, exc = False, None, "%s: %s" % (type(e).__name__, str(e)[:120])
                after = deep_snapshot(net)
                replay = {"net": net_name, "fn": sig.fn, "kwargs": jsonable(kw), "fault": kind, "outcome": exc or "ok",
                          "how": "build net %s (tools/props/c16.py base_nets, seed %d); pandapipes.%s(net, **kwargs)"
                                 % (net_name, ctx.seed, sig.fn)}
                fault = kind.split(":")[0]
                ctx.count("fault:" + fault)
                ctx.case({"fn": sig.fn, "fault": kind, "net": net_name, "kwargs": jsonable(kw)}, fault != "valid")
                diff = snap_diff(before, after)
                if ret is None and ok:
                    ctx.violation({"clause": "adds_or_raises", "fn": sig.fn}, "%s returned None without raising" % sig.fn, replay)
                if not ok:
                    # ---- atomic: a rejected call leaves the whole net unchanged
                    if diff:
                        ctx.violation({"clause": "atomic", "fn": sig.fn, "fault": fault},
                                      "%s raised (%s) but changed %s" % (sig.fn, exc, diff), replay)
                    if fault.startswith("valid") or fault == "list_index_late":
                        ctx.violation({"clause": "accepts_valid", "fn": sig.fn, "fault": fault},
                                      "%s rejects a valid call: %s" % (sig.fn, exc), replay)
                else:
                    labs = [int(x) for x in (ret if sig.bulk else [ret])]
                    # ---- adds exactly: other tables bit-identical, old rows identical, n new rows
                    others = [d for d in diff if d != "table:" + sig.table and not
                              (d in ("std_types",) and rows[0].get("reg_std")) and not
                              (d.endswith("_geodata") and "geodata" in kw)]
                    tb, ta = before["tables"][sig.table], after["tables"][sig.table]
                    nold = len(tb["index"])
                    if others or ta["index"][:nold] != tb["index"] or ta["index"][nold:] != labs or \
                            [r[:len(tb["columns"])] for r in ta["values"][:nold]] != tb["values"] or \
                            ta["columns"][:len(tb["columns"])] != tb["columns"]:
                        ctx.violation({"clause": "adds_exactly", "fn": sig.fn, "fault": fault},
                                      "%s accepted the call but changed more than the requested rows: %s"
                                      % (sig.fn, others or "old rows / labels of " + sig.table), replay)
                    if len(set(ta["index"])) != len(ta["index"]):
                        ctx.violation({"clause": "unique_index", "fn": sig.fn, "fault": fault},
                                      "%s created duplicate labels" % sig.fn, replay)
                    # ---- declared dtypes
                    for col, dt in declared_dtypes(net, sig.table):
                        have = str(net[sig.table][col].dtype) if col in net[sig.table].columns else "<missing>"
                        if have != dt:
                            ctx.violation({"clause": "dtypes", "fn": sig.fn, "column": col},
                                          "%s: column %s.%s has dtype %s, declared %s (fault kind %s)"
                                          % (sig.fn, sig.table, col, have, dt, fault), replay)
                    # ---- referential integrity of the new rows
                    for col, lab, v in ri_violations(net, sigs, sig.table, labs):
                        ctx.violation({"clause": "referential_integrity", "fn": sig.fn, "column": col},
                                      "%s accepted %s=%r which does not exist (row %d of %s)"
                                      % (sig.fn, col, v, lab, sig.table), replay)
                    if not fault.startswith("valid") and not fault.startswith("dangling") and \
                            not fault.startswith("unregistered") and fault != "list_index_late":
                        ctx.violation({"clause": "rejects", "fn": sig.fn, "fault": fault},
                                      "%s accepted an invalid call (%s)" % (sig.fn, kind), replay)
                # ---- case for Coq
                name = "sig_" + sig.fn
                if sig.bulk:
                    idx = kw.get("index")
                    call = "Bulk %s {| b_index := %s; b_rows := %s; b_len_ok := %s |}" % (
                        name, "None" if idx is None else "(Some %s)" % clist([cz(i) for i in idx]),
                        clist([coq_args(m) for m in rows]), cbool(not extra.get("len_bad")))
                else:
                    rows[0]["index"] = kw.get("index")
                    call = "Single %s %s" % (name, coq_args(rows[0]))
                nstd = len(net.std_types.get(sig.std["table"], {})) if sig.std else 0
                cases.append("{| c_schema := %s; c_db := @DB@%s@DB@; c_call := %s; c_ok := %s; c_labels := %s; c_after := %s; "
                             "c_std_after := %s; c_new_vals := %s |}" % (name, dbtxt, call, cbool(ok),
                                                       clist([cz(int(x)) for x in ((ret if sig.bulk else [ret]) if ok and ret is not None else [])]),
                                                       view_after(net, sig), cnat(nstd),
                                                       new_row_values(net, sig, len(before["tables"][sig.table]["index"]))))
                meta.append(replay)
    return cases, meta


def correspond(ctx, cases, meta):
    size = 400
    n_tot = n_mis = 0
    import re
    for s in range(0, len(cases), size):
        defs, names = [], {}

        def intern(kind, text):
            if text not in names:
                names[text] = "%s_%d" % (kind, len(names))
                defs.append("Definition %s := %s." % (names[text], text))
            return names[text]

        def sub_db(m):
            t = m.group(1)
            t = re.sub(r"d_std := (\[.*\]) \|\}$", lambda mm: "d_std := %s |}" % intern("std", mm.group(1)), t)
            return intern("db", t)
        body = [re.sub(r"@DB@(.*?)@DB@", sub_db, c) for c in cases[s:s + size]]
        txt = ("From Coq Require Import String List ZArith Bool.\nFrom PP Require Import Base.Assoc C16.Model Gen.CreateSigs.\n"
               "Import ListNotations.\nOpen Scope string_scope.\n%s\nDefinition cs : list case := [\n%s\n].\n"
               "Eval vm_compute in (summary cs).\n" % ("\n".join(defs), ";\n".join(body)))
        trip, out = ctx.coq_counts(txt, "c16_cases_%d" % (s // size))
        if not trip:
            ctx.broken("correspondence", "C16.create1/create_bulk vs create.py (coqc failed)", out[-800:])
            return
        n, m, first = trip[0]
        n_tot += n
        n_mis += m
        if m:
            r = meta[s + first]
            ctx.violation({"clause": "model_correspondence", "fn": r["fn"], "fault": r["fault"].split(":")[0]},
                          "model NetDB and %s disagree (outcome / labels / reference columns) on fault kind %s: %s"
                          % (r["fn"], r["fault"], r["outcome"]), r)
    ctx.corr("C16.Model.create1/create_bulk (generated schema) == pandapipes.create.* : outcome, labels, "
             "reference columns, std-type count", n_tot, n_mis)


# ----------------------------------------------------------------------------------------------- differentials
def table_snap(net):
    from harness import drive
    return drive.snapshot_tables(net)


def first_table_diff(a, b, ignore_cols=()):
    for t in sorted(set(a) | set(b)):
        x, y = a.get(t), b.get(t)
        if x == y:
            continue
        if x is None or y is None:
            return t, "table missing"
        for k in ("index", "columns", "dtypes"):
            if x[k] != y[k]:
                if k == "dtypes":
                    d = [(c, p, q) for c, p, q in zip(x["columns"], x[k], y[k]) if p != q and c not in ignore_cols]
                    if not d:
                        continue
                    return t, "dtype of %s: %s vs %s" % d[0]
                return t, "%s: %r vs %r" % (k, x[k][:8], y[k][:8])
        for lab, r1, r2 in zip(x["index"], x["values"], y["values"]):
            for c, v1, v2 in zip(x["columns"], r1, r2):
                if v1 != v2 and c not in ignore_cols:
                    return t, "%s[%s]: %r vs %r" % (c, lab, v1, v2)
    return None


def unsorted_types(net, rng, n, table="pipe"):
    """n distinct std types of the net's library in an order that is NOT the sorted one"""
    pick = rng.sample(sorted(net.std_types[table].keys()), n)
    if pick == sorted(pick):
        pick.reverse()
    return pick


def type_params(par):
    """keyword arguments of create_pipe_from_parameters that describe a pipe std type"""
    kwp = {k: par[k] for k in ("inner_diameter_mm", "outer_diameter_mm", "k_mm", "u_w_per_m2k") if
           k in par and not (isinstance(par[k], float) and math.isnan(par[k]))}
    umk = par.get("u_w_per_mk", float("nan"))
    if "u_w_per_m2k" not in kwp and isinstance(umk, float) and not math.isnan(umk):
        # documented conversion of a per-length value (heat types): u per outer surface
        kwp["u_w_per_m2k"] = umk / (par["outer_diameter_mm"] * math.pi) * 1000.
    return kwp


def monitor_bulk_vs_fold(ctx, sigs, twins):
    import pandapipes as pp
    byname = {s.fn: s for s in sigs}
    nets = base_nets(ctx)[:3 if ctx.quick else 8]
    variants = ["required_only", "all_optional", "scalar_broadcast", "p_only", "per_element_all", "deprecated_override"]
    for (bn, tn), (net_name, build), variant in itertools.product(twins, nets, variants):
        b, t = byname[bn], byname[tn]
        net0 = build()
        if b.table not in net0:
            continue
        kw, n = valid_kwargs(b, net0, ctx.rng, n=3)
        if variant == "p_only":
            if not b.eg:
                continue
            kw[b.eg["t"]] = None
        if variant == "deprecated_override":
            # the (deprecated, still accepted) per-call overrides of std-type values, with a LIST of std types
            if not (b.std and b.std["checked"] and b.table == "pipe"):
                continue
            kw[b.std["param"]] = unsorted_types(net0, ctx.rng, n, "pipe")
            kw["k_mm"], kw["u_w_per_m2k"] = 0.77, 3.3
        if variant == "per_element_all":
            # a list for EVERY per-element argument, std types included (>= 2 distinct types, not in sorted order)
            if b.std and b.std["param"] in kw:
                kw[b.std["param"]] = unsorted_types(net0, ctx.rng, n, b.std["table"])
            elif not b.std:
                continue
            for p in list(kw):
                if not isinstance(kw[p], (list, tuple)) and tsig.singular(p) in VAL and p != "nr_junctions":
                    kw[p] = [kw[p] * (1 + i) for i in range(n)]
        if variant in ("all_optional", "scalar_broadcast", "per_element_all"):
            for p, dflt in b.params:
                if p in kw or p in ("index", "geodata", "std_type") or dflt == tsig.REQUIRED or (b.eg and p == "type"):
                    continue
                vals = OPT_VALUES.get(p)
                if vals is None:
                    continue
                kw[p] = vals[0] if variant == "scalar_broadcast" else [vals[(i + (variant == "per_element_all")) % len(vals)] for i in range(n)]
        na, nb = copy.deepcopy(net0), copy.deepcopy(net0)
        replay = {"net": net_name, "bulk": bn, "single": tn, "kwargs": jsonable(kw), "variant": variant}
        try:
            getattr(pp, bn)(na, **copy.deepcopy(kw))
            ra = "ok"
        except Exception as e:  # noqa: BLE001
            ra = type(e).__name__ + ": " + str(e)[:100]
        rb = "ok"
        for i in range(n):
            kws = {"check_controllability": False} if tn == "create_pressure_control" else {}
            for p, v in kw.items():
                sp = tsig.singular(p)
                if sp == "nr_junctions":
                    continue
                kws[sp] = v[i] if isinstance(v, (list, tuple)) else v
            try:
                getattr(pp, tn)(nb, **kws)
            except Exception as e:  # noqa: BLE001
                rb = type(e).__name__ + ": " + str(e)[:100]
                break
        ctx.case({"bulk_vs_fold": bn, "net": net_name, "variant": variant}, True)
        ctx.count("bulk_vs_fold")
        if (ra == "ok") != (rb == "ok"):
            ctx.violation({"clause": "bulk_eq_fold", "fn": bn, "variant": variant, "kind": "outcome"},
                          "%s -> %s but %d x %s -> %s (%s)" % (bn, ra, n, tn, rb, variant), replay)
            continue
        if ra != "ok":
            continue
        d = first_table_diff(table_snap(na), table_snap(nb))
        if d:
            ctx.violation({"clause": "bulk_eq_fold", "fn": bn, "variant": variant, "kind": "tables",
                           "column": d[1].split("[")[0].split(":")[0]},
                          "%s differs from %d x %s in table %s: %s (%s)" % (bn, n, tn, d[0], d[1], variant), replay)


def monitor_bulk_series(ctx, sigs, twins):
    """bulk functions fed with pandas Series (RangeIndex 0..n-1) into tables that already hold k = 0..n+1 rows:
    must equal the fold of the single twin (values are positional, whatever the labels overlap)"""
    import pandas as pd
    import pandapipes as pp
    byname = {s.fn: s for s in sigs}
    n = 3
    for (bn, tn), k in itertools.product(twins, range(0, n + 2)):
        b = byname[bn]
        net0 = pp.create_empty_network(fluid="water")
        if b.table == "junction":
            if k:
                pp.create_junctions(net0, k, 5.0, 300.0)
        else:
            pp.create_junctions(net0, 5, 5.0, 300.0)
            if b.table != "pipe":
                pp.create_pipes_from_parameters(net0, [0, 1, 2], [1, 2, 3], 1.0, 100.0)
        if b.table not in net0:
            continue
        if k and b.table != "junction":
            kwk, _ = valid_kwargs(b, net0, ctx.rng, n=k)
            getattr(pp, bn)(net0, **kwk)
            if len(net0[b.table]) != k:
                continue
        kw, _ = valid_kwargs(b, net0, ctx.rng, n=n)
        for p, dflt in b.params:
            if p in kw or p in ("index", "geodata", "std_type", "name") or dflt == tsig.REQUIRED or (b.eg and p == "type"):
                continue
            vals = OPT_VALUES.get(p)
            if vals is not None:
                kw[p] = [vals[i % len(vals)] for i in range(n)]
        kw["name"] = ["n%d" % i for i in range(n)]      # (an omitted name in an empty table is a known difference)
        for p in list(kw):
            if not isinstance(kw[p], (list, tuple)) and tsig.singular(p) in VAL and p != "nr_junctions":
                kw[p] = [kw[p] * (1 + i) for i in range(n)]      # distinct values per row
        kws = {p: (pd.Series(v) if isinstance(v, (list, tuple)) and p not in ("et", "std_type") else v) for p, v in kw.items()}
        na, nb = copy.deepcopy(net0), copy.deepcopy(net0)
        replay = {"bulk": bn, "single": tn, "rows_before": k, "kwargs_as_series": jsonable(kw),
                  "how": "empty net, 5 junctions (+3 pipes); %d rows in %s; %s(net, **{k: pd.Series(v)})" % (k, b.table, bn)}
        ctx.case({"bulk_series": bn, "rows_before": k}, 0 < k < n)
        ctx.count("bulk_series")
        try:
            getattr(pp, bn)(na, **kws)
            ra = "ok"
        except Exception as e:  # noqa: BLE001
            ra = type(e).__name__ + ": " + str(e)[:100]
        rb = "ok"
        for i in range(n):
            k1 = {"check_controllability": False} if tn == "create_pressure_control" else {}
            for p, v in kw.items():
                if p != "nr_junctions":
                    k1[tsig.singular(p)] = v[i] if isinstance(v, (list, tuple)) else v
            try:
                getattr(pp, tn)(nb, **k1)
            except Exception as e:  # noqa: BLE001
                rb = type(e).__name__ + ": " + str(e)[:100]
                break
        if (ra == "ok") != (rb == "ok"):
            ctx.violation({"clause": "bulk_eq_fold", "fn": bn, "variant": "series", "kind": "outcome"},
                          "%s with pandas Series arguments (%d rows already in %s) -> %s but %d x %s -> %s"
                          % (bn, k, b.table, ra, n, tn, rb), replay)
            continue
        if ra != "ok":
            continue
        d = first_table_diff(table_snap(na), table_snap(nb))
        if d:
            ctx.violation({"clause": "bulk_eq_fold", "fn": bn, "variant": "series", "kind": "tables",
                           "column": d[1].split("[")[0].split(":")[0]},
                          "%s with pandas Series arguments (%d rows already in %s) differs from %d x %s in table %s: %s"
                          % (bn, k, b.table, n, tn, d[0], d[1]), replay)


OPT_VALUES = {"height_m": [3.0, 0.0, 12.0], "name": ["a", "b", None], "in_service": [True, False, True],
              "type": ["x", "y", "z"], "scaling": [1.0, 0.5, 2.0], "loss_coefficient": [0.0, 1.5, 0.25],
              "sections": [1, 3, 2], "text_k": [283.0, 293.0, 300.0], "k_mm": [0.1, 0.2, 0.5],
              "u_w_per_m2k": [0.0, 1.5, 5.0], "outer_diameter_mm": [110.0, 120.0, 130.0], "opened": [True, False, True],
              "control_active": [True, False, True]}


def monitor_std_vs_parameters(ctx):
    """create_pipe(std type) == create_pipe_from_parameters(that type's parameters), every library type"""
    import pandapipes as pp
    import pandas as pd
    from pandapipes.std_types.std_types import load_std_type
    lib = pd.read_csv(os.path.join(os.path.dirname(pp.__file__), "std_types", "library", "Pipe.csv"), sep=";", index_col=0)
    proto = pp.create_empty_network(fluid="water")
    names = list(proto.std_types["pipe"].keys())
    if sorted(names) != sorted(map(str, lib.columns if "inner_diameter_mm" in lib.index else lib.index)):
        ctx.note("std-type names of the net differ from Pipe.csv header (%d vs %d)" % (len(names), len(lib)))
    seen = set()
    pristine = deep_snapshot(proto)["std_types"]
    for nm in names:
        # ---- repeated use of one std type: the library is read-only, every creation gives the same row
        net = pp.create_empty_network(fluid="water")
        pp.create_junctions(net, 2, 5, 300)
        replay = {"std_type": nm, "how": "create_pipe(net,0,1,std,2.0) twice; create_pipes(net,[0,0],[1,1],[std,std],2.0); "
                                         "create_pipe(..., k_mm=0.77, u_w_per_m2k=3.3); create_pipe(...) again"}
        steps = [("create_pipe", lambda: pp.create_pipe(net, 0, 1, nm, 2.0)),
                 ("create_pipe (2nd)", lambda: pp.create_pipe(net, 0, 1, nm, 2.0)),
                 ("create_pipes [std, std]", lambda: pp.create_pipes(net, [0, 0], [1, 1], [nm, nm], 2.0)),
                 ("create_pipes std", lambda: pp.create_pipes(net, [0, 0], [1, 1], nm, 2.0)),
                 ("create_pipe with k_mm / u overrides", lambda: pp.create_pipe(net, 0, 1, nm, 2.0, k_mm=0.77, u_w_per_m2k=3.3)),
                 ("create_pipe (after override)", lambda: pp.create_pipe(net, 0, 1, nm, 2.0))]
        ctx.count("std_type_reuse")
        for what, f in steps:
            try:
                f()
            except Exception as e:  # noqa: BLE001
                ctx.violation({"clause": "std_type_reuse", "what": "raises", "step": what},
                              "%s from std type %r (used before on the same net) raises %s: %s" % (what, nm, type(e).__name__, str(e)[:120]), replay)
                break
            if deep_snapshot(net)["std_types"] != pristine:
                ctx.violation({"clause": "std_type_reuse", "what": "library_mutated", "step": what},
                              "%s from std type %r changed net.std_types" % (what, nm), replay)
                break
        else:
            rows = table_snap(net)["pipe"]
            cols = rows["columns"]
            ref = rows["values"][0]
            for i, r in enumerate(rows["values"]):
                bad = [(c, _unhex(x), _unhex(y)) for c, x, y in zip(cols, ref, r) if x != y and c not in ("name",) and
                       not (i == 6 and c in ("k_mm", "u_w_per_m2k")) and not (c == "text_k")]
                if bad:
                    ctx.violation({"clause": "std_type_reuse", "what": "rows_differ", "column": bad[0][0]},
                                  "pipes created from the same std type %r differ: row 0 vs row %d: %s" % (nm, i, bad[:3]), replay)
                    break
        par = load_std_type(proto, nm, "pipe")
        for variant in ("defaults", "explicit"):
            if ctx.quick and variant == "explicit" and nm not in names[::9]:
                continue
            na = pp.create_empty_network(fluid="water")
            pp.create_junctions(na, 2, 5, 300)
            nb = copy.deepcopy(na)
            common = {} if variant == "defaults" else {"loss_coefficient": 1.5, "sections": 3, "text_k": 283.0,
                                                       "name": "p", "in_service": False, "type": "x"}
            pp.create_pipe(na, 0, 1, nm, 2.0, **common)
            kwp = type_params(par)
            pp.create_pipe_from_parameters(nb, 0, 1, 2.0, **kwp, **common)
            ctx.case({"std_vs_parameters": nm, "variant": variant}, True)
            ctx.count("std_vs_parameters")
            sa, sb = table_snap(na), table_snap(nb)
            cols = sa["pipe"]["columns"]
            for c, va, vb, da, db in zip(cols, sa["pipe"]["values"][0], sb["pipe"]["values"][0], sa["pipe"]["dtypes"], sb["pipe"]["dtypes"]):
                if c == "std_type":
                    continue
                if va != vb or da != db:
                    key = (c, variant)
                    sig = {"clause": "std_type_eq_parameters", "column": c, "variant": variant}
                    what = ("create_pipe(std_type=%r) writes %s=%s (%s) but create_pipe_from_parameters with that "
                            "type's parameters writes %s (%s) [%s]" % (nm, c, _unhex(va), da, _unhex(vb), db, variant))
                    if key not in seen:
                        seen.add(key)
                        ctx.violation(sig, what, {"std_type": nm, "variant": variant, "parameters": jsonable(kwp)})


def monitor_std_list_vs_parameters(ctx):
    """create_pipes with a LIST of distinct std types in non-sorted order == one create_pipe_from_parameters per
    element with that element's type parameters (and == one create_pipe per element)"""
    import pandapipes as pp
    from pandapipes.std_types.std_types import load_std_type
    for rep in range(4 if ctx.quick else 40):
        n = ctx.rng.choice([2, 3, 4, 6])
        na = pp.create_empty_network(fluid="water")
        pp.create_junctions(na, 3, 5, 300)
        nb, nc = copy.deepcopy(na), copy.deepcopy(na)
        types = unsorted_types(na, ctx.rng, n)
        if rep % 2:
            types = types + types[:1]          # a repeated type in the list
        fj, tj = [i % 2 for i in range(len(types))], [1 + i % 2 for i in range(len(types))]
        lens = [0.5 + 0.25 * i for i in range(len(types))]
        replay = {"std_types": types, "how": "create_pipes(net, %s, %s, std_types, %s) vs per element create_pipe_from_parameters(params(std_type))" % (fj, tj, lens)}
        ctx.case({"std_list_vs_parameters": types}, True)
        ctx.count("std_list_vs_parameters")
        pp.create_pipes(na, fj, tj, types, lens)
        for f, t, st, l in zip(fj, tj, types, lens):
            pp.create_pipe_from_parameters(nb, f, t, l, **type_params(load_std_type(nb, st, "pipe")))
            pp.create_pipe(nc, f, t, st, l)
        sa = table_snap(na)["pipe"]
        for other, label in ((table_snap(nb)["pipe"], "create_pipe_from_parameters(parameters of the type)"),
                             (table_snap(nc)["pipe"], "create_pipe(std_type)")):
            for lab, ra, rb in zip(sa["index"], sa["values"], other["values"]):
                bad = [(c, _unhex(x), _unhex(y)) for c, x, y in zip(sa["columns"], ra, rb) if x != y and
                       not (c == "std_type" and label.startswith("create_pipe_from"))]
                if bad:
                    ctx.violation({"clause": "std_type_list", "twin": label.split("(")[0], "column": bad[0][0]},
                                  "create_pipes with std types %s: pipe %s (type %r) differs from %s: %s"
                                  % (types, lab, types[sa["index"].index(lab)], label, bad[:3]), replay)
                    break
            else:
                continue
            break


def _unhex(v):
    try:
        return float.fromhex(v) if isinstance(v, str) and "0x" in v else v
    except ValueError:
        return v


def monitor_defaults_run(ctx):
    """pipeflow (hydraulics + heat) on a net whose pipes are created from std types with defaults only"""
    import pandapipes as pp
    from harness import drive
    proto = pp.create_empty_network(fluid="water")
    names = list(proto.std_types["pipe"].keys())
    rng = ctx.rng
    sample = names if not ctx.quick else rng.sample(names, 6) + [n for n in names if n == "80_GGG"]
    failed = {}
    for nm in sample:
        for twin in ("std", "par"):
            net = pp.create_empty_network(fluid="water")
            pp.create_junctions(net, 2, 5, 330)
            pp.create_ext_grid(net, 0, 5, 330)
            pp.create_sink(net, 1, 0.2)
            if twin == "std":
                pp.create_pipe(net, 0, 1, nm, 0.5)
            else:
                par = proto.std_types["pipe"][nm]
                pp.create_pipe_from_parameters(net, 0, 1, 0.5, par["inner_diameter_mm"])
            st, msg = drive.run(net, mode="sequential", use_numba=False)
            failed[(nm, twin)] = st
            ctx.case({"default_run": nm, "twin": twin, "status": st}, True)
        if failed[(nm, "std")] != failed[(nm, "par")]:
            ctx.violation({"clause": "defaults_run", "column": "u_w_per_m2k" if failed[(nm, "std")] != "ok" else "?"},
                          "thermal pipeflow on a default-created pipe of std type %r: %s, with the parameter twin: %s"
                          % (nm, failed[(nm, "std")], failed[(nm, "par")]),
                          {"std_type": nm, "how": "2 junctions, ext_grid(5 bar, 330 K), sink 0.2; create_pipe(net,0,1,std,0.5); "
                                                  "pipeflow(mode='sequential')"})


def container_values():
    """one value of every container kind (none of them is a valid scalar argument)"""
    import numpy as np
    import pandas as pd
    return [("list", ["two", "names"]), ("tuple", (1.5, 2.5)), ("set", {1.5, 2.5}), ("frozenset", frozenset({1.5, 2.5})),
            ("dict", {"a": 1.5}), ("ndarray", np.array([1.5, 2.5])), ("Series", pd.Series([1.5, 2.5]))]


def monitor_value_faults(ctx, sigs):
    """rejected-call atomicity for malformed VALUES: every container kind (list, tuple, set, frozenset, dict, ndarray,
    Series) at EVERY parameter position (reference, value, index) of every single create function; NaN in a bool list
    for the bulk functions.  A call that raises must leave the whole net (deep snapshot) unchanged; an accepted call is
    counted only (the value clause is covered by the Coq correspondence)."""
    import pandapipes as pp
    build = base_nets(ctx)[1][1]
    net = build()
    before = deep_snapshot(net)
    n_acc = 0
    for sig in sigs:
        if sig.table not in net:
            continue
        if sig.bulk:
            kw, n = valid_kwargs(sig, net, ctx.rng, n=2)
            kw["in_service"] = [True, float("nan")]
            trials = [("nan_in_bool_column", "in_service", "list", kw)]
        else:
            trials = []
            base_kw, _ = valid_kwargs(sig, net, ctx.rng)
            for p_, _d in sig.params:
                if p_ in ("geodata", "poly_coefficents", "pressure_list", "flowrate_list", "check_controllability"):
                    continue                      # parameters that are containers by design / flags outside the rows
                for kind, val in container_values():
                    kw = dict(base_kw)
                    kw[p_] = val
                    trials.append(("non_scalar_value", p_, kind, kw))
        for fault, param, kind, kw in trials:
            try:
                getattr(pp, sig.fn)(net, **copy.deepcopy(kw))
                accepted, exc = True, ""
            except Exception as e:  # noqa: BLE001
                accepted, exc = False, "%s: %s" % (type(e).__name__, str(e)[:100])
            after = deep_snapshot(net)
            ctx.count("fault:" + fault)
            ctx.count("container:" + kind)
            ctx.case({"value_fault": sig.fn, "param": param, "kind": kind}, True, key="vf:%s:%s:%s" % (sig.fn, param, kind))
            if accepted:
                n_acc += 1
            elif after != before:
                ctx.violation({"clause": "atomic", "fault": fault, "writer": "_set_multiple_entries" if sig.bulk else "_set_entries",
                               "fn": sig.fn, "param": param, "kind": kind},
                              "%s(%s=<%s>) raised (%s) but changed %s" % (sig.fn, param, kind, exc, snap_diff(before, after)),
                              {"net": "sparse", "fn": sig.fn, "param": param, "container": kind, "kwargs": jsonable({k: v for k, v in kw.items() if k != param}),
                               "how": "base net `sparse` of tools/props/c16.py; pandapipes.%s(net, **kwargs, %s=<a %s>)" % (sig.fn, param, kind)})
            if after != before:
                net = build()
                before = deep_snapshot(net)
    ctx.count("container_values_accepted", n_acc)


def monitor_eg_types(ctx):
    """decision table of _auto_ext_grid_type vs the Coq model, and scalar vs vectorised"""
    import numpy as np
    import pandapipes  # noqa: F401
    cr = sys.modules["pandapipes.create"]
    from pandapipes.component_models import ExtGrid
    names = {"auto": "Auto", "p": "TyP", "t": "TyT", "pt": "TyPT", "tp": "TyTP", "zz": "TyOther"}
    back = {v: k for k, v in names.items()}
    rows = []
    for p, t, ty in itertools.product([None, float("nan"), 4.0], [None, float("nan"), 310.0], names):
        try:
            r = cr._auto_ext_grid_type(p, t, ty, ExtGrid)
        except UserWarning:
            r = None
        pn, tn = p is None or math.isnan(p), t is None or math.isnan(t)
        rows.append((pn, tn, ty, r))
        ctx.case({"eg_type": [pn, tn, ty], "result": r}, True, key="eg:%r%r%s%r" % (p, t, ty, r))
        if p is None or t is None:
            continue
        try:
            rv = [str(x) for x in cr._auto_ext_grid_types(np.array([p, p]), np.array([t, t]), np.array([ty, ty]), ExtGrid)]
        except Exception as e:  # noqa: BLE001
            rv = None
        exp = None if r is None else [r, r]
        if rv != exp:
            ctx.violation({"clause": "scalar_eq_vector", "fn": "_auto_ext_grid_types", "type": "unknown" if ty == "zz" else ty},
                          "_auto_ext_grid_type(%r,%r,%r) -> %r but the vectorised twin on two such rows -> %r" % (p, t, ty, r, rv),
                          {"p_bar": repr(p), "t_k": repr(t), "type": ty})
    body = ";\n".join("(%s, %s, %s, %s)" % (cbool(pn), cbool(tn), names[ty], "None" if r is None else "(Some %s)" % names.get(r, "TyOther"))
                      for pn, tn, ty, r in rows)
    txt = ("From Coq Require Import String List ZArith Bool.\nFrom PP Require Import C16.Model.\nImport ListNotations.\n"
           "Definition opt_eqb (a b : option egt) := match a, b with Some x, Some y => egt_eqb x y | None, None => true | _, _ => false end.\n"
           "Definition rows : list (bool * bool * egt * option egt) := [\n%s\n].\n"
           "Definition bad := filter (fun x => let '(pn, tn, ty, r) := x in negb (opt_eqb (auto_type pn tn ty) r)) rows.\n"
           "Eval vm_compute in (length rows, length bad, (-1)%%Z).\n" % body)
    trip, out = ctx.coq_counts(txt, "c16_eg")
    if not trip:
        ctx.broken("correspondence", "C16.auto_type vs _auto_ext_grid_type (coqc failed)", out[-600:])
        return
    ctx.corr("C16.Model.auto_type == pandapipes.create._auto_ext_grid_type (complete table: null kinds x types)", trip[0][0], trip[0][1])
    if trip[0][1]:
        ctx.violation({"clause": "auto_type_table"}, "decision table of _auto_ext_grid_type differs from the model", {"rows": jsonable(rows)})


def monitor_generated_lists(ctx, raw):
    """replay one witness for every exception the translator reports; anything not in the Coq lists has
    already broken a generated_* theorem - here it becomes a concrete input"""
    import pandapipes as pp
    for s in raw:
        if s["silent_return"]:
            net = pp.create_empty_network(fluid="water")
            pp.create_junctions(net, 3, 5, 300)
            pp.create_pipe_from_parameters(net, 0, 1, 1., 100.)
            before = deep_snapshot(net)
            r = pp.create_pressure_control(net, 0, 1, 2, 4.0) if s["fn"] == "create_pressure_control" else "n/a"
            ctx.case({"silent_return": s["fn"]}, True)
            if r is None and not snap_diff(before, deep_snapshot(net)):
                ctx.violation({"clause": "adds_or_raises", "fn": s["fn"]},
                              "%s neither creates the element nor raises (returns None after logging an error) when the "
                              "controlled junction is not reachable" % s["fn"],
                              {"how": "3 junctions, pipe 0-1; create_pressure_control(net, 0, 1, 2, 4.0) -> None"})


def run(ctx):
    ctx.extra["rule"] = ("for every create function (17 single + 11 bulk) x every base net (3 hand-made incl. sparse / "
                         ">1e5 labels + generated water/gas/heat nets): valid calls (index absent / given), and every "
                         "fault kind at every reference position (missing junction per column and per bulk row, missing / "
                         "unconnected pipe, unknown et, unknown std type, existing / duplicate index, unequal lengths, "
                         "neither p nor t, malformed geodata, dangling unchecked column). distinct = canonical JSON of "
                         "(function, fault kind, net, kwargs); non-trivial = not a plain valid call")
    try:
        text, raw, twins = tsig.generate()
    except Exception as e:  # noqa: BLE001
        ctx.broken("translator", "tools/translate/createsigs.py", repr(e))
        raw = None
    proved = False
    if raw is not None:
        ctx.gen("CreateSigs", text)
        proved = ctx.prove("C16")
        ctx.count("create_functions", len(raw))
    if raw is None:
        # translator broken: fall back to the last generated schemas is not possible -> search with monitors only
        monitor_std_vs_parameters(ctx)
        return
    sigs = [Sig(s) for s in raw]
    import pandapipes as pp
    missing = [s.fn for s in sigs if not hasattr(pp, s.fn)]
    public = [n for n in dir(pp) if n.startswith("create_") and n not in tsig.NOT_ELEMENT and callable(getattr(pp, n))
              and getattr(getattr(pp, n), "__module__", "").endswith(("create", "deprecations"))]
    unknown = [n for n in public if n not in [s.fn for s in sigs] and n not in ("create_std_type", "create_std_types",
                                                                                "create_pump_std_type", "create_empty_network", "create_fluid_from_lib")]
    if missing or unknown:
        ctx.broken("translator", "create functions", "missing in package: %s; not translated: %s" % (missing, unknown))
    import time
    tm = {}

    def timed(name, f, *a):
        t0 = time.time()
        r = f(*a)
        tm[name] = round(time.time() - t0, 1)
        return r
    cases, meta = timed("plans", run_plans, ctx, sigs)
    timed("coq_correspondence", correspond, ctx, cases, meta)
    timed("eg_types", monitor_eg_types, ctx)
    timed("bulk_vs_fold", monitor_bulk_vs_fold, ctx, sigs, twins)
    timed("bulk_series", monitor_bulk_series, ctx, sigs, twins)
    timed("std_vs_parameters", monitor_std_vs_parameters, ctx)
    timed("std_list_vs_parameters", monitor_std_list_vs_parameters, ctx)
    timed("value_faults", monitor_value_faults, ctx, sigs)
    timed("generated_lists", monitor_generated_lists, ctx, raw)
    timed("defaults_run", monitor_defaults_run, ctx)
    ctx.extra["phase_seconds"] = tm
    # twin default differences reported by the translator -> concrete rows (already shown by the differentials)
    for b, t in twins + [("create_pipe", "create_pipe_from_parameters")]:
        sb, st = [s for s in sigs if s.fn == b][0], [s for s in sigs if s.fn == t][0]
        for p, d in sb.params:
            d2 = dict((tsig.singular(q), x) for q, x in st.params).get(tsig.singular(p))
            if d2 is not None and d2 != d and tsig.REQUIRED not in (d, d2):
                ctx.violation({"clause": "twin_defaults", "fn": b, "param": tsig.singular(p)},
                              "default of %s is %s in %s but %s in %s" % (p, d, b, d2, t),
                              {"fn": b, "twin": t, "param": p, "defaults": [d, d2]})


def replay(ctx, path):
    """./check C16 --replay replay/C16_<hash>.json : rebuild the base net (same VERIF_SEED / tier as recorded in the
    file), repeat the call on the current tree and re-evaluate the clause of the recorded signature"""
    import pandapipes as pp
    obj = json.load(open(path))
    r, sig = obj.get("replay", {}), obj.get("signature", {})
    if "fn" not in r or "net" not in r or "kwargs" not in r:
        ctx.broken("replay", "unsupported replay record", "only create-call records (net, fn, kwargs) can be replayed: %s" % list(r))
        return
    if obj.get("seed") != ctx.seed or obj.get("tier") != ctx.tier:
        ctx.note("replay recorded with seed %s tier %s: run with VERIF_SEED=%s --tier %s to rebuild generated nets"
                 % (obj.get("seed"), obj.get("tier"), obj.get("seed"), obj.get("tier")))
    builders = dict(base_nets(ctx))
    if r["net"] not in builders:
        ctx.broken("replay", "base net %s not available" % r["net"], "")
        return
    raw = tsig.extract()
    sigs = [Sig(x) for x in raw]
    sg = [x for x in sigs if x.fn == r["fn"]][0]
    net = builders[r["net"]]()
    kw = dict(r["kwargs"])
    if isinstance(kw.get("geodata"), list) and r["fn"] == "create_junction":
        kw["geodata"] = tuple(kw["geodata"])
    before = deep_snapshot(net)
    try:
        ret = getattr(pp, r["fn"])(net, **kw)
        ok, exc = True, ""
    except Exception as e:  # noqa: BLE001
        ok, ret, exc = False, None, "%s: %s" % (type(e).__name__, str(e)[:120])
    diff = snap_diff(before, deep_snapshot(net))
    print("replay: %s(%s) on net %s -> %s; changed: %s" % (r["fn"], kw, r["net"], exc or "ok %r" % (ret,), diff))
    clause = sig.get("clause")
    again = False
    if clause == "atomic":
        again = (not ok) and bool(diff)
    elif clause == "rejects":
        again = ok
    elif clause == "accepts_valid":
        again = not ok
    elif clause == "referential_integrity":
        again = ok and bool(ri_violations(net, sigs, sg.table, [int(x) for x in (ret if sg.bulk else [ret])]))
    elif clause == "adds_exactly":
        again = ok and any(d != "table:" + sg.table for d in diff)
    elif clause == "adds_or_raises":
        again = ok and ret is None
    else:
        ctx.note("clause %r is re-evaluated by the full check only" % clause)
    ctx.case({"replay": path}, True)
    if again:
        ctx.violation(sig, "replayed: " + obj.get("what", ""), r)
    else:
        print("replay: the recorded failure does not occur on the current tree")
