"""C18 - the topology graph agrees with the solver about what is connected (DESIGN.md 4/C18, design_notes/C18.md).

H-tie : coq/C18/Model.v (edges / nodes / components by closure / unsupplied / distances by relaxation) vs
        create_nxgraph + networkx + unsupplied_junctions + the three distance functions on generated nets, for
        sampled include_* / respect_status_* / nogo / notrav / multi arguments; compared inside Coq, exactly
        (pipe lengths are dyadic, so networkx' float sums are exact).
Monitors (property words as oracle): a pi valve adds no edge of its own, a closed one removes its pipe's edge,
        one edge per in-service branch, include_*=False removes the table's edges, and against the real solver:
        junctions without pressure result == unsupplied_junctions + out-of-service junctions.
"""
import ast
import copy
import json
import os
import sys
from concurrent.futures import ThreadPoolExecutor

sys.path.insert(0, os.path.dirname(os.path.dirname(os.path.abspath(__file__))))
import vlib  # noqa: E402
from vlib import cstr, cz, cbool, clist  # noqa: E402
from harness import gen, drive, c17_gen  # noqa: E402

CLAIM = {
    "text": "13 unbounded Coq theorems about an executable model of create_nxgraph and the graph searches: an edge with key "
            "(table, label) is in the graph exactly when the row is included (bool or label list), is no pipe-attached "
            "valve, is active (or status ignored), is not a pipe with a closed valve, and both ends are kept; keys are "
            "unique (one edge per branch); a stable closure is exactly the set reachable over the edges; for tables "
            "whose branches are in service, undirected and no flow-return connection, graph reachability from the "
            "supplied junctions equals what the solver's connectivity search marks on its own pit (bridge to C04's "
            "search_hyd / mk_branches); unsupplied = not reachable from the pressure-fixing elements; a stable "
            "relaxation gives the minimum over all walks. Tied to create_graph.py / graph_searches.py / networkx by an "
            "exact correspondence (edge multiset, nodes, components, unsupplied set, raises, distances) inside Coq, which "
            "also checks stability of every computed closure / relaxation and the slack set.",
    "note": "One known finding remains: notravjunctions next to an out-of-service junction leave the adjacency inconsistent "
            "(excluded from the model by notrav_clash, reported by a monitor). Directed branches and flow-return-only "
            "branches are edges of the graph but no hydraulic connections of the solver: excluded by hypothesis in the "
            "islands theorems, counted by the solver monitor. networkx (components, Dijkstra) is an oracle. Agreement "
            "with real pipeflow runs (NaN pressure = unsupplied + out of service) and purity of every topology call are "
            "monitored, not proved. All theorems closed under the global context (no axioms).",
    "technique": "Coq proof over hand-written model + exact model/implementation correspondence + solver monitor",
    "design": "DESIGN.md 4/C18 + design_notes/C18.md",
}
GEN = []

KW = {"pipe": "pipes", "valve": "valves", "pump": "pumps", "compressor": "compressors",
      "press_control": "press_controls", "flow_control": "flow_controls", "heat_consumer": "heat_consumers",
      "heat_exchanger": "heat_exchangers", "circ_pump_mass": "mass_circ_pumps",
      "circ_pump_pressure": "pressure_circ_pumps"}
SCALE = 64


def ignored_keywords():
    """mini T-tie: named include_/respect_status_ parameters of create_nxgraph that never reach branch_params
    (the list literal of the comprehension does not name them) are ignored by the code today"""
    src = open(os.path.join(vlib.SRC, "topology", "create_graph.py")).read()
    fn = next(n for n in ast.walk(ast.parse(src)) if isinstance(n, ast.FunctionDef) and n.name == "create_nxgraph")
    named = {a.arg for a in fn.args.args}
    lists = [n for n in ast.walk(fn) if isinstance(n, ast.List) and n.elts and all(isinstance(e, ast.Constant) and
             isinstance(e.value, str) for e in n.elts)]
    names = set()
    for l in lists:
        vals = [e.value for e in l.elts]
        if "pipes" in vals:
            names = set(vals)
    if not names:
        raise RuntimeError("create_nxgraph: list of branch component keywords not found")
    return sorted(k for k in KW.values() if ("include_" + k) in named and k not in names)


def branch_tables(net):
    from pandapipes.component_models.abstract_models.branch_models import BranchComponent
    return [c for c in net.component_list if issubclass(c, BranchComponent)]


def doc_flags(kw, table):
    """the documented meaning of the keyword arguments for one table: (include, respect_status, only);
    include_X may be a bool or an iterable of labels (only = that list; an empty list includes nothing)"""
    k = KW.get(table, table + "s")
    inc = kw.get("include_" + k, True)
    only = None
    if not isinstance(inc, bool):
        only = [int(x) for x in inc]
        inc = len(only) > 0
    rsall = kw.get("respect_status_branches_all", None)
    resp = rsall if rsall in (True, False) else kw.get("respect_status_" + k, True)
    return bool(inc), bool(resp), only


def eff_flags(kw, table, ignored):
    k = KW.get(table, table + "s")
    if k in ignored:
        rsall = kw.get("respect_status_branches_all", None)
        return True, (rsall if rsall in (True, False) else True), None
    return doc_flags(kw, table)


def pressure_sources(net):
    """junctions where an in-service element fixes the pressure (the property's reading of 'supplied')"""
    s = set()
    eg = net.ext_grid
    for j, ins, t in zip(eg.junction.tolist(), eg.in_service.tolist(), eg.type.tolist()):
        if ins and "p" in str(t):
            s.add(int(j))
    for t in ("circ_pump_mass", "circ_pump_pressure"):
        if t in net and len(net[t]):
            for j, ins in zip(net[t].flow_junction.tolist(), net[t].in_service.tolist()):
                if ins:
                    s.add(int(j))
    return sorted(s)


def net_rows(net):
    js = [(int(l), bool(s)) for l, s in zip(net.junction.index.tolist(), net.junction.in_service.tolist())]
    tabs = []
    for c in branch_tables(net):
        t = c.table_name()
        df = net[t]
        fc, tc = c.from_to_node_cols()
        act = df[c.active_identifier()].tolist()
        w = [int(round(x * SCALE)) for x in df.length_km.tolist()] if t == "pipe" else [0] * len(df)
        pi = [e == "pi" for e in df.et.tolist()] if t == "valve" else [False] * len(df)
        rows = [(int(l), int(a), int(b), bool(x), ww, p) for l, a, b, x, ww, p in
                zip(df.index.tolist(), df[fc].tolist(), df[tc].tolist(), act, w, pi)]
        tabs.append((t, rows))
    eg = [(int(j), bool(s), "p" in str(t)) for j, s, t in zip(net.ext_grid.junction.tolist(), net.ext_grid.in_service.tolist(),
                                                          net.ext_grid.type.tolist())]
    return {"junctions": js, "tables": tabs, "extgrids": eg, "sources": pressure_sources(net)}


def c_net(nr):
    js = clist(["mkJ %s %s" % (cz(l), cbool(s)) for l, s in nr["junctions"]])
    tabs = clist(["(%s, %s)" % (cstr(t), clist(["mkB %s %s %s %s %s %s" % (cz(l), cz(a), cz(b), cbool(x), cz(w), cbool(p))
                                                for l, a, b, x, w, p in rows])) for t, rows in nr["tables"]])
    eg = clist(["(%s, %s, %s)" % (cz(j), cbool(s), cbool(p)) for j, s, p in nr["extgrids"]])
    return "(mkNet %s %s %s %s)" % (js, tabs, eg, clist([cz(x) for x in nr["sources"]]))


def c_args(kw, nr, ignored):
    def one(t):
        inc, resp, only = eff_flags(kw, t, ignored)
        return "(%s, mkF %s %s %s)" % (cstr(t), cbool(inc), cbool(resp),
                                       "None" if only is None else "(Some %s)" % clist([cz(x) for x in only]))
    fl = clist([one(t) for t, _ in nr["tables"]])
    return "(mkArgs %s %s %s %s %s %s)" % (
        fl, cbool(kw.get("respect_status_valves", True)), cbool(kw.get("respect_status_junctions", True)),
        clist([cz(x) for x in (kw.get("nogojunctions") or [])]), clist([cz(x) for x in (kw.get("notravjunctions") or [])]),
        cbool(kw.get("multi", True)))


def c_edges(es):
    return clist(["mkE %s %s %s %s %s" % (cz(u), cz(v), cstr(t), cz(l), cz(w)) for u, v, t, l, w in es])


def c_case(c):
    return "mkCase %s %s %s %s %s %s %s %s %s" % (
        c_net(c["net"]), c_args(c["kw"], c["net"], c["ignored"]), cbool(c.get("raised", False)), c_edges(c["edges"]), clist([cz(x) for x in c["nodes"]]),
        clist([clist([cz(x) for x in comp]) for comp in c["comps"]]),
        "None" if c["unsupplied"] is None else "(Some %s)" % clist([cz(x) for x in c["unsupplied"]]),
        clist([cz(x) for x in c["dsrc"]]), clist(["(%s, %s)" % (cz(v), cz(d)) for v, d in c["dist"]]))


HEADER = ("From Coq Require Import String List ZArith.\nFrom PP Require Import C18.Model.\nImport ListNotations.\n"
          "Open Scope string_scope.\n")


def cases_file(cases):
    return (HEADER + "Definition cs : list case := [\n%s\n].\nEval vm_compute in (summary cs).\n"
            "Eval vm_compute in (let k := match first_bad cs 0 with Some i => which_bad (nth i cs (hd (mkCase (mkNet [] [] [] []) "
            "(mkArgs [] true true [] [] true) false [] [] [] None [] []) cs)) | None => 0%%Z end in (0%%nat, 0%%nat, k)).\n"
            % ";\n".join(c_case(c) for c in cases))


# --------------------------------------------------------------------------- generation
def make_spec(rng, quick):
    profile = rng.choice(["water", "water", "gas", "heat"])
    spec = gen.gen_net(rng, profile, size=None if profile == "heat" else rng.randint(3, 7 if quick else 12))
    spec = c17_gen.augment(spec, rng, geodata=False)
    # parallel twins of existing pipes, created later (so later in the table), same or reversed direction
    pipes = [kw for fn, kw in spec["ops"] if fn == "create_pipe_from_parameters"]
    used = {kw["index"] for kw in pipes}
    for kw in rng.sample(pipes, min(len(pipes), rng.choice([0, 1, 1, 2]))):
        tw = copy.deepcopy(kw)
        tw["index"] = next(x for x in range(max(used) + 1, max(used) + 50) if x not in used) if rng.random() < 0.5 else \
            next(x for x in range(0, max(used) + 50) if x not in used)
        used.add(tw["index"])
        tw.pop("geodata", None)
        if rng.random() < 0.5:
            tw["from_junction"], tw["to_junction"] = tw["to_junction"], tw["from_junction"]
        spec["ops"].append(["create_pipe_from_parameters", tw])
    # dyadic pipe lengths: every float sum networkx forms is exact
    for fn, kw in spec["ops"]:
        if fn == "create_pipe_from_parameters":
            kw["length_km"] = rng.randint(1, 2 * SCALE) / SCALE
    return spec


def random_kwargs(rng, net, distance=False):
    js = net.junction.index.tolist()
    kw = {}
    if distance:
        if rng.random() < 0.3 and len(js) > 3:
            kw["nogojunctions"] = [int(x) for x in rng.sample(js, 1)]
        if rng.random() < 0.3 and len(js) > 3:
            kw["notravjunctions"] = [int(x) for x in rng.sample(js, rng.choice([1, 2]))]
        return kw
    if rng.random() < 0.25:
        return kw                                                  # all defaults
    labels = {KW.get(c.table_name(), c.table_name() + "s"): net[c.table_name()].index.tolist() for c in branch_tables(net)}
    for k in KW.values():
        if rng.random() < 0.2:
            kw["include_" + k] = rng.random() < 0.4
        elif rng.random() < 0.12 and labels.get(k):
            # include_X as a list of labels (any order, any subset, possibly empty)
            kw["include_" + k] = [int(x) for x in rng.sample(labels[k], rng.randint(0, len(labels[k])))]
        if rng.random() < 0.25:
            kw["respect_status_" + k] = rng.random() < 0.5
    if rng.random() < 0.3:
        kw["respect_status_junctions"] = rng.random() < 0.5
    if rng.random() < 0.25:
        kw["respect_status_branches_all"] = rng.choice([None, True, False])
    if rng.random() < 0.2 and len(js) > 3:
        kw["nogojunctions"] = [int(x) for x in rng.sample(js, rng.choice([1, 2]))]
    if rng.random() < 0.35:
        kw["multi"] = False
    return kw


def graph_obs(mg):
    import networkx as nx
    if mg.is_multigraph():
        es = [(int(u), int(v), k[0], int(k[1]), d["weight"]) for u, v, k, d in mg.edges(keys=True, data=True)]
    else:
        es = [(int(u), int(v), d["key"][0], int(d["key"][1]), d["weight"]) for u, v, d in mg.edges(data=True)]
    es2 = []
    for u, v, t, l, w in es:
        ws = float(w) * SCALE
        if ws != int(ws):
            raise RuntimeError("inexact weight %r" % w)
        es2.append((u, v, t, l, int(ws)))
    return es2, [int(x) for x in mg.nodes()], [sorted(int(x) for x in c) for c in nx.connected_components(mg)]


class Runner:
    def __init__(self, ctx):
        self.ctx = ctx
        self.cases = []
        self.ignored = ignored_keywords()

    def pure(self, net, fn, call, replay):
        """run a topology query; the user tables must be bit-identical afterwards (a query never modifies the net)"""
        from harness import c17_ops
        before = drive.snapshot_tables(net)
        meta0 = c17_ops.meta_state(net)
        try:
            return call()
        finally:
            after = drive.snapshot_tables(net)
            for part in c17_ops.state_diff(meta0, c17_ops.meta_state(net))[:2]:
                self.ctx.violation({"fn": fn, "kind": "mutates_net", "table": "<net>", "column": part},
                                   "%s changed net.%s" % (fn, part), replay)
            if after != before:
                t = next(k for k in sorted(set(before) | set(after)) if before.get(k) != after.get(k))
                cols = before[t]["columns"]
                col = "?"
                for ra, rb in zip(before[t]["values"], after[t]["values"]):
                    d = [c for c, x, y in zip(cols, ra, rb) if x != y]
                    if d:
                        col = d[0]
                        break
                self.ctx.violation({"fn": fn, "kind": "mutates_net", "table": t, "column": col},
                                   "%s changed the user table net.%s (column %s)" % (fn, t, col), replay)

    # ---- one graph case
    def graph_case(self, spec, kw, with_unsupplied=True):
        import pandapipes.topology as top
        ctx = self.ctx
        net = gen.build(spec)
        nr = net_rows(net)
        replay = {"spec": spec, "kwargs": kw, "kind": "graph"}
        try:
            mg = self.pure(net, "create_nxgraph", lambda: top.create_nxgraph(net, **copy.deepcopy(kw)), replay)
        except Exception as e:  # noqa: BLE001
            ctx.count("create_nxgraph_raised_" + type(e).__name__)
            self.cases.append({"net": nr, "kw": kw, "ignored": self.ignored, "raised": True, "edges": [], "nodes": [],
                               "comps": [], "unsupplied": None, "dsrc": [], "dist": [], "replay": replay})
            ctx.case({"kwargs": kw, "raised": type(e).__name__}, True)
            self.monitor_exception(nr, kw, e, replay)
            return
        es, nodes, comps = graph_obs(mg)
        uns = None
        if with_unsupplied:
            uns = sorted(int(x) for x in self.pure(net, "unsupplied_junctions", lambda: top.unsupplied_junctions(net, mg=mg), replay))
        case = {"net": nr, "kw": kw, "ignored": self.ignored, "edges": es, "nodes": nodes, "comps": comps,
                "unsupplied": uns, "dsrc": [], "dist": [], "replay": replay}
        self.cases.append(case)
        has_pi = any(p for t, rows in nr["tables"] for *_, p in rows)
        ctx.case({"kwargs": kw, "tables": {t: len(r) for t, r in nr["tables"] if r}, "junctions": len(nr["junctions"])},
                 has_pi or bool(kw) or any(not s for _, s in nr["junctions"]))
        ctx.count("graph_multi" if kw.get("multi", True) else "graph_simple")
        self.monitor_edges(nr, kw, es, replay)

    def monitor_exception(self, nr, kw, e, replay, fn="create_nxgraph"):
        """valid arguments (nogo / notrav junctions of the net) must give a graph"""
        js = {l for l, _ in nr["junctions"]}
        given = list(kw.get("nogojunctions") or []) + list(kw.get("notravjunctions") or [])
        if not set(given) <= js or len(set(given)) != len(given):
            self.ctx.count("invalid_argument_calls")
            return
        pipe_as_node = any(p and b not in js for t, rows in nr["tables"] for (l, a, b, x, w, p) in rows)
        sig = {"fn": "create_nxgraph", "kind": "exception", "exception": type(e).__name__}
        oos = {l for l, ins in nr["junctions"] if not ins}
        if pipe_as_node:
            sig.update({"column": "valve.element", "clause": "pipe_valve_adds_no_edge"})
        elif kw.get("respect_status_junctions", True) and set(kw.get("nogojunctions") or []) & oos:
            sig.update({"cause": "nogo_out_of_service"})
        elif kw.get("respect_status_junctions", True) and kw.get("notravjunctions") and oos and isinstance(e, KeyError):
            sig.update({"cause": "notrav_next_to_out_of_service"})
        self.ctx.violation(sig, "%s(%s) raised %r%s" % (fn, kw, e, " (the pipe label of a pi valve became a node, so the "
                           "junctions were not completed)" if pipe_as_node else ""), replay)

    # ---- property-level statements about the edge set
    def monitor_edges(self, nr, kw, es, replay):
        ctx = self.ctx
        jins = dict(nr["junctions"])
        nogo = set(kw.get("nogojunctions") or [])
        rsj = kw.get("respect_status_junctions", True)
        multi = kw.get("multi", True)
        by_key = {}
        for u, v, t, l, w in es:
            by_key.setdefault((t, l), []).append((u, v, w))
        closed = {b for t, rows in nr["tables"] if t == "valve" for (l, a, b, x, w, p) in rows if p and not x}
        for t, rows in nr["tables"]:
            inc, resp, only = doc_flags(kw, t)
            k = KW.get(t, t + "s")
            for (l, a, b, act, w, pi) in rows:
                inc_row = inc and (only is None or l in only)
                got = by_key.get((t, l), [])
                if pi:
                    if got:
                        ctx.violation({"fn": "create_nxgraph", "column": "valve.element", "clause": "pipe_valve_adds_no_edge"},
                                      "valve %s is attached to pipe %s (et == 'pi') but the graph has the edge %s -> %s "
                                      "(pipe label read as a junction label)" % (l, b, got[0][0], got[0][1]), replay)
                    continue
                if not inc_row:
                    if got:
                        ctx.violation({"fn": "create_nxgraph", "arg": "include_" + k},
                                      "include_%s=%r excludes (%s, %s) but the graph has its edge" % (k, kw.get("include_" + k), t, l), replay)
                    continue
                ends_ok = a in jins and b in jins and a not in nogo and b not in nogo and \
                    (not rsj or (jins[a] and jins[b]))
                want = (act or not resp) and ends_ok and not (t == "pipe" and kw.get("respect_status_valves", True) and l in closed)
                if want and multi:
                    if len(got) != 1 or {got[0][0], got[0][1]} != {a, b} or (t == "pipe" and got[0][2] != w):
                        arg = "respect_status_" + k if (not resp and not act) else "one_edge_per_branch"
                        ctx.violation({"fn": "create_nxgraph", "arg": arg, "table": t},
                                      "branch (%s, %s) %s-%s (active=%s) must be exactly one edge between its junctions, "
                                      "graph has %s (kwargs %s)" % (t, l, a, b, act, got, kw), replay)
                if not want and got:
                    what = "closed pi valve does not remove the edge of pipe %s" % l if (t == "pipe" and l in closed and act) else \
                        "edge (%s, %s) present although the branch is %s" % (t, l, "inactive" if not act else "cut off")
                    ctx.violation({"fn": "create_nxgraph", "arg": "respect_status_" + k, "table": t,
                                   "clause": "pipe_valve_closes_pipe" if (t == "pipe" and l in closed and act) else "status"},
                                  what + " (kwargs %s)" % kw, replay)

    # ---- distances
    def distance_case(self, spec, rng, fixed=None):
        import pandapipes.topology as top
        ctx = self.ctx
        net = gen.build(spec)
        nr = net_rows(net)
        if fixed:
            kw, which, srcs = fixed
        else:
            kw = random_kwargs(rng, net, distance=True)
            bad = set(kw.get("nogojunctions") or []) | set(kw.get("notravjunctions") or []) | \
                {l for l, s in nr["junctions"] if not s}
            cand = [l for l, _ in nr["junctions"] if l not in bad]
            if not cand:
                return
            which = rng.choice(["single", "minimum", "multi"])
            srcs = [rng.choice(cand)] if which == "single" else rng.sample(cand, min(len(cand), rng.choice([1, 2, 3])))
        replay = {"spec": spec, "kwargs": kw, "kind": "distance", "fn": which, "sources": srcs}
        args = dict(notravjunctions=kw.get("notravjunctions"), nogojunctions=kw.get("nogojunctions"))
        try:
            top.create_nxgraph(net, **args)
            mg = top.create_nxgraph(net, nogojunctions=kw.get("nogojunctions"))
        except Exception as e:  # noqa: BLE001
            ctx.count("distance_graph_raised_" + type(e).__name__)
            self.cases.append({"net": nr, "kw": kw, "ignored": self.ignored, "raised": True, "edges": [], "nodes": [],
                               "comps": [], "unsupplied": None, "dsrc": [], "dist": [], "replay": replay})
            self.monitor_exception(nr, kw, e, replay, fn="calc_distance:" + which)
            return
        es, nodes, comps = graph_obs(mg)
        try:
            if which == "single":
                d = self.pure(net, "calc_distance_to_junction", lambda: top.calc_distance_to_junction(net, srcs[0], **args), replay)
            elif which == "minimum":
                d = self.pure(net, "calc_minimum_distance_to_junctions",
                              lambda: top.calc_minimum_distance_to_junctions(net, list(srcs), **args), replay)
            else:
                d = self.pure(net, "calc_distance_to_junctions", lambda: top.calc_distance_to_junctions(net, list(srcs), **args), replay)
        except Exception as e:  # noqa: BLE001
            # the graph exists but the search fails: a source junction is not a node of the graph
            ctx.count("distance_search_raised_" + type(e).__name__)
            self.cases.append({"net": nr, "kw": kw, "ignored": self.ignored, "edges": es, "nodes": nodes, "comps": comps,
                               "unsupplied": None, "dsrc": [], "dist": [], "replay": replay})
            self.monitor_exception(nr, kw, e, replay, fn="calc_distance:" + which)
            return
        ghost = sorted(int(v) for v in d.index if int(v) not in set(nodes))
        if ghost:
            oos = {l for l, ins in nr["junctions"] if not ins}
            sig = {"fn": "create_nxgraph", "kind": "ghost_nodes"}
            js = {l for l, _ in nr["junctions"]}
            if kw.get("notravjunctions") and set(ghost) <= oos:
                sig["cause"] = "notrav_next_to_out_of_service"
            elif not (set(ghost) & oos) and any(p and b not in js for t, rows in nr["tables"] for (l, a, b, x, w, p) in rows):
                # an in-service junction is missing in the graph: the pipe label of a pi valve took its place in the count
                sig.update({"column": "valve.element", "clause": "pipe_valve_adds_no_edge"})
            ctx.violation(sig, "distance function %s(%s, %s) returns distances to %s, which are not nodes of the graph "
                          "(out of service / nogo)" % (which, srcs, args, ghost), replay)
        dist = []
        for v, x in d.items():
            xs = float(x) * SCALE
            if xs != int(xs):
                ctx.violation({"fn": "calc_distance", "kind": "inexact"}, "distance %r is not a sum of the dyadic lengths" % x, replay)
                return
            dist.append((int(v), int(xs)))
        self.cases.append({"net": nr, "kw": {k: v for k, v in kw.items()}, "ignored": self.ignored, "edges": es, "nodes": nodes,
                           "comps": comps, "unsupplied": None, "dsrc": srcs, "dist": dist, "replay": replay})
        ctx.case({"distance": which, "sources": srcs, "kwargs": kw, "junctions": len(nr["junctions"])}, len(dist) > 1)
        ctx.count("distance_" + which)

    # ---- against the real solver
    def solver_case(self, spec):
        import numpy as np
        import networkx as nx
        import pandapipes.topology as top
        ctx = self.ctx
        net = gen.build(spec)
        st, _ = drive.run(net, use_numba=False)
        ctx.count("solver_pipeflow_" + st)
        if st != "ok":
            return
        nr = net_rows(net)
        p = net.res_junction.p_bar
        nan = {int(l) for l, x in zip(p.index.tolist(), p.values) if np.isnan(x)}
        oos = {l for l, s in nr["junctions"] if not s}
        try:
            graph = {int(x) for x in self.pure(net, "unsupplied_junctions", lambda: top.unsupplied_junctions(net),
                                               {"spec": spec, "kind": "solver"})} | oos
        except Exception as e:  # noqa: BLE001
            self.monitor_exception(nr, {}, e, {"spec": spec, "kind": "solver"}, fn="unsupplied_junctions")
            return
        ctx.case({"solver_nan": sorted(nan), "graph_unsupplied_or_oos": sorted(graph)}, bool(nan))
        ctx.count("solver_compared")
        if nan == graph:
            return
        replay = {"spec": spec, "kind": "solver"}
        mg = top.create_nxgraph(net)

        def unsup(g, sources):
            out = set()
            for cc in nx.connected_components(g):
                if not set(cc) & set(sources):
                    out |= {int(x) for x in cc}
            return out
        s_p = {j for j, ins, t in zip(net.ext_grid.junction.tolist(), net.ext_grid.in_service.tolist(),
                                      net.ext_grid.type.tolist()) if ins and "p" in str(t)}
        s_all = set(pressure_sources(net))
        s_code = set(net.ext_grid.junction[net.ext_grid.in_service].tolist())
        g2 = mg.copy()
        pi = set(net.valve.index[net.valve.et == "pi"].tolist())
        g2.remove_edges_from([(u, v, k) for u, v, k in mg.edges(keys=True) if k[0] == "valve" and k[1] in pi])
        g2.remove_nodes_from([x for x in list(g2.nodes) if x not in set(net.junction.index.tolist())])
        g2.add_nodes_from([x for x in net.junction.index.tolist() if x not in oos])       # what the code skips
        what = "junctions without pressure result %s != unsupplied_junctions + out of service %s" % (sorted(nan), sorted(graph))
        if (unsup(mg, s_all) | oos) == nan and s_all != s_code:
            cp = s_all - s_p
            if cp and unsup(mg, s_code) != unsup(mg, s_code | cp):
                cause = "circ_pump"
            elif unsup(mg, s_p) != unsup(mg, s_code):
                cause = "t_ext_grid"
            else:
                cause = "unknown"
            ctx.violation({"fn": "unsupplied_junctions", "cause": cause}, what + " (supply by %s)" % cause, replay)
        elif (unsup(g2, s_all) | oos) == nan:
            ctx.violation({"fn": "create_nxgraph", "column": "valve.element", "clause": "pipe_valve_adds_no_edge",
                           "seen": "solver"}, what + " (edge of a pi valve joins parts the solver separates)", replay)
        elif len(net.flow_control) or len(net.heat_consumer) or len(net.press_control) or len(net.pump) or \
                len(net.compressor) or len(net.circ_pump_mass) or len(net.circ_pump_pressure):
            # graph and solver differ by design for branches that do not establish hydraulic connectivity
            # (flow / pressure controllers, heat consumers) and for directed branches (pumps, compressors)
            ctx.count("solver_differs_by_design_candidates")
        else:
            ctx.violation({"fn": "unsupplied_junctions", "cause": "unknown"}, what, replay)


def run_correspondence(ctx, runner):
    cases = runner.cases
    size = 100
    chunks = [cases[s:s + size] for s in range(0, len(cases), size)]

    def ev(i):
        return ctx.coq_counts(cases_file(chunks[i]), "c18_cases_%d" % i)
    with ThreadPoolExecutor(max_workers=6) as ex:
        results = list(ex.map(ev, range(len(chunks))))
    n_tot = n_mis = 0
    bad = []
    for i, (trip, out) in enumerate(results):
        if not trip or len(trip) < 2:
            ctx.broken("correspondence", "C18.Model vs create_nxgraph / graph searches (coqc failed)", (out or "")[-800:])
            return
        n, m, first = trip[0]
        n_tot += n
        n_mis += m
        if m:
            bad.append((i * size + first, trip[1][2]))
    ctx.corr("C18.Model (edges, nodes, components, unsupplied, distances) == create_nxgraph / networkx / graph_searches",
             n_tot, n_mis, "every computed closure and relaxation was checked to be stable inside Coq")
    part = {1: "edges", 2: "nodes", 3: "components", 4: "unsupplied", 5: "distances", 6: "whether the call raises",
            7: "pressure sources (slack set)", 0: "?"}
    for i, k in bad[:3]:
        c = cases[i]
        ctx.violation({"fn": "create_nxgraph" if k in (1, 2, 3) else "unsupplied_junctions" if k == 4 else "calc_distance",
                       "part": part.get(k, "?"), "kind": "correspondence"},
                      "%s returned by the implementation differ from the Coq model of today's behaviour (kwargs %s)"
                      % (part.get(k, "?"), c["kw"]), c["replay"])


WITNESS = {"fluid": "water", "ops": [
    ["create_junction", {"pn_bar": 5.0, "tfluid_k": 293.15, "index": i}] for i in (0, 1, 2, 3, 4, 5)] + [
    ["create_ext_grid", {"junction": 0, "p_bar": 5.0, "t_k": 293.15, "index": 0}],
    ["create_pipe_from_parameters", {"from_junction": 0, "to_junction": 1, "length_km": 0.5, "inner_diameter_mm": 100.0, "k_mm": 0.1, "index": 3}],
    ["create_pipe_from_parameters", {"from_junction": 1, "to_junction": 2, "length_km": 0.25, "inner_diameter_mm": 100.0, "k_mm": 0.1, "index": 7}],
    ["create_pipe_from_parameters", {"from_junction": 3, "to_junction": 4, "length_km": 0.5, "inner_diameter_mm": 100.0, "k_mm": 0.1, "index": 4}],
    ["create_pipe_from_parameters", {"from_junction": 4, "to_junction": 5, "length_km": 0.5, "inner_diameter_mm": 100.0, "k_mm": 0.1, "index": 5}],
    ["create_circ_pump_const_pressure", {"return_junction": 5, "flow_junction": 3, "p_flow_bar": 5.0, "plift_bar": 0.5, "t_flow_k": 293.15, "index": 0}],
    ["create_valve", {"junction": 1, "element": 3, "et": "pi", "inner_diameter_mm": 80.0, "opened": True, "index": 0}],
    ["create_sink", {"junction": 2, "mdot_kg_per_s": 0.5, "index": 0}]]}


WITNESS_GAS = {"fluid": "lgas", "ops": [
    ["create_junction", {"pn_bar": 5.0, "tfluid_k": 293.15, "index": i}] for i in (0, 1, 2, 3)] + [
    ["create_ext_grid", {"junction": 0, "p_bar": 5.0, "t_k": 293.15, "index": 0}],
    ["create_pipe_from_parameters", {"from_junction": 0, "to_junction": 1, "length_km": 0.5, "inner_diameter_mm": 100.0, "k_mm": 0.1, "index": 0}],
    ["create_compressor", {"from_junction": 1, "to_junction": 2, "pressure_ratio": 1.1, "index": 0}],
    ["create_compressor", {"from_junction": 1, "to_junction": 2, "pressure_ratio": 1.1, "index": 1, "in_service": False}],
    ["create_pipe_from_parameters", {"from_junction": 2, "to_junction": 3, "length_km": 0.25, "inner_diameter_mm": 100.0, "k_mm": 0.1, "index": 1}],
    ["create_sink", {"junction": 3, "mdot_kg_per_s": 0.01, "index": 0}]]}
WITNESS_T = {"fluid": "water", "ops": [
    ["create_junction", {"pn_bar": 5.0, "tfluid_k": 293.15, "index": i}] for i in (0, 1, 2, 3)] + [
    ["create_ext_grid", {"junction": 0, "p_bar": 5.0, "t_k": 293.15, "index": 0}],
    ["create_ext_grid", {"junction": 2, "p_bar": 5.0, "t_k": 293.15, "type": "t", "index": 1}],
    ["create_pipe_from_parameters", {"from_junction": 0, "to_junction": 1, "length_km": 0.5, "inner_diameter_mm": 100.0, "k_mm": 0.1, "index": 0}],
    ["create_pipe_from_parameters", {"from_junction": 2, "to_junction": 3, "length_km": 0.25, "inner_diameter_mm": 100.0, "k_mm": 0.1, "index": 1}],
    ["create_sink", {"junction": 1, "mdot_kg_per_s": 0.1, "index": 0}]]}


WITNESS_NOTRAV = {"fluid": "water", "ops": [
    ["create_junction", {"pn_bar": 5.0, "tfluid_k": 293.15, "index": i, "in_service": i != 2}] for i in (0, 1, 2, 3)] + [
    ["create_ext_grid", {"junction": 0, "p_bar": 5.0, "t_k": 293.15, "index": 0}]] + [
    ["create_pipe_from_parameters", {"from_junction": a, "to_junction": b, "length_km": 0.5, "inner_diameter_mm": 100.0,
                                     "k_mm": 0.1, "index": i}] for i, (a, b) in enumerate([(0, 1), (1, 2), (2, 3), (0, 3)])]}


def zoo_spec():
    """one in-service and one out-of-service row of every branch table (graph only, never solved), an
    out-of-service ext grid as the only ext grid of its part, an out-of-service junction"""
    ops = [["create_junction", {"pn_bar": 5.0, "tfluid_k": 293.15, "index": i, "in_service": i != 43}] for i in range(44)]
    j = iter(range(44))

    def two(fn, a, b, act, **kw):
        for ins in (True, False):
            d = {a: next(j), b: next(j), act: ins}
            d.update(kw)
            d["index"] = 3 if ins else 8
            ops.append([fn, d])
    two("create_pipe_from_parameters", "from_junction", "to_junction", "in_service", length_km=0.5, inner_diameter_mm=100., k_mm=0.1)
    two("create_valve", "junction", "element", "opened", et="ju", inner_diameter_mm=80.)
    two("create_pump", "from_junction", "to_junction", "in_service", std_type="P1")
    two("create_compressor", "from_junction", "to_junction", "in_service", pressure_ratio=1.1)
    two("create_pressure_control", "from_junction", "to_junction", "in_service", controlled_junction=0, controlled_p_bar=4.0,
        check_controllability=False)
    two("create_flow_control", "from_junction", "to_junction", "in_service", controlled_mdot_kg_per_s=0.1)
    two("create_heat_exchanger", "from_junction", "to_junction", "in_service", qext_w=1000., inner_diameter_mm=80.)
    two("create_heat_consumer", "from_junction", "to_junction", "in_service", controlled_mdot_kg_per_s=0.1, qext_w=1000.)
    two("create_circ_pump_const_pressure", "return_junction", "flow_junction", "in_service", p_flow_bar=5., plift_bar=1., t_flow_k=300.)
    two("create_circ_pump_const_mass_flow", "return_junction", "flow_junction", "in_service", p_flow_bar=5., mdot_flow_kg_per_s=1., t_flow_k=300.)
    ops.append(["create_ext_grid", {"junction": 0, "p_bar": 5.0, "t_k": 293.15, "index": 0}])
    ops.append(["create_ext_grid", {"junction": 2, "p_bar": 5.0, "t_k": 293.15, "index": 1, "in_service": False}])
    return {"fluid": "water", "ops": ops}


def run(ctx):
    ctx.extra["rule"] = ("nets from harness/gen.py + c17_gen.augment (pi valves, circulation-pump loop, remote pressure "
                         "control, t ext grid), dyadic pipe lengths; random include_/respect_status_/nogo/multi keyword "
                         "sets (omitted keywords exercise the defaults); distinct = canonical JSON of (kwargs, table "
                         "sizes); non-trivial = pi valve present, non-default kwargs, or an out-of-service junction")
    proved = ctx.prove("C18")
    rng = ctx.rng
    try:
        runner = Runner(ctx)
    except Exception as e:  # noqa: BLE001
        ctx.broken("translator", "create_nxgraph keyword list", repr(e))
        return
    ctx.extra["ignored_keywords_today"] = runner.ignored
    n_graph, n_dist, n_solver = (100, 50, 50) if ctx.quick else (2000, 1000, 500)
    try:
        # the witnesses of the _refuted theorems first
        runner.graph_case(WITNESS, {})
        runner.solver_case(WITNESS)
        wnv = copy.deepcopy(WITNESS)
        wnv["ops"] = [o for o in wnv["ops"] if o[0] != "create_valve"]
        runner.graph_case(wnv, {})
        runner.solver_case(wnv)
        runner.solver_case(WITNESS_T)
        runner.distance_case(WITNESS_NOTRAV, rng, fixed=({"notravjunctions": [1]}, "single", [0]))
        zoo = zoo_spec()
        runner.graph_case(zoo, {})
        runner.graph_case(zoo, {"multi": False})
        for k in KW.values():
            runner.graph_case(zoo, {"include_" + k: False})
            runner.graph_case(zoo, {"respect_status_" + k: False})
        runner.graph_case(zoo, {"respect_status_branches_all": False})
        runner.graph_case(zoo, {"respect_status_junctions": False})
        runner.graph_case(WITNESS_GAS, {"include_compressors": False})
        runner.graph_case(WITNESS_GAS, {"respect_status_compressors": False})
        for _ in range(n_graph):
            spec = make_spec(rng, ctx.quick)
            net = gen.build(spec)
            runner.graph_case(spec, random_kwargs(rng, net))
        for _ in range(n_dist):
            runner.distance_case(make_spec(rng, ctx.quick), rng)
        for _ in range(n_solver):
            spec = make_spec(rng, ctx.quick)
            runner.solver_case(spec)
    except Exception:  # noqa: BLE001
        import traceback
        ctx.broken("harness", "case generation", traceback.format_exc()[-1500:])
    run_correspondence(ctx, runner)


def replay(ctx, path):
    import random
    obj = json.load(open(path))
    rp = obj.get("replay", obj)
    runner = Runner(ctx)
    if rp.get("kind") == "solver":
        runner.solver_case(rp["spec"])
    elif rp.get("kind") == "distance":
        runner.distance_case(rp["spec"], random.Random(0), fixed=(rp.get("kwargs", {}), rp["fn"], rp["sources"]))
        run_correspondence(ctx, runner)
    else:
        runner.graph_case(rp["spec"], rp.get("kwargs", {}))
        run_correspondence(ctx, runner)
