"""C14 - options resolve call > user options > defaults (DESIGN.md 4/C14).

T-tie : Gen/OptDefaults.v regenerated from pipeflow_setup.py (default table + documented defaults).
H-tie : coq/C14/Model.v `resolve` vs the real init_options on every presence pattern (exhaustive
        per key and jointly for iter x stage limits x layers), compared inside Coq.
Monitors (search for a concrete failing input): documented default vs value in force, layers not
mutated, observable effect of iteration limits on a real pipeflow.
"""
import copy
import itertools
import os
import sys

sys.path.insert(0, os.path.dirname(os.path.dirname(os.path.abspath(__file__))))
from vlib import cstr, cz, cbool, clist  # noqa: E402
from translate import options as topt  # noqa: E402

CLAIM = {
    "text": "Unbounded theorems (any layers, any keys) about an executable Coq model of init_options: precedence, "
            "iter expansion, every coupling, unknown-key pass-through; documented defaults = code defaults decided "
            "by computation on tables regenerated from the source on every run. The model is tied to the code by "
            "an exhaustive correspondence over all presence patterns evaluated inside Coq; histories of set_user_pf_options "
            "calls (with reset) are covered by stored_options_follow_history / precedence_after_history and a second correspondence.",
    "note": "All ten theorems are closed under the global context (no axioms). Python truthiness of option values "
            "other than bool/int/str/None is modelled as true (the generator never feeds falsy ones into inspected keys).",
    "technique": "Coq proof over hand-written model + exhaustive model/implementation correspondence + generated tables",
    "design": "DESIGN.md 4/C14",
}
GEN = [("OptDefaults", lambda: topt.generate()[0])]

STAGE = ["max_iter_hyd", "max_iter_therm", "max_iter_bidirect"]


def cval(v):
    if isinstance(v, bool):
        return "VBool %s" % cbool(v)
    if isinstance(v, int):
        return "VInt %s" % cz(v)
    if isinstance(v, str):
        return "VStr %s" % cstr(v)
    if v is None:
        return "VNone"
    return "VTok %s" % cstr(repr(v))


def cdict(d):
    return clist(["(%s, %s)" % (cstr(k), cval(v)) for k, v in d.items()])


def small_net():
    import pandapipes as pp
    net = pp.create_empty_network(fluid="water")
    j = [pp.create_junction(net, pn_bar=5, tfluid_k=300) for _ in range(4)]
    pp.create_ext_grid(net, j[0], p_bar=5, t_k=300)
    for a, b in ((0, 1), (1, 2), (2, 3), (1, 3)):
        pp.create_pipe_from_parameters(net, j[a], j[b], length_km=0.4, inner_diameter_mm=80., k_mm=0.2)
    pp.create_sink(net, j[2], 0.9)
    pp.create_sink(net, j[3], 0.4)
    return net


def alt_values(key, default):
    """two values different from the default and from each other, of the default's kind"""
    if isinstance(default, bool):
        return [not default, default]          # second equals default on purpose (binding still visible)
    if isinstance(default, int):
        return [default + 3, default + 7]
    if isinstance(default, float):
        return [default * 2, default * 4]
    if isinstance(default, str):
        return {"friction_model": ["colebrook", "swamee-jain"], "nonlinear_method": ["automatic", "constant"],
                "mode": ["sequential", "all"]}.get(key, ["x_" + key, "y_" + key])
    return [17, "s"]


def gen_cases(ctx, code_defaults):
    """list of (numba_installed, user, kw, nontrivial)"""
    cases = []
    keys = list(code_defaults) + ["iter", "interactive_plotting", "t_start", "my_unknown_option", "fluid"]
    # (a) per key: all presence patterns in the two settable layers x two value assignments
    for key in keys:
        a1, a2 = alt_values(key, code_defaults.get(key, 5))
        for in_u, in_k in itertools.product([0, 1], [0, 1]):
            for swap in (0, 1):
                u = {key: (a1 if not swap else a2)} if in_u else {}
                k = {key: (a2 if not swap else a1)} if in_k else {}
                cases.append((True, u, k, bool(in_u or in_k)))
    n_per_key = len(cases)
    # (b) jointly: iter x three stage keys x two layers, each absent/present (2^8), iter=None variants
    for bits in itertools.product([0, 1], repeat=8):
        u, k = {}, {}
        if bits[0]:
            u["iter"] = 31
        if bits[1]:
            k["iter"] = 47
        for i, st in enumerate(STAGE):
            if bits[2 + i]:
                u[st] = 100 + i
            if bits[5 + i]:
                k[st] = 200 + i
        cases.append((True, u, k, True))
    for iu, ik in itertools.product([None, 3, "absent"], repeat=2):
        for st_u, st_k in itertools.product([0, 1], repeat=2):
            u = {} if iu == "absent" else {"iter": iu}
            k = {} if ik == "absent" else {"iter": ik}
            if st_u:
                u["max_iter_therm"] = 61
            if st_k:
                k["max_iter_hyd"] = 62
            cases.append((True, u, k, True))
    # (c) coupling reuse_internal_data / only_update_hydraulic_matrix: absent/True/False in each layer
    for uo, ur, ko, kr in itertools.product(["a", True, False], repeat=4):
        u, k = {}, {}
        if uo != "a":
            u["only_update_hydraulic_matrix"] = uo
        if ur != "a":
            u["reuse_internal_data"] = ur
        if ko != "a":
            k["only_update_hydraulic_matrix"] = ko
        if kr != "a":
            k["reuse_internal_data"] = kr
        cases.append((True, u, k, True))
    # (d) numba availability x use_numba patterns; deprecated mode
    for nb in (True, False):
        for uu, kk in itertools.product(["a", True, False], repeat=2):
            u = {} if uu == "a" else {"use_numba": uu}
            k = {} if kk == "a" else {"use_numba": kk}
            cases.append((nb, u, k, True))
    for mu, mk in itertools.product(["a", "all", "heat", "bidirectional"], repeat=2):
        u = {} if mu == "a" else {"mode": mu}
        k = {} if mk == "a" else {"mode": mk}
        cases.append((True, u, k, True))
    n_joint = len(cases) - n_per_key
    # (e) random subsets of all keys in both layers, nested / unknown values
    n_rand = 300 if ctx.quick else 6000
    rng = ctx.rng
    for _ in range(n_rand):
        u, k = {}, {}
        for layer in (u, k):
            for key in rng.sample(keys, rng.randint(0, 7)):
                a = alt_values(key, code_defaults.get(key, 5))
                layer[key] = rng.choice(a + ([None] if key == "iter" else []))
            if rng.random() < 0.3:
                layer["nested_" + str(rng.randint(0, 2))] = rng.choice([[1, [2, 3]], {"a": [1]}, (1, 2), 2.5])
        cases.append((rng.random() < 0.8, u, k, True))
    ctx.count("per_key_patterns", n_per_key)
    ctx.count("joint_patterns", n_joint)
    ctx.count("random_layer_pairs", n_rand)
    return cases


def run_impl(cases):
    """real init_options on each case -> observed _options dict (or exception text)"""
    import pandapipes  # noqa: F401
    mod = sys.modules["pandapipes.pf.pipeflow_setup"]
    net = small_net()
    out = []
    orig_nb = mod.numba_installed
    defaults_before = copy.deepcopy(mod.default_options)
    mut = []
    for idx, (nb, u, k, _) in enumerate(cases):
        mod.numba_installed = nb
        try:
            net.pop("user_pf_options", None)
            net.user_pf_options = {}
            if u:
                mod.set_user_pf_options(net, reset=True, **copy.deepcopy(u))
            stored_before = copy.deepcopy(dict(net.user_pf_options))
            kw = copy.deepcopy(k)
            kw_before = copy.deepcopy(kw)
            mod.init_options(net, **kw)
            obs = dict(net["_options"])
            # resolving never mutates the stored layers ...
            if dict(net.user_pf_options) != stored_before or kw != kw_before or \
                    mod.default_options != defaults_before:
                mut.append((idx, "layer changed by init_options"))
            # ... and the resolved dict shares no mutable object with them
            for key, val in obs.items():
                if isinstance(val, (list, dict)):
                    for layer in (net.user_pf_options, kw, mod.default_options):
                        if key in layer and layer[key] is val:
                            mut.append((idx, "resolved value of %r aliases a stored layer" % key))
            out.append(obs)
        except Exception as e:  # the model has no error path: any exception is a disagreement
            out.append({"__exception__": repr(e)})
        finally:
            mod.numba_installed = orig_nb
    return out, mut


def run(ctx):
    ctx.extra["rule"] = ("exhaustive presence patterns per option key in (user, call) layers x 2 value "
                         "assignments; jointly all 2^8 patterns of iter and the three stage limits in both "
                         "layers; 3^4 patterns of the reuse/only_update coupling; numba on/off; deprecated "
                         "mode; plus seeded random layer pairs. distinct = canonical JSON of (numba, user, "
                         "call); non-trivial = at least one layer binds a key")
    # --- gen (T-tie)
    try:
        text, code, docd = topt.generate()
    except Exception as e:
        ctx.broken("translator", "tools/translate/options.py", repr(e))
        return
    ctx.gen("OptDefaults", text)
    # --- build: theorems
    proved = ctx.prove("C14")
    # --- correspondence (H-tie), exhaustive
    cases = gen_cases(ctx, code)
    observed, mutations = run_impl(cases)
    for (nb, u, k, nt), obs in zip(cases, observed):
        ctx.case({"numba_installed": nb, "user": u, "call": k}, nt)
    chunks, trip_all, size = [], [], 400
    bad_examples = []
    for s in range(0, len(cases), size):
        body = []
        for (nb, u, k, _), obs in zip(cases[s:s + size], observed[s:s + size]):
            body.append("{| c_numba := %s; c_fluid := VStr \"water\"; c_user := %s; c_kw := %s; c_observed := %s |}"
                        % (cbool(nb), cdict(u), cdict(k), cdict(obs)))
        txt = ("From Coq Require Import String List ZArith.\nFrom PP Require Import Base.Assoc C14.Model Gen.OptDefaults.\n"
               "Import ListNotations.\nOpen Scope string_scope.\nDefinition cs : list case := [\n%s\n].\n"
               "Eval vm_compute in (summary code_defaults cs).\n" % ";\n".join(body))
        trip, out = ctx.coq_counts(txt, "cases_%d" % (s // size))
        if not trip:
            ctx.broken("correspondence", "C14.resolve vs init_options (coqc failed)", out[-800:])
            break
        n, m, first = trip[0]
        trip_all.append((n, m))
        if m:
            i = s + first
            bad_examples.append(i)
    n_tot = sum(n for n, _ in trip_all)
    n_mis = sum(m for _, m in trip_all)
    ctx.corr("C14.Model.resolve == pandapipes.pf.pipeflow_setup.init_options (exhaustive patterns)", n_tot, n_mis)
    ctx.extra["exhaustive"] = True
    ctx.extra["exhaustive_note"] = ("presence patterns are enumerated completely (per key and the joint spaces "
                                    "named in rule); the random layer pairs are a sample")
    for i in bad_examples[:3]:
        nb, u, k, _ = cases[i]
        obs = observed[i]
        sig, what = classify_disagreement(code, nb, u, k, obs)
        if sig is None:
            ctx.broken("correspondence", "C14.resolve vs init_options",
                       "model and implementation differ on user=%r call=%r -> %r, but the observed result "
                       "still satisfies precedence/iter/couplings as stated" % (u, k, obs))
        else:
            ctx.violation(sig, what, {"numba_installed": nb, "user_pf_options": u, "call_kwargs": k,
                                      "observed_options": obs, "how": "net=small_net(); set_user_pf_options(net, **user); "
                                                                       "init_options(net, **call)"})
    history_correspondence(ctx, code)
    for idx, why in mutations[:3]:
        nb, u, k, _ = cases[idx]
        ctx.violation({"clause": "layers_not_mutated", "why": why}, why,
                      {"user_pf_options": u, "call_kwargs": k})
    # --- monitors: documented default = value in force
    monitor_doc_defaults(ctx, code, docd)
    monitor_observable(ctx)
    if not proved and not ctx.violations:
        pass  # finish() reports no-failing-input-found


def history_correspondence(ctx, code):
    """histories of set_user_pf_options(reset, **kw) calls followed by init_options(**call): the stored layer and the
    resolved options vs C14.Model.set_user_seq / resolve, compared inside Coq"""
    import pandapipes  # noqa: F401
    mod = sys.modules["pandapipes.pf.pipeflow_setup"]
    rng = ctx.rng
    keys = list(code) + ["iter", "my_unknown_option"]
    n = 150 if ctx.quick else 3000
    body, hist = [], []
    for _ in range(n):
        net = small_net()
        net.pop("user_pf_options", None)
        ops = []
        for _ in range(rng.randint(1, 4)):
            kw = {}
            for key in rng.sample(keys, rng.randint(0, 4)):
                kw[key] = rng.choice(alt_values(key, code.get(key, 5)) + ([None] if key == "iter" else []))
            reset = rng.random() < 0.3
            mod.set_user_pf_options(net, reset=reset, **copy.deepcopy(kw))
            ops.append((reset, kw))
        call = {}
        for key in rng.sample(keys, rng.randint(0, 3)):
            call[key] = rng.choice(alt_values(key, code.get(key, 5)))
        stored = dict(net.user_pf_options)
        try:
            mod.init_options(net, **copy.deepcopy(call))
            obs = dict(net["_options"])
        except Exception as e:  # noqa: BLE001
            obs = {"__exception__": repr(e)}
        hist.append((ops, call, stored, obs))
        ctx.case({"history": [[r, k] for r, k in ops], "call": call}, len(ops) > 1,
                 key="hist:" + repr((ops, call)))
        body.append("{| h_ops := %s; h_kw := %s; h_stored := %s; h_observed := %s |}" % (
            clist(["(%s, %s)" % (cbool(r), cdict(k)) for r, k in ops]), cdict(call), cdict(stored), cdict(obs)))
    txt = ("From Coq Require Import String List ZArith.\nFrom PP Require Import Base.Assoc C14.Model Gen.OptDefaults.\n"
           "Import ListNotations.\nOpen Scope string_scope.\nDefinition hs : list hcase := [\n%s\n].\n"
           "Eval vm_compute in (hsummary code_defaults hs).\n" % ";\n".join(body))
    trip, out = ctx.coq_counts(txt, "history_cases")
    if not trip:
        ctx.broken("correspondence", "C14.set_user_seq / resolve vs set_user_pf_options histories (coqc failed)", out[-800:])
        return
    nn, mm, first = trip[0]
    ctx.corr("C14.Model.set_user_seq + resolve == set_user_pf_options history + init_options", nn, mm)
    ctx.count("set_user_histories", nn)
    if mm:
        ops, call, stored, obs = hist[first]
        ctx.violation({"clause": "set_user_history"},
                      "after the calls %r the stored user options are %r and init_options(**%r) gives %r; the documented "
                      "rule (latest binding since the latest reset, then call > user > default) gives something else"
                      % (ops, stored, call, {k: obs.get(k) for k in list(call) + [kk for _, kw in ops for kk in kw]}),
                      {"set_user_pf_options_calls": ops, "call_kwargs": call, "stored": stored})


def expected_by_property(code, nb, u, k):
    """The property statement itself (not the Coq model) as a Python oracle."""
    def layer_eff(l):
        l = dict(l)
        n = l.get("iter", None)
        if l and n is not None:
            for st in STAGE:
                l.setdefault(st, n)
        return l
    ue, ke = layer_eff(u), layer_eff(k)
    exp = {}
    for key in set(code) | set(ue) | set(ke):
        exp[key] = ke[key] if key in ke else ue[key] if key in ue else code[key]
    for key in ("interactive_plotting", "t_start"):
        exp.pop(key, None)
    if not exp["only_update_hydraulic_matrix"]:
        exp["reuse_internal_data"] = False
    if not nb:
        exp["use_numba"] = False
    exp["fluid"] = "water"
    if exp["mode"] == "all":
        exp["mode"] = "sequential"
    return exp


def classify_disagreement(code, nb, u, k, obs):
    if "__exception__" in obs:
        return {"clause": "total", "exception": obs["__exception__"][:60]}, "init_options raised " + obs["__exception__"]
    exp = expected_by_property(code, nb, u, k)
    for key in sorted(set(exp) | set(obs)):
        if key not in obs or key not in exp or obs[key] != exp[key] or type(obs[key]) != type(exp[key]):
            clause = "iter_expansion" if key in STAGE else "coupling" if key in (
                "reuse_internal_data", "use_numba", "fluid", "mode", "interactive_plotting", "t_start") else "precedence"
            return ({"clause": clause, "key": key},
                    "option %r resolves to %r, the documented rule gives %r (user=%r, call=%r)"
                    % (key, obs.get(key, "<absent>"), exp.get(key, "<absent>"), u, k))
    return None, None


def monitor_doc_defaults(ctx, code, docd):
    import pandapipes  # noqa: F401
    mod = sys.modules["pandapipes.pf.pipeflow_setup"]
    net = small_net()
    net.user_pf_options = {}
    mod.init_options(net)
    for name, typ, val in docd:
        inforce = net["_options"].get(name, "<absent>")
        ok = (inforce == val) and not (isinstance(val, bool) ^ isinstance(inforce, bool))
        ctx.case({"documented_default": name, "doc": val, "in_force": inforce}, True, key="doc:" + name)
        if not ok:
            ctx.violation({"clause": "defaults_match_documentation", "key": name},
                          "option %r bound in no layer: value in force %r, documented default %r "
                          "(init_options docstring, rendered by doc/source/pipeflow/options.rst)" % (name, inforce, val),
                          {"how": "net=small_net(); init_options(net); net._options[%r]" % name,
                           "in_force": inforce, "documented": val})


def monitor_observable(ctx):
    """the resolved limits are the ones the solver obeys (one net per stage option)"""
    import pandapipes as pp
    from pandapipes.pf.pipeflow_setup import PipeflowNotConverged
    net = small_net()
    results = {}
    for name, user, kw in [("call_iter_beats_user_stage", {"max_iter_hyd": 1}, {"iter": 30}),
                           ("user_stage_applies", {"max_iter_hyd": 1}, {}),
                           ("call_stage_beats_call_iter", {}, {"iter": 30, "max_iter_hyd": 1}),
                           ("user_iter_applies", {"iter": 1}, {})]:
        pp.set_user_pf_options(net, reset=True, **user)
        try:
            pp.pipeflow(net, **kw)
            results[name] = "converged"
        except PipeflowNotConverged:
            results[name] = "not_converged"
    exp = {"call_iter_beats_user_stage": "converged", "user_stage_applies": "not_converged",
           "call_stage_beats_call_iter": "not_converged", "user_iter_applies": "not_converged"}
    for name in exp:
        ctx.case({"observable": name, "result": results[name]}, True, key="obs:" + name)
        if results[name] != exp[name]:
            ctx.violation({"clause": "observable_iteration_limit", "case": name},
                          "iteration limit in force differs from the resolved one: %s -> %s (expected %s)"
                          % (name, results[name], exp[name]), {"case": name})
