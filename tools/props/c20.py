"""C20 - multi-energy coupling conserves energy and equals the decoupled calculation
(DESIGN.md 4/C20, design_notes/C20.md).

T-tie : Gen/KConv.v regenerated from multinet_control.py (conversion factors, control_step /
        write_to_net value, wiring, calorific key) - tools/translate/multinet.py, fail-closed.
H-tie : coq/C20/Model.v (_relevant_nets, _evaluate_multinet, controller order) against the real
        prepare_run_ctrl / _evaluate_multinet driven with scripted run functions: exact, in Coq.
Monitors: real multinets (power + gas, gas + gas, power + gas + gas) through run_control and
        run_timeseries: written cells vs the generated formula (KConvQ, 1e-12 relative, in Coq), member
        results bit-identical with stand-alone pipeflow / runpp, divergence injected into one member.
"""
import copy
import os
import sys
from fractions import Fraction as Fr

sys.path.insert(0, os.path.dirname(os.path.dirname(os.path.abspath(__file__))))
from vlib import cq, cz, cbool, clist  # noqa: E402
from translate import multinet as tm  # noqa: E402

CLAIM = {
    "text": "18 theorems. Over R on formulas regenerated from multinet_control.py each run: the value every coupling "
            "controller writes (P2G, G2P gas-led and power-led, gas-to-gas) for scalar and vector indices alike, the "
            "calorific value is the fluid's hhv and the cells read / written are the documented ones, P2G then G2P returns "
            "P*eta1*eta2, per-controller and whole-run energy balance for ANY number of controllers of any kinds (power out "
            "= efficiency-weighted power in; none created for eta <= 1; lossless for eta = 1), gas-to-gas conserves eta * "
            "energy, power-led is the inverse of gas-led. Unbounded over an executable model of _relevant_nets / "
            "_evaluate_multinet / net_initialization_multinet (any number of nets, controllers, levels): converged = all "
            "flags, a net is re-evaluated iff it owns a controller of the level or a multinet controller of the level names "
            "it, converged implies every affected net's fresh flag, one diverged affected net makes the multinet not "
            "converged, initial-run flag = conjunction; a converged level composes with the energy balance. "
            "after_run_is_standalone for pandapipes members as an instance of the C12 history model, and the coupled time "
            "series step = stand-alone calculation as an instance of the C13 step model for any list of chain-free coupling "
            "controllers. Tie: exact in-Coq correspondence with the real prepare_run_ctrl / _evaluate_multinet / "
            "net_initialization_multinet driven by scripted run functions.",
    "note": "Theorems over R use the standard-library real axioms (ClassicalDedekindReals.sig_forall_dec, sig_not_dec, "
            "FunctionalExtensionality.functional_extensionality_dep as Print Assumptions lists them; coqchk on the library closure "
            "of Props / PropsRun additionally lists Classical_Prop.classic; Standalone: none); bookkeeping, Standalone and the C13 instance's model "
            "part are axiom-free apart from those reals. Assumed (oracles): pandapower control_implementation calls the "
            "evaluate function once per control iteration of a level and raises when ctrl_variables['converged'] is false; "
            "_evaluate_net sets the flag from net['converged']; get_controller_order sorts by level / order; ConstControl "
            "and run_timeseries apply the profile row of the step; runpp is a deterministic function of the pandapower "
            "net's element tables and options that does not modify them (power members are NOT in the C12 model: their "
            "stand-alone equality is a bit-identical differential only); no coupling chain inside a step and profiles drive "
            "no written cell (guards no_chain / profiles_free of the time-series theorem - the monitor builds such "
            "multinets). Monitors only: written cells vs spec_* at 1e-12 relative (hhv is decimal), member results "
            "bit-identical with stand-alone runs (gas, heat incl. a harness-written power-to-heat coupling, power), aborted "
            "runs followed by further runs, divergence injection. Standalone.v / PropsRun.v import PP.C12 / PP.C13.",
    "technique": "Coq proof over generated kernels + hand model tied by exact correspondence + bit-identical differential",
    "design": "DESIGN.md 4/C20 + design_notes/C20.md",
}
GEN = [("KConv", tm.generate)]

HEAD = ("From Coq Require Import String ZArith List Bool QArith Qabs.\nFrom PP Require Import C20.Model Gen.KConv.\n"
        "Import ListNotations.\n")


def q(x):
    return cq(Fr(x)).replace("%Q", "")


# =========================================================================== A. bookkeeping correspondence
def stub_class():
    from pandapower.control.basic_controller import Controller

    class Stub(Controller):
        def __init__(self, container, names=None, **kw):
            super().__init__(container, **kw)
            self.names = names
            if names is not None:
                self.get_all_net_names = lambda: list(self.names)

        def is_converged(self, c):
            return True
    return Stub


def cctrl(c):
    return ("{| c_id := %s; c_owner := %s; c_names := %s; c_level := %s; c_order := %s; c_in_service := %s |}"
            % (cz(c["id"]), "OMulti" if c["owner"] is None else "(ONet %s)" % cz(c["owner"]),
               clist([cz(n) for n in c["names"]]), cz(c["level"]), cz(c["order"]), cbool(c["in_service"])))


def cflags(d):
    return clist(["(%s, %s)" % (cz(k), cbool(v)) for k, v in d])


def bookkeeping_cases(ctx, n_multinets):
    import pandapipes
    import pandapipes.multinet.control.run_control_multinet as rcm
    from pandapipes.multinet.create_multinet import create_empty_multinet, add_nets_to_multinet
    rng = ctx.rng
    Stub = stub_class()
    eval_cases, order_cases, descr, init_cases = [], [], [], []
    for _ in range(n_multinets):
        k = rng.randint(1, 5)
        mn = create_empty_multinet("m")
        names = ["n%d" % i for i in range(k)]
        nets = {}
        for i, nm in enumerate(names):
            net = pandapipes.create_empty_network(nm, fluid=rng.choice(["lgas", "hgas", "water"]))
            for _j in range(i + 1):
                pandapipes.create_junction(net, 1, 300)           # member nets differ in content
            nets[nm] = net
        add_nets_to_multinet(mn, **nets)
        ctrls = []
        for cid in range(rng.randint(0, 6)):
            level, order = rng.choice([0, 0, 1, 2, 5]), rng.choice([0, 1, 1, 3])
            ins = rng.random() < 0.85
            if rng.random() < 0.5:
                touched = rng.sample(range(k), rng.randint(1, min(k, 3)))
                obj = Stub(mn, names=[names[t] for t in touched], order=order, level=level, in_service=ins)
                ctrls.append({"id": cid, "owner": None, "names": touched, "level": level, "order": order,
                              "in_service": ins, "obj": obj})
            else:
                o = rng.randrange(k)
                obj = Stub(nets[names[o]], order=order, level=level, in_service=ins)
                ctrls.append({"id": cid, "owner": o, "names": [], "level": level, "order": order,
                              "in_service": ins, "obj": obj})
        by_obj = {id(c["obj"]): c for c in ctrls}
        try:
            cv = rcm.prepare_run_ctrl(mn)
        except Exception as e:
            multi_rows = [c for c in ctrls if c["owner"] is None]
            d = {"nets": k, "controllers": [{x: c[x] for x in ("id", "owner", "names", "level", "order", "in_service")}
                                            for c in ctrls], "exception": repr(e)[:200]}
            if isinstance(e, ValueError) and not multi_rows and any(c["in_service"] for c in ctrls):
                ctx.violation({"fn": "get_controller_order_multinet", "needs": "no multinet-level controller",
                               "raises": "ValueError"},
                              "prepare_run_ctrl / run_control raises %r for a multinet whose controllers all live in "
                              "member nets (multinet.controller is empty and lacks the 'name' column)" % (e,), d)
            else:
                ctx.violation({"fn": "prepare_run_ctrl", "raises": type(e).__name__},
                              "prepare_run_ctrl raises %r on a well-formed multinet" % (e,), d)
            continue
        # net_initialization_multinet with scripted initial runs (OPF_converged exists on pandapower nets only)
        for _rep in range(2):
            iflags = [rng.random() < 0.75 for _i in range(k)]
            for i, nm in enumerate(names):
                def mk0(i=i):
                    def run(net, **kw):
                        net["converged"] = iflags[i]
                    return run
                cv["nets"][nm]["run"] = mk0()
                cv["nets"][nm]["initial_run"] = True
                nets[nm]["OPF_converged"] = False
            try:
                out0 = rcm.net_initialization_multinet(mn, cv)
                init_cases.append(("(%s, %s)" % (clist([cbool(f) for f in iflags]), cbool(bool(out0["converged"]))),
                                   {"initial_run_flags": iflags, "observed_converged": bool(out0["converged"])}))
            except Exception as e:
                ctx.broken("correspondence", "net_initialization_multinet raised", repr(e))
        active = [c for c in ctrls if c["in_service"]]
        levels = [int(l) for l in cv["level"]] if active else []
        obs_order = [[by_obj[id(c)]["id"] for c, _ in lo] for lo in cv["controller_order"]] if active else []
        order_cases.append("{| o_ctrls := %s; o_obs_levels := %s; o_obs_order := %s |}"
                           % (clist([cctrl(c) for c in ctrls]), clist([cz(l) for l in levels]),
                              clist([clist([cz(i) for i in lo]) for lo in obs_order])))
        ctx.count("bookkeeping_nets_%d" % k)
        for lo in (cv["controller_order"] if active else []):
            if not len(lo):
                continue          # a level whose controllers are all out of service is never evaluated
            for _rep in range(2):
                run_flags = {i: rng.random() < 0.7 for i in range(k)}
                old_flags = {i: rng.random() < 0.8 for i in range(k)}
                calls = []
                for i, nm in enumerate(names):
                    def mk(i=i):
                        def run(net, **kw):
                            calls.append(i)
                            net["converged"] = run_flags[i]
                        return run
                    cv["nets"][nm]["run"] = mk()
                    cv["nets"][nm]["converged"] = old_flags[i]
                    nets[nm]["converged"] = old_flags[i]
                try:
                    out = rcm._evaluate_multinet(mn, lo, cv)
                    obs_conv = bool(out["converged"])
                    obs_flags = [(i, bool(out["nets"][nm]["converged"])) for i, nm in enumerate(names)]
                except Exception as e:
                    ctx.broken("correspondence", "_evaluate_multinet raised", repr(e))
                    continue
                lo_ctrls = [by_obj[id(c)] for c, _ in lo]
                eval_cases.append("{| e_nets := %s; e_levelorder := %s; e_run := %s; e_old := %s; e_obs_evaluated := %s; "
                                  "e_obs_flags := %s; e_obs_converged := %s |}"
                                  % (clist([cz(i) for i in range(k)]), clist([cctrl(c) for c in lo_ctrls]),
                                     cflags(sorted(run_flags.items())), cflags(sorted(old_flags.items())),
                                     clist([cz(i) for i in calls]), cflags(obs_flags), cbool(obs_conv)))
                d = {"nets": k, "levelorder": [{x: c[x] for x in ("id", "owner", "names", "level", "order")} for c in lo_ctrls],
                     "run_flags": run_flags, "old_flags": old_flags, "observed_evaluated": list(calls),
                     "observed_flags": obs_flags, "observed_converged": obs_conv}
                descr.append(d)
                ctx.case(d, k > 1 and len(lo_ctrls) > 0)
    return eval_cases, order_cases, descr, init_cases


def expected_eval(d):
    """the property statement itself as a Python oracle (for classifying a disagreement)"""
    rel = set()
    for c in d["levelorder"]:
        if c["owner"] is None:
            rel |= set(c["names"])
        else:
            rel.add(c["owner"])
    flags = {i: (d["run_flags"][i] if i in rel else d["old_flags"][i]) for i in range(d["nets"])}
    return sorted(rel), flags, all(flags.values())


def run_bookkeeping(ctx):
    eval_cases, order_cases, descr, init_cases = bookkeeping_cases(ctx, 60 if ctx.quick else 1500)
    init_descr = [d for _, d in init_cases]
    for name, cases, typ, okf in (("evaluate_multinet", eval_cases, "eval_case", "eval_case_ok"),
                                  ("controller_order", order_cases, "order_case", "order_case_ok"),
                                  ("net_initialization", [c for c, _ in init_cases], "(list bool * bool)", "init_case_ok")):
        tot, mis, bad = 0, 0, []
        for s in range(0, len(cases), 300):
            part = cases[s:s + 300]
            txt = HEAD + "Definition cs : list %s := [\n%s\n].\nEval vm_compute in (summary (map %s cs)).\n" \
                         "Eval vm_compute in (map %s cs).\n" % (typ, ";\n".join(part), okf, okf)
            trip, out = ctx.coq_counts(txt, "%s_%d" % (name, s // 300))
            if not trip:
                ctx.broken("correspondence", "C20.Model %s vs run_control_multinet (coqc failed)" % name, out[-1000:])
                break
            n, m, first = trip[0]
            tot += n
            mis += m
            if m:
                import re
                flags = re.findall(r"\b(true|false)\b", out.split("=", 2)[-1])
                bad += [s + i for i, f in enumerate(flags) if f == "false"] if len(flags) == len(part) else [s + first]
        ctx.corr("C20.Model.%s == pandapipes.multinet.control.run_control_multinet (scripted run functions)" % name, tot, mis)
        if name == "evaluate_multinet":
            for i in bad[:3]:
                d = descr[i]
                rel, flags, conv = expected_eval(d)
                if d["observed_converged"] != conv:
                    ctx.violation({"fn": "_evaluate_multinet", "clause": "multinet_converged_iff_all"},
                                  "multinet reported converged=%s although the member flags after the level are %s "
                                  "(nets re-run: %s)" % (d["observed_converged"], flags, d["observed_evaluated"]), d)
                elif sorted(d["observed_evaluated"]) != rel:
                    ctx.violation({"fn": "_relevant_nets", "clause": "relevant_nets_spec"},
                                  "nets re-evaluated in the level: %s; nets owning / named by a controller of the level: %s"
                                  % (d["observed_evaluated"], rel), d)
                else:
                    ctx.violation({"fn": "_evaluate_multinet", "clause": "member_flags"},
                                  "member flags %s differ from %s" % (d["observed_flags"], flags), d)
        elif name == "net_initialization":
            for i in bad[:2]:
                d = init_descr[i]
                ctx.violation({"fn": "net_initialization_multinet", "clause": "init_converged_is_all"},
                              "after the initial runs the multinet is flagged converged=%s although the members' flags are %s"
                              % (d["observed_converged"], d["initial_run_flags"]), d)
        elif bad:
            ctx.broken("correspondence", "controller order differs from the model", "case %d: %s" % (bad[0], order_cases[bad[0]][:600]))


# =========================================================================== B. real multinets
GASES = ["hgas", "lgas", "hydrogen", "methane"]


def dy(rng, lo, hi, den):
    return rng.randint(int(lo * den), int(hi * den)) / den


def build_gas(rng, fluid, name, n_sink, n_source):
    import pandapipes
    net = pandapipes.create_empty_network(name, fluid=fluid)
    n = rng.randint(3, 6)
    js = [pandapipes.create_junction(net, 30, 293.15 + i) for i in range(n)]
    pandapipes.create_ext_grid(net, js[0], 30, 293.15)
    for a, b in zip(js, js[1:]):
        pandapipes.create_pipe_from_parameters(net, a, b, dy(rng, 0.5, 3, 4), 300., k_mm=0.1)
    if n > 3 and rng.random() < 0.5:
        pandapipes.create_pipe_from_parameters(net, js[0], js[-1], 2.0, 250., k_mm=0.1)
    for i in range(n_sink):
        pandapipes.create_sink(net, rng.choice(js[1:]), dy(rng, 0.05, 0.5, 64), scaling=rng.choice([1.0, 0.5, 1.5, 0.75]))
    for i in range(n_source):
        pandapipes.create_source(net, rng.choice(js[1:]), dy(rng, 0, 0.1, 64), scaling=1.0)
    return net


def build_power(rng, name, n_load, n_sgen, n_gen):
    import pandapower as pp
    net = pp.create_empty_network(name)
    n = rng.randint(3, 5)
    bs = [pp.create_bus(net, 110.) for _ in range(n)]
    pp.create_ext_grid(net, bs[0], 1.02)
    for a, b in zip(bs, bs[1:]):
        pp.create_line_from_parameters(net, a, b, dy(rng, 1, 8, 4), r_ohm_per_km=0.06, x_ohm_per_km=0.3,
                                       c_nf_per_km=10., max_i_ka=1.0)
    for i in range(n_load):
        pp.create_load(net, rng.choice(bs[1:]), p_mw=dy(rng, 1, 20, 16), q_mvar=dy(rng, 0, 3, 16),
                       scaling=rng.choice([1.0, 0.5, 1.25, 0.75]))
    for i in range(n_sgen):
        pp.create_sgen(net, rng.choice(bs[1:]), p_mw=dy(rng, 0, 5, 16), scaling=rng.choice([1.0, 0.5, 1.25]))
    for i in range(n_gen):
        pp.create_gen(net, bs[1 + i % (n - 1)], p_mw=dy(rng, 0, 5, 16), vm_pu=1.01, scaling=rng.choice([1.0, 0.5]))
    return net


def build_heat(rng, name):
    """district-heating member (water, hydraulics + heat transfer) with its own sink set by a net-owned controller"""
    import pandapipes
    net = pandapipes.create_empty_network(name, fluid="water")
    n = rng.randint(3, 5)
    js = [pandapipes.create_junction(net, 6, 340.) for _ in range(n)]
    pandapipes.create_ext_grid(net, js[0], p_bar=6, t_k=350. + rng.randint(0, 20), type="pt")
    for a, b in zip(js, js[1:]):
        pandapipes.create_pipe_from_parameters(net, a, b, dy(rng, 0.25, 1.5, 4), 150., k_mm=0.1, sections=rng.randint(1, 3),
                                               u_w_per_m2k=rng.choice([1.0, 5.0, 10.0]), text_k=283.15)
    for j in js[1:]:
        pandapipes.create_sink(net, j, dy(rng, 0.5, 2, 16))
    # a heat exchanger in front of an extra consumer: its heat flow is what a power-to-heat coupling sets
    jx = pandapipes.create_junction(net, 6, 340.)
    pandapipes.create_heat_exchanger(net, js[-1], jx, qext_w=-2e4, inner_diameter_mm=150.)
    pandapipes.create_sink(net, jx, dy(rng, 0.5, 2, 16))
    pandapipes.set_user_pf_options(net, mode=rng.choice(["sequential", "bidirectional"]), use_numba=False)
    return net


def p2h_class():
    from pandapower.control.basic_controller import Controller

    class P2H(Controller):
        """user-written thermal coupling owned by the multinet (pandapipes ships none): electric boiler,
        heat_exchanger.qext_w = - p_mw * scaling * 1e6 * efficiency (heat fed into the water)"""
        def __init__(self, multinet, idx_load, idx_hex, efficiency, **kw):
            super().__init__(multinet, **kw)
            self.idx_load, self.idx_hex, self.efficiency, self.applied = idx_load, idx_hex, efficiency, False

        def get_all_net_names(self):
            return ["power", "heat"]

        def initialize_control(self, multinet):
            self.applied = False

        def control_step(self, multinet):
            load = multinet["nets"]["power"].load
            multinet["nets"]["heat"].heat_exchanger.at[self.idx_hex, "qext_w"] = \
                -load.at[self.idx_load, "p_mw"] * load.at[self.idx_load, "scaling"] * 1e6 * self.efficiency
            self.applied = True

        def is_converged(self, multinet):
            return self.applied
    return P2H


def set_value_class():
    from pandapower.control.basic_controller import Controller

    class SetValue(Controller):
        """a plain user controller owned by one member net: writes one cell once"""
        def __init__(self, net, table, column, idx, value, **kw):
            super().__init__(net, **kw)
            self.table, self.column, self.idx, self.value, self.applied = table, column, idx, value, False

        def initialize_control(self, net):
            self.applied = False

        def control_step(self, net):
            net[self.table].at[self.idx, self.column] = self.value
            self.applied = True

        def is_converged(self, net):
            return self.applied
    return SetValue


def pick(rng, pool, vector):
    """element index: python int, numpy int, or a list / ndarray of distinct indices"""
    import numpy as np
    if not vector:
        i = pool.pop(rng.randrange(len(pool)))
        return rng.choice([int(i), np.int64(i)]), [i]
    m = rng.randint(1, min(3, len(pool)))
    idx = [pool.pop(rng.randrange(len(pool))) for _ in range(m)]
    return rng.choice([list(idx), np.array(idx)]), idx


def scenario(ctx, kind):
    """-> (multinet, nets dict, list of coupling descriptions)"""
    from pandapipes.multinet.create_multinet import create_empty_multinet, add_nets_to_multinet
    from pandapipes.multinet.control.controller.multinet_control import P2GControlMultiEnergy, \
        G2PControlMultiEnergy, GasToGasConversion
    rng = ctx.rng
    mn = create_empty_multinet("mn_" + kind)
    nets, cps = {}, []
    f1, f2 = rng.sample(GASES, 2)
    if kind in ("power_gas", "all"):
        nets["power"] = build_power(rng, "el", 5, 4, 2)
    nets["gas"] = build_gas(rng, f1, "g_" + f1, 7, 7)
    if kind in ("gas_gas", "all"):
        nets["gas2"] = build_gas(rng, f2, "g_" + f2, 4, 6)
    heat_set = None
    if kind == "all" or rng.random() < 0.3:
        nets["heat"] = build_heat(rng, "dh")
    for n_, net_ in nets.items():
        if n_ == "power":
            __import__("pandapower").set_user_pf_options(net_, numba=False)
        else:
            __import__("pandapipes").set_user_pf_options(net_, use_numba=False)
    add_nets_to_multinet(mn, **nets)
    pools = {(n, t): list(nets[n][t].index) for n in nets if n != "heat"
             for t in (("load", "sgen", "gen") if n == "power" else ("sink", "source"))}
    levels = rng.choice([[0, 0, 0, 0], [0, 1, 2, 3], [3, 1, 0, 1], [2, 2, 5, 5]])
    orders = rng.sample(range(6), 4)
    ini = rng.random() < 0.7
    k = 0
    if "power" in nets:
        for _ in range(rng.randint(1, 2)):
            vec = rng.random() < 0.5
            ip, lp = pick(rng, pools[("power", "load")], vec)
            if vec:
                ig = [pools[("gas", "source")].pop(0) for _ in lp]
                igo = rng.choice([list(ig), __import__("numpy").array(ig)])
            else:
                igo, ig = pick(rng, pools[("gas", "source")], False)
            eta = dy(rng, 0.25, 1, 16)
            P2GControlMultiEnergy(mn, ip, igo, efficiency=eta, name_power_net="power", name_gas_net="gas",
                                  order=orders[k % 4], level=levels[k % 4], initial_run=ini)
            cps.append({"kind": "p2g", "coq": "p2g_written", "eta": eta, "vector": vec, "hhv": ["gas"],
                        "read": ("power", "load", lp), "write": ("gas", "source", ig)})
            k += 1
        for _ in range(rng.randint(1, 2)):
            vec = rng.random() < 0.5
            et = rng.choice([t for t in ("sgen", "gen") if len(pools[("power", t)]) > 0])
            led = rng.random() < 0.4
            ie, le = pick(rng, pools[("power", et)], vec and len(pools[("power", et)]) > 1)
            vec = len(le) > 1 or not isinstance(ie, (int, __import__("numpy").integer))
            if vec:
                ig = [pools[("gas", "sink")].pop(0) for _ in le]
                igo = list(ig)
            else:
                igo, ig = pick(rng, pools[("gas", "sink")], False)
            eta = dy(rng, 0.25, 1, 16)
            G2PControlMultiEnergy(mn, ie, igo, efficiency=eta, name_power_net="power", name_gas_net="gas",
                                  element_type_power=et, calc_gas_from_power=led,
                                  order=orders[k % 4], level=levels[k % 4], initial_run=ini)
            if led:
                cps.append({"kind": "g2p_power_led", "coq": "g2p_power_led_written", "eta": eta, "vector": vec, "hhv": ["gas"],
                            "read": ("power", et, le), "write": ("gas", "sink", ig)})
            else:
                cps.append({"kind": "g2p", "coq": "g2p_written", "eta": eta, "vector": vec, "hhv": ["gas"],
                            "read": ("gas", "sink", ig), "write": ("power", et, le)})
            k += 1
    if "gas2" in nets:
        for _ in range(rng.randint(1, 2)):
            vec = rng.random() < 0.5
            i1, l1 = pick(rng, pools[("gas", "sink")], vec)
            if vec:
                l2 = [pools[("gas2", "source")].pop(0) for _ in l1]
                i2 = list(l2)
            else:
                i2, l2 = pick(rng, pools[("gas2", "source")], False)
            eta = dy(rng, 0.25, 1, 16)
            GasToGasConversion(mn, i1, i2, efficiency=eta, name_gas_net_from="gas", name_gas_net_to="gas2",
                               order=orders[k % 4], level=levels[k % 4], initial_run=ini)
            cps.append({"kind": "g2g", "coq": "g2g_written", "eta": eta, "vector": vec, "hhv": ["gas", "gas2"],
                        "read": ("gas", "sink", l1), "write": ("gas2", "source", l2)})
            k += 1
    if "heat" in nets:
        heat_set = (int(nets["heat"].sink.index[-1]), dy(rng, 0.5, 3, 16))
        set_value_class()(nets["heat"], "sink", "mdot_kg_per_s", heat_set[0], heat_set[1],
                          order=rng.choice(orders), level=rng.choice(levels), initial_run=ini)
    p2h = None
    if "heat" in nets and "power" in nets and pools[("power", "load")]:
        li = pools[("power", "load")].pop(0)
        p2h = (int(li), rng.randint(1, 4) / 256)       # a small electric boiler: ~1 % of the load becomes heat
        p2h_class()(mn, p2h[0], 0, p2h[1], order=rng.choice(orders), level=rng.choice(levels), initial_run=ini)
    return mn, nets, cps, {"kind": kind, "fluids": [f1, f2], "levels": levels, "orders": orders, "initial_run": ini,
                           "heat_member": heat_set, "power_to_heat": p2h}


VALUE_COL = {"load": "p_mw", "sgen": "p_mw", "gen": "p_mw", "sink": "mdot_kg_per_s", "source": "mdot_kg_per_s"}


def hhv_of(net):
    import numpy as np
    return float(np.asarray(net.fluid.get_property("hhv")).ravel()[0])


def written_items(nets, cps, desc):
    """(coq expected expr, observed Fraction, description) per coupled element, from the final tables"""
    items = []
    for cp in cps:
        rn, rt, ridx = cp["read"]
        wn, wt, widx = cp["write"]
        hh = [hhv_of(nets[n]) for n in cp["hhv"]]
        for ri, wi in zip(ridx, widx):
            val = float(nets[rn][rt].at[ri, VALUE_COL[rt]])
            sc = float(nets[rn][rt].at[ri, "scaling"])
            obs = float(nets[wn][wt].at[wi, VALUE_COL[wt]])
            args = [val, sc] + hh + [cp["eta"]]
            items.append(("(spec_%s %s, KConvQ.%s %s)" % (cp["kind"], " ".join(q(a) for a in args), cp["coq"],
                                                          " ".join(q(a) for a in args)), obs,
                          dict(desc, controller=cp["kind"], vector_index=cp["vector"], read="%s.%s[%s]" % (rn, rt, ri),
                               write="%s.%s[%s]" % (wn, wt, wi), value=val, scaling=sc, hhv=hh, efficiency=cp["eta"],
                               written=obs)))
    return items


def expected_by_property(d):
    """the property text as a Python oracle: scaled value x efficiency at the fluid's heating value"""
    x = d["value"] * d["scaling"]
    h = d["hhv"]
    if d["controller"] == "p2g":
        return x * 1e3 / (h[0] * 3600) * d["efficiency"]
    if d["controller"] == "g2p":
        return x * h[0] * 3600 / 1e3 * d["efficiency"]
    if d["controller"] == "g2p_power_led":
        return x / (h[0] * 3600 / 1e3 * d["efficiency"])
    return x * h[0] / h[1] * d["efficiency"]


def res_tables(net):
    return {k: net[k].copy() for k in net.keys() if isinstance(k, str) and k.startswith("res_") and
            hasattr(net[k], "columns") and len(net[k])}


def same_bits(a, b):
    import numpy as np
    if set(a) != set(b):
        return "result tables differ: %s vs %s" % (sorted(a), sorted(b))
    for k in a:
        if list(a[k].columns) != list(b[k].columns) or list(a[k].index) != list(b[k].index):
            return "%s: shape differs" % k
        x, y = a[k].values.astype(float), b[k].values.astype(float)
        if not np.array_equal(x, y, equal_nan=True):
            i, j = np.argwhere(~((x == y) | (np.isnan(x) & np.isnan(y))))[0]
            return "%s[%s, %s]: coupled %r, stand-alone %r" % (k, a[k].index[i], a[k].columns[j], x[i, j], y[i, j])
    return None


def standalone(net):
    import pandapipes
    import pandapower
    c = copy.deepcopy(net)
    if "controller" in c and len(c.controller):
        c.controller.drop(c.controller.index, inplace=True)
    if isinstance(net, pandapipes.pandapipesNet):
        pandapipes.pipeflow(c)
    else:
        pandapower.runpp(c)
    return c


def monitor_multinets(ctx, n):
    from pandapipes.multinet.control.run_control_multinet import run_control
    rng = ctx.rng
    items = []
    for it in range(n):
        kind = ["power_gas", "gas_gas", "all"][it % 3]
        try:
            mn, nets, cps, desc = scenario(ctx, kind)
        except Exception:
            import traceback
            ctx.broken("harness", "scenario generation", traceback.format_exc()[-800:])
            continue
        ctx.count("multinet_" + kind)
        try:
            run_control(mn)
        except Exception as e:
            ctx.count("multinet_run_failed_" + type(e).__name__)
            ctx.note("run_control raised %s on a generated %s multinet (skipped)" % (type(e).__name__, kind))
            continue
        desc = dict(desc, couplings=[{k: (list(map(str, v)) if isinstance(v, tuple) else v) for k, v in c.items()} for c in cps])
        ctx.case(desc, len(cps) > 1)
        if not all(bool(nets[n_]["converged"]) for n_ in nets):
            ctx.violation({"fn": "run_control", "clause": "multinet_converged_iff_all"},
                          "run_control returned normally although a member net is not converged: %s"
                          % {n_: bool(nets[n_]["converged"]) for n_ in nets}, desc)
        items += written_items(nets, cps, {"scenario": desc["kind"], "fluids": desc["fluids"], "levels": desc["levels"],
                                           "orders": desc["orders"]})
        if desc.get("heat_member"):
            ctx.count("multinet_with_heat_member")
            hi, hv = desc["heat_member"]
            if float(nets["heat"].sink.at[hi, "mdot_kg_per_s"]) != hv or \
                    float(nets["heat"].res_sink.at[hi, "mdot_kg_per_s"]) != hv * float(nets["heat"].sink.at[hi, "scaling"]):
                ctx.violation({"fn": "run_control", "clause": "net_owned_controller_in_heat_member"},
                              "heat member: sink %s set to %r by its own controller, table has %r, result %r"
                              % (hi, hv, nets["heat"].sink.at[hi, "mdot_kg_per_s"],
                                 nets["heat"].res_sink.at[hi, "mdot_kg_per_s"]), desc)
        if desc.get("power_to_heat"):
            ctx.count("multinet_with_thermal_coupling")
            li, eta = desc["power_to_heat"]
            exp = -float(nets["power"].load.at[li, "p_mw"]) * float(nets["power"].load.at[li, "scaling"]) * 1e6 * eta
            got = float(nets["heat"].heat_exchanger.at[0, "qext_w"])
            res = float(nets["heat"].res_heat_exchanger.at[0, "t_to_k"]) - float(nets["heat"].res_heat_exchanger.at[0, "t_from_k"])
            if got != exp or not res > 0:
                ctx.violation({"fn": "run_control", "clause": "thermal_coupling_in_heat_member"},
                              "power-to-heat coupling: heat_exchanger.qext_w = %r (expected %r), temperature rise over the "
                              "exchanger %r K (heat is fed in, must be > 0)" % (got, exp, res), desc)
        for n_, net in nets.items():
            try:
                alone = standalone(net)
            except Exception as e:
                ctx.violation({"fn": "run_control", "clause": "after_run_is_standalone", "net": n_},
                              "stand-alone calculation of member %s with the written values fails: %r" % (n_, e), desc)
                continue
            diff = same_bits(res_tables(net), res_tables(alone))
            if diff:
                ctx.violation({"fn": "run_control", "clause": "after_run_is_standalone", "net_kind": type(net).__name__},
                              "member %s after the coupled run differs from a stand-alone calculation with the written "
                              "values: %s" % (n_, diff), desc)
    return items


def check_written(ctx, items, label):
    if not items:
        return
    tol = Fr(1, 10 ** 12)
    body = ";\n".join("(%s, %s)" % (e, q(o)) for e, o, _ in items)
    txt = HEAD + ("Open Scope Q_scope.\nDefinition cs : list ((Q * Q) * Q) := [\n%s\n].\n"
                  "Definition close (a b : Q) : bool := Qle_bool (Qabs (a - b)) (%s * Qabs a).\n"
                  "Definition ok (c : (Q * Q) * Q) : bool := close (fst (fst c)) (snd c).\n"
                  "Definition ok_gen (c : (Q * Q) * Q) : bool := close (snd (fst c)) (snd c).\n"
                  "Eval vm_compute in (summary (map ok cs)).\nEval vm_compute in (summary (map ok_gen cs)).\n"
                  "Eval vm_compute in (map ok cs).\n" % (body, q(tol)))
    trip, out = ctx.coq_counts(txt, "written_" + label)
    if not trip or len(trip) < 2:
        ctx.broken("monitor", "written cells vs documented law (coqc failed)", out[-1000:])
        return
    n, m, first = trip[0]
    if trip[1][1] and not m:
        ctx.broken("translator-validation", "Gen/KConv.v (Q twin) does not reproduce %d written cells that the documented "
                   "law reproduces" % trip[1][1], "first case %d: %s" % (trip[1][2], items[trip[1][2]][0][:300]))
    ctx.extra.setdefault("monitors", []).append({"name": "written cells vs documented law spec_* and vs generated formula (" + label + ")", "cases": n,
                                                 "failures": m, "tolerance": "1e-12 relative (hhv is decimal data)"})
    if m:
        import re
        flags = re.findall(r"\b(true|false)\b", out.split("=", 3)[-1])
        bad = [i for i, f in enumerate(flags) if f == "false"] if len(flags) == len(items) else [first]
        seen = set()
        for i in bad:
            d = items[i][2]
            key = (d["controller"], d["vector_index"])
            if key in seen:
                continue
            seen.add(key)
            exp = expected_by_property(d)
            ctx.violation({"fn": "control_step/write_to_net", "controller": d["controller"],
                           "index": "vector" if d["vector_index"] else "scalar", "clause": "written_value"},
                          "%s controller (%s index): %s = %r, but %s = %r x scaling %r at hhv %r with efficiency %r gives %r"
                          % (d["controller"], "vector" if d["vector_index"] else "scalar", d["write"], d["written"],
                             d["read"], d["value"], d["scaling"], d["hhv"], d["efficiency"], exp), d)


def monitor_divergence(ctx, n):
    """one member made infeasible: run_control must not return normally.
    mode 'raise'   : default run functions (the member's solver raises, run_control lets it through)
    mode 'tolerant': the documented ctrl_variables[...]['run'] hook with a run function that swallows the
                     solver's not-converged exception, so that the flag path of _evaluate_multinet decides"""
    import pandapipes
    import pandapower
    from pandapipes.multinet.control.run_control_multinet import run_control
    from pandapipes.pf.pipeflow_setup import PipeflowNotConverged
    from pandapower.powerflow import LoadflowNotConverged

    def tolerant(fn, exc):
        def run(net, **kw):
            try:
                fn(net, **kw)
            except exc:
                net["converged"] = False
        return run
    rng = ctx.rng
    for it in range(n):
        kind = ["power_gas", "gas_gas", "all"][it % 3]
        mode = "tolerant" if it % 4 else "raise"
        mn, nets, cps, desc = scenario(ctx, kind)
        for c in mn.controller.object.values:
            c.initial_run = False
        mn.controller["initial_run"] = False
        for n_ in nets:
            if "controller" in nets[n_] and len(nets[n_].controller):
                for c in nets[n_].controller.object.values:
                    c.initial_run = False
                nets[n_].controller["initial_run"] = False
        victim = rng.choice(sorted(nets))
        if victim == "heat":
            nets[victim].pipe.at[nets[victim].pipe.index[0], "inner_diameter_mm"] = float("nan")   # liquids survive any sink
        elif isinstance(nets[victim], pandapipes.pandapipesNet):
            pandapipes.create_sink(nets[victim], nets[victim].junction.index[-1], 1e7)
        else:
            pandapower.create_load(nets[victim], nets[victim].bus.index[-1], p_mw=1e6, q_mvar=1e6)
        cv = None
        if mode == "tolerant":
            cv = {"nets": {n_: {"run": tolerant(pandapipes.pipeflow, PipeflowNotConverged)
                                if isinstance(nets[n_], pandapipes.pandapipesNet)
                                else tolerant(pandapower.runpp, LoadflowNotConverged), "initial_run": False}
                           for n_ in nets}}
        returned, err = False, None
        try:
            run_control(mn, ctrl_variables=cv)
            returned = True
        except Exception as e:
            err = type(e).__name__
        flags = {n_: bool(nets[n_].get("converged", False)) for n_ in nets}
        d = dict(desc, victim=victim, mode=mode, member_converged=flags, outcome="returned" if returned else err)
        ctx.case(d, True)
        ctx.count("divergence_%s_%s" % (mode, "returned" if returned else err))
        if returned and not all(flags.values()):
            ctx.violation({"fn": "run_control", "clause": "multinet_converged_iff_all"},
                          "run_control returned normally (multinet reported converged) although member %s did not "
                          "converge: %s" % (victim, flags), d)
        elif returned:
            ctx.note("divergence injection into %s did not make it diverge (flags %s)" % (victim, flags))
        elif mode == "tolerant" and err != "NetCalculationNotConverged":
            ctx.note("divergence (tolerant run function) ended in %s instead of NetCalculationNotConverged" % err)
    # observation (error path, not a clause of C20): continue_on_divergence=True
    try:
        mn, nets, cps, desc = scenario(ctx, "gas_gas")
        pandapipes.create_sink(nets["gas2"], nets["gas2"].junction.index[-1], 1e7)
        cv = {"nets": {n_: {"continue_on_divergence": True} for n_ in nets}}
        try:
            run_control(mn, ctrl_variables=cv)
        except Exception as e:
            if type(e).__name__ not in ("NetCalculationNotConverged", "PipeflowNotConverged"):
                ctx.note("continue_on_divergence=True with a diverging member ends in %s: _evaluate_multinet indexes the "
                         "level order with a Python bool (levelorder[True] adds an axis), so _control_repair cannot unpack "
                         "(controller, net) pairs" % type(e).__name__)
    except Exception:
        pass


def stubborn_class():
    from pandapower.control.basic_controller import Controller

    class Stubborn(Controller):
        """a net-owned controller that never converges while it is armed (or in the time steps of bad_steps)"""
        def __init__(self, net, bad_steps=(), **kw):
            super().__init__(net, **kw)
            self.bad_steps, self.armed, self.t = set(bad_steps), False, None

        def time_step(self, net, time):
            self.t = time

        def is_converged(self, net):
            return not (self.armed or self.t in self.bad_steps)

        def control_step(self, net):
            pass
    return Stubborn


def monitor_aborted_then_rerun(ctx, n):
    """a control run that is ABORTED (a net-owned controller does not converge within max_iter, or a member diverges
    with continue_on_divergence=True) followed by a further run on the same multinet with changed inputs: every written
    cell must follow the formula with the NEW inputs and every member must equal its stand-alone calculation"""
    import pandapipes
    from pandapipes.multinet.control.run_control_multinet import run_control
    rng = ctx.rng
    items = []
    for it in range(n):
        kind = ["power_gas", "gas_gas", "all"][it % 3]
        how = ["controller", "divergence"][it % 2]
        try:
            mn, nets, cps, desc = scenario(ctx, kind)
            stub = stubborn_class()(nets["gas"], order=9, level=max(desc["levels"]))
            run_control(mn)
        except Exception as e:
            ctx.note("aborted-run monitor: set-up run failed with %s (skipped)" % type(e).__name__)
            continue
        aborted = None
        try:
            if how == "controller":
                stub.armed = True
                run_control(mn, max_iter=2)
            else:
                victim = nets["gas"]
                bad = pandapipes.create_sink(victim, victim.junction.index[-1], 1e7)
                cv = {"nets": {n_: {"continue_on_divergence": True} for n_ in nets}}
                try:
                    run_control(mn, ctrl_variables=cv)
                finally:
                    victim.sink.drop(index=bad, inplace=True)
                    if "res_sink" in victim and bad in victim.res_sink.index:
                        victim.res_sink.drop(index=bad, inplace=True)
        except Exception as e:
            aborted = type(e).__name__
        finally:
            stub.armed = False
        ctx.count("aborted_run_%s_%s" % (how, aborted or "not_aborted"))
        if aborted is None:
            continue
        # new inputs for every coupling
        for cp in cps:
            rn, rt, ridx = cp["read"]
            for ri in ridx:
                nets[rn][rt].at[ri, VALUE_COL[rt]] = float(nets[rn][rt].at[ri, VALUE_COL[rt]]) * rng.choice([0.5, 0.75, 1.5])
        try:
            run_control(mn)
        except Exception as e:
            ctx.count("rerun_after_abort_failed_" + type(e).__name__)
            ctx.note("run after an aborted run raised %s (skipped)" % type(e).__name__)
            continue
        d = {"scenario": desc["kind"], "fluids": desc["fluids"], "levels": desc["levels"], "orders": desc["orders"],
             "history": "run_control ok; run_control aborted by %s (%s); inputs changed; run_control" % (how, aborted)}
        ctx.case(dict(d, couplings=len(cps)), True)
        items += written_items(nets, cps, d)
        for n_, net in nets.items():
            try:
                diff = same_bits(res_tables(net), res_tables(standalone(net)))
            except Exception as e:
                diff = "stand-alone run failed: %r" % e
            if diff:
                ctx.violation({"fn": "run_control", "clause": "after_run_is_standalone", "needs": "previous run aborted",
                               "net_kind": type(net).__name__},
                              "after an aborted run (%s: %s) and a further run_control, member %s differs from a stand-alone "
                              "calculation with the written values: %s" % (how, aborted, n_, diff), d)
    return items


def monitor_init_any(ctx):
    """net_initialization_multinet combines the initial-run flags with max: a multinet without in-service controller
    whose power member ends its initial run not converged (tolerant run function) is reported converged"""
    import pandapipes
    import pandapower
    from pandapower.powerflow import LoadflowNotConverged
    from pandapipes.pf.pipeflow_setup import PipeflowNotConverged
    from pandapipes.multinet.create_multinet import create_empty_multinet, add_nets_to_multinet
    from pandapipes.multinet.control.controller.multinet_control import G2PControlMultiEnergy
    from pandapipes.multinet.control.run_control_multinet import run_control
    rng = ctx.rng

    def tol(fn, exc):
        def run(net, **kw):
            try:
                fn(net, **kw)
            except exc:
                net["converged"] = False
        return run
    for variant in ("no_controller", "controller_out_of_service"):
        for first in ("power", "gas"):
            nets = {"power": build_power(rng, "el", 3, 2, 0), "gas": build_gas(rng, "lgas", "g", 2, 2)}
            pandapower.set_user_pf_options(nets["power"], numba=False)
            pandapipes.set_user_pf_options(nets["gas"], use_numba=False)
            pandapower.create_load(nets["power"], nets["power"].bus.index[-1], p_mw=1e6, q_mvar=1e6)
            mn = create_empty_multinet("init")
            order = [first, "gas" if first == "power" else "power"]
            add_nets_to_multinet(mn, **{k: nets[k] for k in order})
            if variant == "controller_out_of_service":
                G2PControlMultiEnergy(mn, 0, 0, 0.5, in_service=False)
            cv = {"nets": {"power": {"run": tol(pandapower.runpp, LoadflowNotConverged), "initial_run": True},
                           "gas": {"run": tol(pandapipes.pipeflow, PipeflowNotConverged), "initial_run": True}}}
            try:
                run_control(mn, ctrl_variables=cv)
                out = "returned"
            except Exception as e:
                out = type(e).__name__
            flags = {k: bool(nets[k].get("converged", False)) for k in nets}
            d = {"variant": variant, "member_order": order, "outcome": out, "member_converged": flags}
            ctx.case(d, True)
            ctx.count("init_any_" + out)
            if out == "returned" and not all(flags.values()):
                ctx.violation({"fn": "net_initialization_multinet", "clause": "init_converged_is_all",
                               "needs": "no in-service controller, run function that tolerates divergence"},
                              "run_control returned normally (ctrl_variables['converged'] = max of the initial-run flags) "
                              "although the initial run of member power did not converge: %s" % flags, d)


def monitor_timeseries(ctx, n):
    """coupled_*_const_control through run_timeseries: last step's cells and stand-alone equality"""
    import numpy as np
    import pandas as pd
    from pandapower.timeseries import DFData
    from pandapipes.multinet.create_multinet import create_empty_multinet, add_nets_to_multinet
    from pandapipes.multinet.control.controller.multinet_control import coupled_p2g_const_control, \
        coupled_g2p_const_control
    from pandapipes.multinet.timeseries.run_time_series_multinet import run_timeseries
    rng = ctx.rng
    items = []
    for it in range(n):
        mn = create_empty_multinet("ts")
        fl = rng.choice(GASES)
        nets = {"power": build_power(rng, "el", 3, 3, 0), "gas": build_gas(rng, fl, "g", 3, 3)}
        __import__("pandapower").set_user_pf_options(nets["power"], numba=False)
        __import__("pandapipes").set_user_pf_options(nets["gas"], use_numba=False)
        add_nets_to_multinet(mn, **nets)
        steps = 3
        prof = pd.DataFrame({"p2g": [dy(rng, 1, 16, 16) for _ in range(steps)],
                             "g2p": [dy(rng, 0.05, 0.4, 64) for _ in range(steps)]})
        ds = DFData(prof)
        eta1, eta2 = dy(rng, 0.25, 1, 16), dy(rng, 0.25, 1, 16)
        nets["power"].load.at[0, "scaling"] = 0.5
        nets["gas"].sink.at[1, "scaling"] = 1.5
        coupled_p2g_const_control(mn, 0, 0, p2g_efficiency=eta1, profile_name="p2g", data_source=ds)
        led = bool(it % 2)
        if led:
            prof["g2p"] = [dy(rng, 0.5, 4, 16) for _ in range(steps)]      # electric output profile [MW]
            ds = DFData(prof)
        coupled_g2p_const_control(mn, 1, 1, g2p_efficiency=eta2, element_type_power="sgen", profile_name="g2p",
                                  data_source=ds, power_led=led)
        abort_step = it % 4 >= 2
        if abort_step:      # time step 1 is aborted (controller not converged); step 2 must be unaffected
            stubborn_class()(nets["power"], bad_steps=[1], order=5, level=0)
        try:
            run_timeseries(mn, time_steps=range(steps), output_writers=None, verbose=False,
                           continue_on_divergence=abort_step, max_iter=3 if abort_step else 30)
        except TypeError:
            run_timeseries(mn, time_steps=range(steps), continue_on_divergence=abort_step)
        except Exception as e:
            ctx.note("run_timeseries raised %s (skipped)" % type(e).__name__)
            continue
        d = {"scenario": "timeseries" + ("_with_aborted_step" if abort_step else ""), "fluids": [fl], "levels": "default",
             "orders": "default"}
        ctx.count("timeseries_aborted_step" if abort_step else "timeseries_plain")
        g2p_cell = nets["power"].sgen.at[1, "p_mw"] if led else nets["gas"].sink.at[1, "mdot_kg_per_s"]
        ok_prof = float(nets["power"].load.at[0, "p_mw"]) == float(prof["p2g"].iloc[-1]) and \
            float(g2p_cell) == float(prof["g2p"].iloc[-1])
        ctx.case(dict(d, profile=prof.to_dict("list"), eta=[eta1, eta2], power_led=led), True)
        ctx.count("timeseries_power_led" if led else "timeseries_gas_led")
        if not ok_prof:
            ctx.violation({"fn": "coupled_const_control", "clause": "profile_value_applied"},
                          "after the last time step load.p_mw = %r / sink.mdot = %r, profile says %r / %r"
                          % (nets["power"].load.at[0, "p_mw"], nets["gas"].sink.at[1, "mdot_kg_per_s"],
                             prof["p2g"].iloc[-1], prof["g2p"].iloc[-1]), d)
        cps = [{"kind": "p2g", "coq": "p2g_written", "eta": eta1, "vector": False, "hhv": ["gas"],
                "read": ("power", "load", [0]), "write": ("gas", "source", [0])},
               ({"kind": "g2p_power_led", "coq": "g2p_power_led_written", "eta": eta2, "vector": False, "hhv": ["gas"],
                 "read": ("power", "sgen", [1]), "write": ("gas", "sink", [1])} if led else
                {"kind": "g2p", "coq": "g2p_written", "eta": eta2, "vector": False, "hhv": ["gas"],
                 "read": ("gas", "sink", [1]), "write": ("power", "sgen", [1])})]
        items += written_items(nets, cps, d)
        for n_, net in nets.items():
            try:
                diff = same_bits(res_tables(net), res_tables(standalone(net)))
            except Exception as e:
                diff = "stand-alone run failed: %r" % e
            if diff:
                ctx.violation({"fn": "run_timeseries", "clause": "after_run_is_standalone", "net_kind": type(net).__name__},
                              "member %s after the coupled time series differs from a stand-alone calculation with the "
                              "written values: %s" % (n_, diff), d)
    _ = np
    return items


# =========================================================================== run
def run(ctx):
    ctx.extra["rule"] = ("bookkeeping: seeded multinets of 1-5 member nets with 0-6 stub controllers (multinet-owned naming "
                         "1-3 nets, or net-owned; levels, orders, in_service random), two scripted flag patterns per level; "
                         "real multinets: power+gas / gas+gas / power+gas+gas with 1-2 controllers of each kind, scalar "
                         "(int, np.int64) and vector (list, ndarray) indices, scaling in {0.5,0.75,1,1.25,1.5}, dyadic "
                         "efficiencies, permuted orders/levels, library gases; non-trivial = more than one member net and "
                         "at least one controller in the level / more than one coupling controller")
    try:
        ctx.gen("KConv", tm.generate())
    except Exception as e:
        ctx.broken("translator", "tools/translate/multinet.py", repr(e))
    proved = ctx.prove("C20")
    try:                                   # after_run_is_standalone: instance of the C12 history model
        import vlib as _vlib
        from props import c12 as _c12
        for name, fn in getattr(_c12, "GEN", []):
            # C12's generator takes ~25 s: in the quick tier its Gen file is used as C12's own check left it
            if not ctx.quick or not os.path.exists(os.path.join(_vlib.COQ, "Gen", name + ".v")):
                ctx.gen(name, fn())
    except Exception as e:
        ctx.broken("translator", "C12 generators (needed by C20/Standalone.v)", repr(e))
    for extra in ("Standalone", "PropsRun"):    # these import other properties' developments (PP.C12, PP.C13)
        n_obl, n_brk = len(ctx.obligations), len(ctx.brokens)
        if not ctx.prove("C20", props=extra):
            # another check may be rebuilding C12 / C13 at this moment: one retry before it counts
            import time as _t
            _t.sleep(20)
            del ctx.obligations[n_obl:]
            del ctx.brokens[n_brk:]
            ctx.prove("C20", props=extra)
    if not proved:
        ctx.make(["C20/Model.vo", "Gen/KConv.vo"])
    ctx.assumptions.append("pandapower control_implementation calls the evaluate function once per control iteration of a "
                           "level and raises when ctrl_variables['converged'] is false (oracle; exercised by the divergence "
                           "monitor); runpp / pipeflow are deterministic functions of the net tables (C12)")
    import pandapipes  # noqa: F401
    try:
        run_bookkeeping(ctx)
    except Exception:
        import traceback
        ctx.broken("harness", "bookkeeping correspondence", traceback.format_exc()[-1200:])
    for name, fn, n in (("run_control", monitor_multinets, 8 if ctx.quick else 300),
                        ("aborted_then_rerun", monitor_aborted_then_rerun, 4 if ctx.quick else 60),
                        ("timeseries", monitor_timeseries, 4 if ctx.quick else 32)):
        try:
            check_written(ctx, fn(ctx, n), name)
        except Exception:
            import traceback
            ctx.broken("harness", "monitor " + name, traceback.format_exc()[-1200:])
    try:
        monitor_init_any(ctx)
    except Exception:
        import traceback
        ctx.broken("harness", "monitor init_any", traceback.format_exc()[-1200:])
    try:
        monitor_divergence(ctx, 5 if ctx.quick else 60)
    except Exception:
        import traceback
        ctx.broken("harness", "monitor divergence", traceback.format_exc()[-1200:])


def replay(ctx, path):
    import json
    obj = json.load(open(path))
    print("replay of %s: re-running the full check with seed %s" % (path, obj.get("seed")))
    ctx.seed = obj.get("seed", ctx.seed)
    run(ctx)
